"""GIR document model -> GIR XML text (own writer) + expected typelib-level model.

The expected model uses the same dict shapes as vt/typelib.py's decoder output but
contains ONLY the facts that the GIR fixes according to docs/gir-1.2.rnc and
girepository/gitypelib-internal.h (MUST).  Anything absent from an expected dict is
UNSPECIFIED and not compared (see match()).
"""
from xml.sax.saxutils import escape, quoteattr

XMLNS = ('xmlns="http://www.gtk.org/introspection/core/1.0" '
         'xmlns:c="http://www.gtk.org/introspection/c/1.0" '
         'xmlns:glib="http://www.gtk.org/introspection/glib/1.0"')

# GIR basic type name -> (typelib tag, by-reference, natural C type)
BASIC = {
    'none': ('void', 0, 'void'), 'gpointer': ('void', 1, 'gpointer'), 'gboolean': ('gboolean', 0, 'gboolean'),
    'gint8': ('gint8', 0, 'gint8'), 'guint8': ('guint8', 0, 'guint8'), 'gint16': ('gint16', 0, 'gint16'),
    'guint16': ('guint16', 0, 'guint16'), 'gint32': ('gint32', 0, 'gint32'), 'guint32': ('guint32', 0, 'guint32'),
    'gint64': ('gint64', 0, 'gint64'), 'guint64': ('guint64', 0, 'guint64'), 'gfloat': ('gfloat', 0, 'gfloat'),
    'gdouble': ('gdouble', 0, 'gdouble'), 'GType': ('GType', 0, 'GType'), 'utf8': ('utf8', 1, 'const gchar*'),
    'filename': ('filename', 1, 'const gchar*'), 'gunichar': ('gunichar', 0, 'gunichar'),
    # platform aliases on x86-64 / LP64
    'gchar': ('gint8', 0, 'gchar'), 'guchar': ('guint8', 0, 'guchar'), 'gshort': ('gint16', 0, 'gshort'),
    'gushort': ('guint16', 0, 'gushort'), 'gint': ('gint32', 0, 'gint'), 'guint': ('guint32', 0, 'guint'),
    'glong': ('gint64', 0, 'glong'), 'gulong': ('guint64', 0, 'gulong'), 'gssize': ('gint64', 0, 'gssize'),
    'gsize': ('guint64', 0, 'gsize'), 'gintptr': ('gint64', 0, 'gintptr'), 'guintptr': ('guint64', 0, 'guintptr'),
    'time_t': ('gint64', 0, 'time_t'), 'off_t': ('gint64', 0, 'off_t'), 'pid_t': ('gint32', 0, 'pid_t'),
    'uid_t': ('guint32', 0, 'uid_t'),
}


def attrs(pairs):
    return ''.join(' %s=%s' % (k, quoteattr(str(v))) for k, v in pairs if v is not None)


def flag(v):
    return '1' if v else None


# ------------------------------------------------------------------ types ---
class Ty(object):
    """A type usage."""

    def xml(self, out=False):
        raise NotImplementedError

    def expect(self, out=False):
        raise NotImplementedError


class B(Ty):
    def __init__(self, name, ctype=None, byref=None):
        self.name = name
        tag, ref, nat = BASIC[name]
        self.ctype = ctype if ctype is not None else nat
        self.tag = tag
        self.byref = ref if byref is None else byref

    def xml(self, out=False):
        ct = self.ctype + ('*' if out else '')
        return '<type name="%s" c:type="%s"/>' % (self.name, ct)

    def expect(self, out=False):
        return {'tag': self.tag, 'pointer': self.byref}


class I(Ty):
    """Reference to a registered type / callback: name 'Local' or 'Ns.Name'; byref = passed by pointer."""

    def __init__(self, name, ctype, byref=1):
        self.name, self.ctype, self.byref = name, ctype, byref

    def xml(self, out=False):
        ct = self.ctype + ('*' if self.byref else '') + ('*' if out else '')
        return '<type name="%s" c:type="%s"/>' % (self.name, ct)

    def expect(self, out=False):
        return {'tag': 'interface', 'pointer': self.byref, 'interface': self.name}


def _nopointer(e):
    """Strip the 'pointer' fact from a nested element expectation (and below)."""
    if isinstance(e, dict):
        return {k: _nopointer(v) for k, v in e.items() if k != 'pointer'}
    if isinstance(e, list):
        return [_nopointer(x) for x in e]
    return e


class AliasUse(Ty):
    """Use of a local <alias>: the compiler expands it to its target."""

    def __init__(self, name, target):
        self.name, self.target = name, target

    def xml(self, out=False):
        return '<type name="%s" c:type="C%s%s"/>' % (self.name, self.name, '*' if out else '')

    def expect(self, out=False):
        e = self.target.expect(out)
        if isinstance(e, dict) and e.get('tag') == 'interface':
            # the pointer flag of a registered type follows the c:type written at the use site (the alias' own C name,
            # which has no '*'), not the alias target: UNSPECIFIED here
            e = {k: v for k, v in e.items() if k != 'pointer'}
        return e


class Arr(Ty):
    def __init__(self, elem, kind=None, zero_terminated=None, length=None, fixed_size=None, ctype=None):
        self.elem, self.kind, self.zt, self.length, self.size, self.ctype = elem, kind, zero_terminated, length, fixed_size, ctype

    def xml(self, out=False):
        a = [('name', self.kind), ('zero-terminated', None if self.zt is None else int(self.zt)),
             ('length', self.length), ('fixed-size', self.size), ('c:type', self.ctype)]
        return '<array%s>%s</array>' % (attrs(a), self.elem.xml())

    def expect(self, out=False, in_field=False):
        kind = {None: 'c', 'GLib.Array': 'array', 'GLib.PtrArray': 'ptr_array', 'GLib.ByteArray': 'byte_array'}[self.kind]
        # the element c:type under an out parameter carries the out indirection: pointer flag UNSPECIFIED there
        e = {'tag': 'array', 'array_type': kind, 'elem': _nopointer(self.elem.expect()) if out else self.elem.expect()}
        if kind == 'c':
            e['has_length'] = int(self.length is not None)
            e['has_size'] = int(self.size is not None)
            if self.length is not None:
                e['length'] = self.length
            if self.size is not None and self.length is None:
                e['size'] = self.size
            if self.zt is not None:
                e['zero_terminated'] = int(self.zt)
            else:
                # gir-1.2.rnc: zero-terminated defaults to true unless length / fixed-size given
                e['zero_terminated'] = int(self.length is None and self.size is None)
        else:
            e['zero_terminated'] = 0
            e['has_length'] = 0
            e['has_size'] = 0
        # arrays are passed by reference, except a fixed-size C array that is the type of a field:
        # that one is embedded in the struct (this is what the struct layout of C08 relies on)
        e['pointer'] = 0 if (in_field and kind == 'c' and self.size is not None) else 1
        return e


class Lst(Ty):
    def __init__(self, name, elem=None):
        self.name, self.elem = name, elem

    def xml(self, out=False):
        ct = {'GLib.List': 'GList*', 'GLib.SList': 'GSList*'}[self.name] + ('*' if out else '')
        inner = self.elem.xml() if self.elem is not None else ''
        return '<type name="%s" c:type="%s">%s</type>' % (self.name, ct, inner)

    def expect(self, out=False):
        e = {'tag': 'glist' if self.name == 'GLib.List' else 'gslist', 'pointer': 1}
        e['params'] = [self.elem.expect() if self.elem is not None else {'tag': 'void', 'pointer': 1}]
        if out:
            e['params'] = _nopointer(e['params'])
        return e


class Hash(Ty):
    def __init__(self, k=None, v=None):
        self.k, self.v = k, v

    def xml(self, out=False):
        inner = (self.k.xml() + self.v.xml()) if self.k is not None else ''
        return '<type name="GLib.HashTable" c:type="GHashTable*%s">%s</type>' % ('*' if out else '', inner)

    def expect(self, out=False):
        if self.k is None:
            ps = [{'tag': 'void', 'pointer': 1}, {'tag': 'void', 'pointer': 1}]
        else:
            ps = [self.k.expect(), self.v.expect()]
        if out:
            ps = _nopointer(ps)
        return {'tag': 'ghash', 'pointer': 1, 'params': ps}


class Err(Ty):
    def xml(self, out=False):
        return '<type name="GLib.Error" c:type="GError*%s"/>' % ('*' if out else '')

    def expect(self, out=False):
        return {'tag': 'error', 'pointer': 1}


# -------------------------------------------------------------- callables ---
class Attrs(object):
    """mixin: free-form <attribute name= value=> children"""
    attributes = ()

    def attr_xml(self):
        return ''.join('<attribute name=%s value=%s/>' % (quoteattr(k), quoteattr(v)) for k, v in self.attributes)


class Param(Attrs):
    def __init__(self, name, type, direction='in', transfer='none', nullable=False, optional=False,
                 caller_allocates=False, scope=None, closure=None, destroy=None, skip=False, allow_none=False,
                 attributes=()):
        self.name, self.type, self.direction, self.transfer = name, type, direction, transfer
        self.nullable, self.optional, self.caller_allocates = nullable, optional, caller_allocates
        self.scope, self.closure, self.destroy, self.skip, self.allow_none = scope, closure, destroy, skip, allow_none
        self.attributes = tuple(attributes)

    def xml(self):
        out = self.direction in ('out', 'inout')
        a = [('name', self.name),
             ('direction', None if self.direction == 'in' else self.direction),
             ('caller-allocates', (int(self.caller_allocates) if self.direction == 'out' else None)),
             ('transfer-ownership', self.transfer), ('nullable', flag(self.nullable)),
             ('optional', flag(self.optional)), ('allow-none', flag(self.allow_none)),
             ('scope', self.scope), ('closure', self.closure), ('destroy', self.destroy), ('skip', flag(self.skip))]
        return '<parameter%s>%s%s</parameter>' % (attrs(a), self.attr_xml(), self.type.xml(out))

    def expect(self):
        d = self.direction
        out = d in ('out', 'inout')
        # allow-none (deprecated) only decides when the GIR states neither nullable nor optional
        modern = self.nullable or self.optional
        nullable = int(self.nullable or (self.allow_none and not out and not modern))
        optional = int(self.optional or (self.allow_none and out and not modern))
        e = {'name': self.name, 'in': int(d in ('in', 'inout')), 'out': int(out),
             'caller_allocates': int(d == 'out' and self.caller_allocates),
             'nullable': nullable, 'optional': optional,
             'transfer_ownership': int(self.transfer == 'full'),
             'transfer_container_ownership': int(self.transfer == 'container'),
             'return_value': 0, 'skip': int(self.skip), 'scope': self.scope or 'invalid',
             'closure': -1 if self.closure is None else self.closure,
             'destroy': -1 if self.destroy is None else self.destroy,
             'type': self.type.expect(out), '_attributes': sorted(self.attributes)}
        return e


class Ret(Attrs):
    def __init__(self, type=None, transfer='none', nullable=False, skip=False, attributes=()):
        self.type = type if type is not None else B('none')
        self.transfer, self.nullable, self.skip = transfer, nullable, skip
        self.attributes = tuple(attributes)

    def xml(self):
        a = [('transfer-ownership', self.transfer), ('nullable', flag(self.nullable)), ('skip', flag(self.skip))]
        return '<return-value%s>%s%s</return-value>' % (attrs(a), self.attr_xml(), self.type.xml())


class Callable(Attrs):
    """function / method / constructor / callback / virtual-method / glib:signal share this."""
    tag = 'function'

    def __init__(self, name, ret=None, params=(), symbol=None, throws=False, deprecated=False,
                 instance=None, shadows=None, set_property=None, get_property=None, introspectable=True,
                 attributes=(), moved_to=None, shadowed_by=None, **extra):
        self.shadowed_by = shadowed_by
        self.name, self.ret, self.params = name, ret if ret is not None else Ret(), list(params)
        self.symbol = symbol if symbol is not None else 'sym_' + name
        self.throws, self.deprecated, self.instance = throws, deprecated, instance
        self.shadows, self.set_property, self.get_property = shadows, set_property, get_property
        self._intro_attr = introspectable
        # a callable that is shadowed-by another one is replaced by it: it must not appear in the typelib
        self.introspectable = introspectable and shadowed_by is None
        self.attributes = tuple(attributes)
        self.moved_to = moved_to
        self.extra = extra

    def head_attrs(self):
        return [('name', self.name), ('c:identifier', self.symbol), ('shadows', self.shadows),
                ('shadowed-by', self.shadowed_by),
                ('glib:set-property', self.set_property), ('glib:get-property', self.get_property),
                ('throws', flag(self.throws)), ('deprecated', flag(self.deprecated)),
                ('moved-to', self.moved_to),
                ('introspectable', None if self._intro_attr else '0')]

    def xml(self):
        ps = ''
        if self.instance is not None or self.params:
            ps = '<parameters>'
            if self.instance is not None:
                ps += '<instance-parameter name="self" transfer-ownership="%s">%s</instance-parameter>' % (
                    self.instance[1], self.instance[0].xml())
            ps += ''.join(p.xml() for p in self.params) + '</parameters>'
        return '<%s%s>%s%s%s</%s>' % (self.tag, attrs(self.head_attrs()), self.attr_xml(), self.ret.xml(), ps, self.tag)

    def expect_signature(self):
        r = self.ret
        return {'may_return_null': int(r.nullable), 'caller_owns_return_value': int(r.transfer == 'full'),
                'caller_owns_return_container': int(r.transfer == 'container'), 'skip_return': int(r.skip),
                'instance_transfer_ownership': int(bool(self.instance and self.instance[1] == 'full')),
                'throws': int(self.throws), 'return_type': r.type.expect(),
                'args': [p.expect() for p in self.params], '_attributes': sorted(r.attributes)}

    def expect(self):
        return {'kind': 'function', 'name': self.shadows or self.name, 'symbol': self.symbol,
                'deprecated': int(self.deprecated), 'throws': int(self.throws),
                'constructor': int(self.tag == 'constructor'),
                'is_static': int(self.tag not in ('method', 'constructor')),
                'setter': int(self.tag in ('method', 'constructor') and self.set_property is not None),
                'getter': int(self.tag in ('method', 'constructor') and self.set_property is None and
                              self.get_property is not None),
                'signature': self.expect_signature(), '_attributes': sorted(self.attributes)}


class Function(Callable):
    tag = 'function'


class Method(Callable):
    tag = 'method'


class Constructor(Callable):
    tag = 'constructor'


class CallbackT(Callable):
    tag = 'callback'

    def head_attrs(self):
        return [('name', self.name), ('c:type', self.extra.get('ctype')), ('throws', flag(self.throws)),
                ('deprecated', flag(self.deprecated)), ('introspectable', None if self.introspectable else '0')]

    def expect(self):
        return {'kind': 'callback', 'name': self.name, 'deprecated': int(self.deprecated),
                'signature': self.expect_signature()}


class Signal(Callable):
    tag = 'glib:signal'

    def head_attrs(self):
        x = self.extra
        return [('name', self.name), ('when', x.get('when')), ('no-recurse', flag(x.get('no_recurse'))),
                ('detailed', flag(x.get('detailed'))), ('action', flag(x.get('action'))),
                ('no-hooks', flag(x.get('no_hooks'))), ('deprecated', flag(self.deprecated)),
                ('introspectable', None if self.introspectable else '0')]

    def expect(self):
        x = self.extra
        when = (x.get('when') or 'last').lower()
        return {'name': self.name, 'deprecated': int(self.deprecated), 'run_first': int(when == 'first'),
                'run_last': int(when == 'last'), 'run_cleanup': int(when == 'cleanup'),
                'no_recurse': int(bool(x.get('no_recurse'))), 'detailed': int(bool(x.get('detailed'))),
                'action': int(bool(x.get('action'))), 'no_hooks': int(bool(x.get('no_hooks'))),
                'signature': self.expect_signature(), '_attributes': sorted(self.attributes)}


class VFunc(Callable):
    tag = 'virtual-method'

    def head_attrs(self):
        x = self.extra
        return [('name', self.name), ('invoker', x.get('invoker')), ('offset', x.get('offset')),
                ('throws', flag(self.throws)), ('must-chain-up', flag(x.get('must_chain_up'))),
                ('override', x.get('override')), ('introspectable', None if self.introspectable else '0')]

    def expect(self):
        x = self.extra
        # must-chain-up / override are not part of docs/gir-1.2.rnc: UNSPECIFIED
        e = {'name': self.name, 'throws': int(self.throws), 'signature': self.expect_signature(),
             '_attributes': sorted(self.attributes)}
        if x.get('offset') is not None:
            e['struct_offset'] = x['offset']
        e['_invoker_name'] = x.get('invoker')    # resolved against the decoded method list by match()
        return e


# ---------------------------------------------------------------- members ---
class FieldN(Attrs):
    def __init__(self, name, type=None, readable=True, writable=False, bits=None, private=False, callback=None,
                 introspectable=True, attributes=()):
        self.name, self.type, self.readable, self.writable, self.bits = name, type, readable, writable, bits
        self.private, self.callback, self.introspectable = private, callback, introspectable
        self.attributes = tuple(attributes)

    def xml(self):
        a = [('name', self.name), ('readable', None if self.readable else '0'), ('writable', flag(self.writable)),
             ('bits', self.bits), ('private', flag(self.private)),
             ('introspectable', None if self.introspectable else '0')]
        inner = self.callback.xml() if self.callback is not None else self.type.xml()
        return '<field%s>%s%s</field>' % (attrs(a), self.attr_xml(), inner)

    def expect(self):
        e = {'name': self.name, 'readable': int(self.readable), 'writable': int(self.writable),
             '_attributes': sorted(self.attributes)}
        if not self.introspectable:
            # documented in girparser.c: a non-introspectable field keeps its slot but is typed gpointer
            e['type'] = {'tag': 'void', 'pointer': 1}
            e['has_embedded_type'] = 0
        elif self.callback is not None:
            e['has_embedded_type'] = 1
            cb = self.callback.expect()
            e['callback'] = {'name': cb['name'], 'signature': cb['signature']}
        else:
            e['has_embedded_type'] = 0
            e['type'] = self.type.expect(in_field=True) if isinstance(self.type, Arr) else self.type.expect()
        return e


class Prop(Attrs):
    def __init__(self, name, type, readable=True, writable=False, construct=False, construct_only=False,
                 transfer='none', setter=None, getter=None, deprecated=False, introspectable=True, attributes=()):
        self.name, self.type, self.readable, self.writable = name, type, readable, writable
        self.construct, self.construct_only, self.transfer = construct, construct_only, transfer
        self.setter, self.getter, self.deprecated, self.introspectable = setter, getter, deprecated, introspectable
        self.attributes = tuple(attributes)

    def xml(self):
        a = [('name', self.name), ('readable', None if self.readable else '0'), ('writable', flag(self.writable)),
             ('construct', flag(self.construct)), ('construct-only', flag(self.construct_only)),
             ('setter', self.setter), ('getter', self.getter), ('transfer-ownership', self.transfer),
             ('deprecated', flag(self.deprecated)), ('introspectable', None if self.introspectable else '0')]
        return '<property%s>%s%s</property>' % (attrs(a), self.attr_xml(), self.type.xml())

    def expect(self):
        return {'name': self.name, 'readable': int(self.readable), 'writable': int(self.writable),
                'construct': int(self.construct), 'construct_only': int(self.construct_only),
                'transfer_ownership': int(self.transfer == 'full'),
                'transfer_container_ownership': int(self.transfer == 'container'),
                'deprecated': int(self.deprecated), 'type': self.type.expect(),
                '_setter_name': self.setter, '_getter_name': self.getter, '_attributes': sorted(self.attributes)}


class ConstN(Attrs):
    tag = 'constant'

    def __init__(self, name, type, value, deprecated=False, introspectable=True, attributes=()):
        self.name, self.type, self.value, self.deprecated = name, type, value, deprecated
        self.introspectable = introspectable
        self.attributes = tuple(attributes)

    def xml(self):
        a = [('name', self.name), ('value', self.value), ('c:type', 'C_' + self.name),
             ('deprecated', flag(self.deprecated)), ('introspectable', None if self.introspectable else '0')]
        return '<constant%s>%s%s</constant>' % (attrs(a), self.attr_xml(), self.type.xml())

    def expect(self):
        t = self.type.expect()
        tag = t['tag']
        v = self.value
        if tag in ('utf8', 'filename'):
            ev = v
        elif tag == 'gboolean':
            ev = 1 if v == 'true' else 0
        elif tag in ('gfloat', 'gdouble'):
            ev = float(v)
        else:
            ev = int(v)
        return {'kind': 'constant', 'name': self.name, 'deprecated': int(self.deprecated), 'type': t, 'value': ev,
                '_attributes': sorted(self.attributes)}


class Member(object):
    def __init__(self, name, value, cident=None, deprecated=False):
        self.name, self.value, self.cident, self.deprecated = name, value, cident, deprecated

    def xml(self):
        return '<member%s/>' % attrs([('name', self.name), ('value', self.value),
                                      ('c:identifier', self.cident or ('C_' + self.name.upper())),
                                      ('deprecated', flag(self.deprecated))])


# ----------------------------------------------------------------- entries ---
class Entry(Attrs):
    introspectable = True
    deprecated = False

    def common(self):
        return [('deprecated', flag(self.deprecated)), ('introspectable', None if self.introspectable else '0')]


class EnumN(Entry):
    def __init__(self, name, members=(), flags=False, gtype=None, error_domain=None, functions=(), deprecated=False,
                 introspectable=True, attributes=()):
        self.name, self.members, self.flags, self.gtype = name, list(members), flags, gtype
        self.error_domain, self.functions = error_domain, list(functions)
        self.deprecated, self.introspectable = deprecated, introspectable
        self.attributes = tuple(attributes)

    def xml(self):
        tag = 'bitfield' if self.flags else 'enumeration'
        a = [('name', self.name), ('c:type', 'C' + self.name)]
        if self.gtype:
            a += [('glib:type-name', self.gtype[0]), ('glib:get-type', self.gtype[1])]
        a += [('glib:error-domain', self.error_domain)] + self.common()
        return '<%s%s>%s%s%s</%s>' % (tag, attrs(a), self.attr_xml(), ''.join(m.xml() for m in self.members),
                                      ''.join(f.xml() for f in self.functions), tag)

    def expect(self):
        vals = []
        for m in self.members:
            v = int(m.value)
            # ValueBlob.value is a gint32; values above G_MAXINT32 are stored with unsigned_value set
            stored = v - (1 << 32) if v >= (1 << 31) else v
            vals.append({'name': m.name, 'value': stored, 'deprecated': int(m.deprecated),
                         'unsigned_value': int(v >= 0 and v > 0x7fffffff) if v > 0x7fffffff else None})
        for x in vals:
            if x['unsigned_value'] is None:
                del x['unsigned_value']
        return {'kind': 'flags' if self.flags else 'enum', 'name': self.name, 'deprecated': int(self.deprecated),
                'gtype_name': self.gtype[0] if self.gtype else None,
                'gtype_init': self.gtype[1] if self.gtype else None,
                'error_domain': self.error_domain, 'values': vals,
                'methods': [f.expect() for f in self.functions if f.introspectable]}


class RecordN(Entry):
    def __init__(self, name, fields=(), methods=(), gtype=None, is_gtype_struct_for=None, foreign=False,
                 disguised=False, pointer=False, opaque=False, copy_func=None, free_func=None, union=False,
                 deprecated=False, introspectable=True, attributes=(), ctype=None):
        self.name, self.fields, self.methods, self.gtype = name, list(fields), list(methods), gtype
        self.is_gtype_struct_for, self.foreign, self.disguised = is_gtype_struct_for, foreign, disguised
        self.pointer, self.opaque, self.copy_func, self.free_func = pointer, opaque, copy_func, free_func
        self.union, self.deprecated, self.introspectable = union, deprecated, introspectable
        self.attributes = tuple(attributes)
        self.ctype = ctype or ('C' + name)

    def xml(self):
        tag = 'union' if self.union else 'record'
        a = [('name', self.name), ('c:type', self.ctype)]
        if self.gtype:
            a += [('glib:type-name', self.gtype[0]), ('glib:get-type', self.gtype[1])]
        if not self.union:
            a += [('glib:is-gtype-struct-for', self.is_gtype_struct_for), ('foreign', flag(self.foreign)),
                  ('disguised', flag(self.disguised)), ('pointer', flag(self.pointer)), ('opaque', flag(self.opaque))]
        a += [('copy-function', self.copy_func), ('free-function', self.free_func)] + self.common()
        return '<%s%s>%s%s%s</%s>' % (tag, attrs(a), self.attr_xml(), ''.join(f.xml() for f in self.fields),
                                      ''.join(m.xml() for m in self.methods), tag)

    def expect(self):
        e = {'kind': 'union' if self.union else ('boxed_or_struct'), 'name': self.name,
             'deprecated': int(self.deprecated),
             'gtype_name': self.gtype[0] if self.gtype else None, 'gtype_init': self.gtype[1] if self.gtype else None,
             'unregistered': int(not self.gtype),
             'copy_func': self.copy_func, 'free_func': self.free_func,
             'fields': [f.expect() for f in self.fields],
             'methods': [m.expect() for m in self.methods if m.introspectable]}
        if not self.union:
            e['is_gtype_struct'] = int(self.is_gtype_struct_for is not None)
            e['foreign'] = int(self.foreign)
        return e


class ClassN(Entry):
    def __init__(self, name, parent=None, gtype=None, type_struct=None, abstract=False, final=False,
                 fundamental=False, ref_func=None, unref_func=None, set_value_func=None, get_value_func=None,
                 implements=(), fields=(), properties=(), methods=(), signals=(), vfuncs=(), constants=(),
                 deprecated=False, introspectable=True, attributes=(), interface=False, prerequisites=()):
        self.name, self.parent, self.type_struct = name, parent, type_struct
        self.gtype = gtype or ('C' + name, 'c_%s_get_type' % name.lower())
        self.abstract, self.final, self.fundamental = abstract, final, fundamental
        self.ref_func, self.unref_func, self.set_value_func, self.get_value_func = ref_func, unref_func, set_value_func, get_value_func
        self.implements, self.fields, self.properties = list(implements), list(fields), list(properties)
        self.methods, self.signals, self.vfuncs, self.constants = list(methods), list(signals), list(vfuncs), list(constants)
        self.deprecated, self.introspectable = deprecated, introspectable
        self.attributes = tuple(attributes)
        self.interface, self.prerequisites = interface, list(prerequisites)

    def xml(self):
        tag = 'interface' if self.interface else 'class'
        a = [('name', self.name), ('c:type', 'C' + self.name), ('glib:type-name', self.gtype[0]),
             ('glib:get-type', self.gtype[1]), ('glib:type-struct', self.type_struct)]
        if not self.interface:
            a += [('parent', self.parent), ('abstract', flag(self.abstract)), ('final', flag(self.final)),
                  ('glib:fundamental', flag(self.fundamental)), ('glib:ref-func', self.ref_func),
                  ('glib:unref-func', self.unref_func), ('glib:set-value-func', self.set_value_func),
                  ('glib:get-value-func', self.get_value_func)]
        a += self.common()
        body = self.attr_xml()
        body += ''.join('<implements name="%s"/>' % i for i in self.implements)
        body += ''.join('<prerequisite name="%s"/>' % i for i in self.prerequisites)
        for group in (self.constants, self.methods, self.vfuncs, self.fields, self.properties, self.signals):
            body += ''.join(x.xml() for x in group)
        return '<%s%s>%s</%s>' % (tag, attrs(a), body, tag)

    def expect(self):
        e = {'kind': 'interface' if self.interface else 'object', 'name': self.name,
             'deprecated': int(self.deprecated), 'gtype_name': self.gtype[0], 'gtype_init': self.gtype[1],
             'gtype_struct': self.type_struct,
             'properties': [p.expect() for p in self.properties if p.introspectable],
             'methods': [m.expect() for m in self.methods if m.introspectable],
             'signals': [s.expect() for s in self.signals if s.introspectable],
             'vfuncs': [v.expect() for v in self.vfuncs if v.introspectable],
             'constants': [c.expect() for c in self.constants if c.introspectable]}
        if self.interface:
            e['prerequisites'] = list(self.prerequisites)
        else:
            e.update({'parent': self.parent, 'abstract': int(self.abstract), 'final_': int(self.final),
                      'fundamental': int(self.fundamental), 'ref_func': self.ref_func, 'unref_func': self.unref_func,
                      'set_value_func': self.set_value_func, 'get_value_func': self.get_value_func,
                      'interfaces': list(self.implements),
                      'fields': [f.expect() for f in self.fields]})
        return e


class AliasN(Entry):
    def __init__(self, name, target):
        self.name, self.target = name, target
        self.attributes = ()

    def xml(self):
        return '<alias name="%s" c:type="C%s">%s</alias>' % (self.name, self.name, self.target.xml())

    def expect(self):
        return None      # aliases are expanded by the compiler and have no directory entry


class Doc(object):
    def __init__(self, ns='Test', version='1.0', entries=(), includes=(), shared_library=None, c_prefix='Test',
                 symbol_prefix='test', packages=(), c_includes=()):
        self.ns, self.version, self.entries, self.includes = ns, version, list(entries), list(includes)
        self.shared_library, self.c_prefix, self.symbol_prefix = shared_library, c_prefix, symbol_prefix
        self.packages, self.c_includes = list(packages), list(c_includes)

    def xml(self):
        out = ['<?xml version="1.0"?>', '<repository version="1.2" %s>' % XMLNS]
        for n, v in self.includes:
            out.append('<include name="%s" version="%s"/>' % (n, v))
        for p in self.packages:
            out.append('<package name="%s"/>' % p)
        for c in self.c_includes:
            out.append('<c:include name="%s"/>' % c)
        a = [('name', self.ns), ('version', self.version), ('shared-library', self.shared_library),
             ('c:identifier-prefixes', self.c_prefix), ('c:symbol-prefixes', self.symbol_prefix)]
        out.append('<namespace%s>' % attrs(a))
        for e in self.entries:
            out.append(e.xml())
        out.append('</namespace>')
        out.append('</repository>')
        return '\n'.join(out) + '\n'

    def expect(self):
        ents = []
        for e in self.entries:
            if not e.introspectable:
                continue
            x = e.expect()
            if x is not None:
                x['_attributes'] = sorted(getattr(e, 'attributes', ()))
                ents.append(x)
        return {'namespace': self.ns, 'nsversion': self.version, 'shared_library': self.shared_library,
                'c_prefix': self.c_prefix,
                'dependencies': ['%s-%s' % (n, v) for n, v in self.includes],
                'entries': ents}


# ---------------------------------------------------------------- matching ---
NAMED_SETS = ('methods', 'properties', 'signals', 'vfuncs', 'constants')


_MODEL = [None]


def match(exp, got, path, out, ctx=None):
    """Every fact in `exp` must hold in `got` (decoded typelib model).  Keys absent from exp are
    UNSPECIFIED.  Appends human-readable differences to `out`."""
    if isinstance(exp, dict):
        if not isinstance(got, dict):
            out.append('%s: expected %r, decoded %r' % (path, _short(exp), _short(got)))
            return
        for k, v in exp.items():
            if k.startswith('_'):
                continue
            if k == 'kind' and v == 'boxed_or_struct':
                if got.get('kind') not in ('struct', 'boxed'):
                    out.append('%s.kind: expected struct, decoded %r' % (path, got.get('kind')))
                continue
            if k not in got:
                out.append('%s.%s: missing in decoded typelib (expected %r)' % (path, k, _short(v)))
                continue
            if k in NAMED_SETS:
                gmap = {}
                for g in got[k]:
                    gmap.setdefault(g.get('name'), []).append(g)
                enames = sorted(x['name'] for x in v)
                gnames = sorted(g.get('name') for g in got[k])
                if enames != gnames:
                    out.append('%s.%s: expected names %r, decoded %r' % (path, k, enames, gnames))
                    continue
                for x in v:
                    match(x, gmap[x['name']][0], '%s.%s[%s]' % (path, k, x['name']), out, got)
            elif k == 'interface' and isinstance(v, str) and '.' not in v and _MODEL[0] is not None \
                    and got[k] == '%s.%s' % (_MODEL[0].get('namespace'), v):
                # the compiler stores a local type reached through an <alias> as a by-name reference into the namespace
                # itself; it names the same entry (representation not fixed by the statement)
                continue
            else:
                match(v, got[k], '%s.%s' % (path, k), out, got)
        if '_attributes' in exp and _MODEL[0] is not None and '_offset' in got:
            have = sorted((a['name'], a['value']) for a in _MODEL[0]['attributes'] if a['offset'] == got['_offset'])
            want = sorted(tuple(x) for x in exp['_attributes'])
            # enum members carry their c:identifier as an attribute (documented in girparser.c); ignore it here
            have = [h for h in have if h[0] != 'c:identifier']
            if want != have:
                out.append('%s: attributes expected %r, decoded %r' % (path, want, have))
        # cross references by name -> index in the decoded method list
        if '_invoker_name' in exp and ctx is not None:
            _index_ref(exp['_invoker_name'], got.get('invoker'), ctx.get('methods', []), path + '.invoker', out)
        if '_setter_name' in exp and ctx is not None:
            _index_ref(exp['_setter_name'], got.get('setter'), ctx.get('methods', []), path + '.setter', out)
            _index_ref(exp['_getter_name'], got.get('getter'), ctx.get('methods', []), path + '.getter', out)
    elif isinstance(exp, list):
        if not isinstance(got, list) or len(exp) != len(got):
            out.append('%s: expected %d items %r, decoded %r' % (path, len(exp), _short(exp), _short(got)))
            return
        for i, (a, b) in enumerate(zip(exp, got)):
            name = a.get('name') if isinstance(a, dict) else None
            match(a, b, '%s[%s]' % (path, name if name is not None else i), out, ctx)
    elif isinstance(exp, float):
        if not isinstance(got, (int, float)) or abs(exp - got) > 1e-6 * max(1.0, abs(exp)):
            out.append('%s: expected %r, decoded %r' % (path, exp, got))
    else:
        if exp != got:
            out.append('%s: expected %r, decoded %r' % (path, exp, got))


def _index_ref(name, idx, methods, path, out):
    if name is None:
        if idx != 0x3ff:
            out.append('%s: expected no accessor (sentinel 0x3ff), decoded index %r' % (path, idx))
        return
    if idx is None or idx >= len(methods) or methods[idx].get('name') != name:
        got = methods[idx].get('name') if idx is not None and idx < len(methods) else None
        out.append('%s: expected index of method %r, decoded index %r (%r)' % (path, name, idx, got))


def _short(x):
    s = repr(x)
    return s if len(s) < 160 else s[:157] + '...'


def match_doc(doc, model, tl=None):
    """Compare a Doc's expectation with a decoded typelib model. -> list of differences"""
    return match_model(doc.expect(), model)


def match_model(exp, model):
    """Compare an expected model (dict with namespace/nsversion/.../entries) with a decoded one."""
    out = []
    _MODEL[0] = model
    for k in ('namespace', 'nsversion', 'shared_library', 'c_prefix'):
        if k in exp and exp[k] != model.get(k):
            out.append('header.%s: expected %r, decoded %r' % (k, exp[k], model.get(k)))
    if sorted(exp['dependencies']) != sorted(model.get('dependencies', [])):
        out.append('header.dependencies: expected %r, decoded %r' % (exp['dependencies'], model.get('dependencies')))
    local = [e for e in model['entries'] if e.get('local')]
    enames = [e['name'] for e in exp['entries']]
    gnames = [e.get('name') for e in local]
    if sorted(enames) != sorted(gnames):
        out.append('directory: expected local entries %r, decoded %r' % (sorted(enames), sorted(gnames)))
        return out
    if len(set(gnames)) != len(gnames):
        out.append('directory: duplicate local entry names %r' % gnames)
    gmap = {e['name']: e for e in local}
    for e in exp['entries']:
        g = gmap[e['name']]
        match(e, g, e['name'], out, g)
    # every attribute in the table must belong to a node we expected to carry it
    def count(x):
        if isinstance(x, dict):
            return len(x.get('_attributes', ())) + sum(count(v) for k, v in x.items() if k != '_attributes')
        if isinstance(x, list):
            return sum(count(v) for v in x)
        return 0
    want_n = count(exp['entries'])
    have_n = len([a for a in model['attributes'] if a['name'] != 'c:identifier'])
    if want_n != have_n:
        out.append('attributes: the GIR carries %d <attribute> elements on introspectable nodes, the typelib table has %d'
                   % (want_n, have_n))
    _MODEL[0] = None
    return out
