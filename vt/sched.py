"""E3: stateless schedule exploration of real code over a virtual file system.

Pieces (all generic; the C18 specifics live in vt/checks/c18.py):

  VFS          in-memory file system with a strictly increasing logical clock (every
               mutating call ticks; st_mtime = tick), inodes that survive unlink while
               open, two "mounts" (rename across mounts fails with EXDEV), an event log
               for monitors.
  OS/OPEN/...  proxy objects with the surface of `os`, `open`, `tempfile`, `shutil`,
               `glob`, `sys` that are bound INTO the module globals of the code under test
               from outside (install_into).  Each call that reads or writes mutable shared
               state is ONE atomic step and a scheduling point.
  Exec         one execution: actors = Python threads run under a baton-passing scheduler
               (exactly one runs at a time; an actor parks just BEFORE each VFS step with
               the step's label published; the thread holding the baton takes the next
               decision, so continuing the same actor costs no thread switch).  Choices:
               run actor X / kill actor X (offered right after each step of a killable X).
  Explorer     depth-first search over schedules; every execution re-runs the prefix from
               scratch on a fresh VFS (threads cannot be snapshotted; OS threads are pooled); preemption
               bounding; crash budget; state cache keyed on (canonical VFS contents and
               mtimes, per-actor observation history, monitor state).
  replay()     re-executes a recorded schedule; any divergence (actor not enabled, or a
               different pending step than recorded) raises HarnessBroken.

Invisible operations (no scheduling point, documented assumption): pure path functions,
environment lookups, reads of the per-process scanner installation (its files never
change during an execution), makedirs of a directory that already exists, close() (the
buffered data is flushed by explicit write steps before it), the EXDEV-failing rename
attempt and the isdir() probe inside shutil.move.
"""
import errno
import hashlib
import os as _os
import posixpath
import sys as _sys
import threading

from vt.core import HarnessBroken


def _new_baton():
    """A binary semaphore, initially taken: release() hands the baton, acquire() waits for it.
    (A raw lock hand-off costs ~10 us; threading.Semaphore costs ~1 ms under contention.)"""
    l = threading.Lock()
    l.acquire()
    return l


class _Worker(object):
    """A pooled OS thread.  Each execution runs its actors on fresh *activations* (the
    actor function starts from scratch on a fresh VFS); the OS threads themselves are
    reused because starting one costs more than a whole execution."""

    def __init__(self):
        self.go = _new_baton()
        self.job = None
        t = threading.Thread(target=self._loop, daemon=True)
        t.start()

    def _loop(self):
        while True:
            self.go.acquire()
            job, self.job = self.job, None
            job()
            _TL.actor = None
            _FREE.append(self)


_TL = threading.local()
_FREE = []
_POOL_PID = [None]


def _spawn(job):
    if _POOL_PID[0] != _os.getpid():      # forked: the parent's pooled threads do not exist here
        del _FREE[:]
        _POOL_PID[0] = _os.getpid()
    w = _FREE.pop() if _FREE else _Worker()
    w.job = job
    w.go.release()


class Crash(BaseException):
    """Raised inside an actor that has been killed: it never performs another step."""


class Abort(BaseException):
    """Raised inside every actor when the current execution is pruned."""


def _digest(b):
    return hashlib.blake2b(bytes(b), digest_size=8).hexdigest()


# ------------------------------------------------------------------ VFS -----
# The logical clock is sub-second: each mutating call advances it by TICK seconds and it
# starts off the integer grid, so several consecutive events share one whole second while
# staying strictly ordered (0.25 is exact in binary floating point).  st_mtime is a float,
# as os.stat/os.fstat report it; code that rounds it to whole seconds is thereby exposed.
TICK = 0.25


class Inode(object):
    __slots__ = ('ino', 'data', 'mtime', 'ctime', 'tag', '_h')

    def __init__(self, ino, data, mtime, tag=None, ctime=None):
        self.ino = ino
        self.data = bytearray(data)
        self.mtime = mtime
        self.ctime = mtime if ctime is None else ctime
        self.tag = tag
        self._h = None

    def touch(self, mtime, ctime=None):
        """Content or mtime change.  st_ctime (inode change time) is the moment of the change: the
        new mtime for writes, the current clock when the mtime is set to an arbitrary value."""
        self.mtime = mtime
        self.ctime = mtime if ctime is None else ctime
        self._h = None

    def changed(self, now):
        """Inode metadata change that leaves content and mtime alone (link count dropped by unlink or
        by being renamed over, rename of the inode itself, chmod): bumps st_ctime only."""
        self.ctime = now

    def digest(self):
        if self._h is None:
            self._h = _digest(self.data)
        return self._h


class Link(object):
    """A symbolic link: lstat() describes the link, stat()/open() what it points to."""
    __slots__ = ('target', 'mtime')

    def __init__(self, target, mtime):
        self.target = target
        self.mtime = mtime


class StatResult(object):
    def __init__(self, inode, dev):
        self.st_mtime = inode.mtime
        self.st_mtime = float(inode.mtime)
        self.st_mtime_ns = int(round(inode.mtime * 10 ** 9))
        self.st_atime = float(inode.mtime)
        self.st_atime_ns = self.st_mtime_ns
        self.st_ctime = float(inode.ctime)
        self.st_ctime_ns = int(round(inode.ctime * 10 ** 9))
        self.st_size = len(inode.data)
        self.st_ino = inode.ino
        self.st_dev = dev
        self.st_mode = 0o100644
        self.st_nlink = 1
        self.st_uid = self.st_gid = 0


class LinkStat(StatResult):
    def __init__(self, link, dev):
        StatResult.__init__(self, Inode(0, link.target.encode('utf-8'), link.mtime), dev)
        self.st_mode = 0o120777


class DirStat(StatResult):
    def __init__(self):
        self.st_mtime = self.st_atime = self.st_ctime = 1
        self.st_mtime_ns = self.st_atime_ns = self.st_ctime_ns = 10 ** 9
        self.st_size = 0
        self.st_ino = 0
        self.st_dev = 0
        self.st_mode = 0o040755
        self.st_nlink = 2
        self.st_uid = self.st_gid = 0


class VFS(object):
    def __init__(self, mounts=(), read_chunk=4096, aliases=None):
        self.files = {}          # path -> Inode
        self.links = {}          # path -> Link (symbolic links; only the final path component)
        self.dirs = set(['/'])
        self.clock = 1.125       # seconds; never integer-aligned, see TICK
        self.next_ino = 1
        self.fds = {}            # int -> Handle
        self.next_fd = 3
        self.mounts = list(mounts)      # [(prefix, fsid)], first match wins, default fsid 0
        self.read_chunk = read_chunk
        self.aliases = dict(aliases or {})
        self.events = []         # monitor log: (clock_before, actor, callid, op, path, ino, info)
        self.ex = None
        self.environ = {}
        self.install_files = {}  # install id -> {path: mtime}   (immutable per process)
        self.tagger = None       # callable(actor, path) -> tag for a newly created inode
        self.chunk_for = None    # optional callable(inode) -> read chunk size

    # -- helpers ------------------------------------------------------------
    def tick(self):
        self.clock += TICK
        return self.clock

    def fsid(self, path):
        for prefix, f in self.mounts:
            if path.startswith(prefix):
                return f
        return 0

    def alias(self, path):
        a = self.aliases.get(path)
        if a:
            return a
        return posixpath.basename(path) or path

    def resolve(self, path):
        n = 0
        while path in self.links:
            path = self.links[path].target
            n += 1
            if n > 8:
                raise OSError(errno.ELOOP, 'Too many levels of symbolic links', path)
        return path

    def mklink(self, path, target, mtime):
        """Setup helper (not a step)."""
        self.links[path] = Link(target, mtime)
        d = posixpath.dirname(path)
        while d and d not in self.dirs:
            self.dirs.add(d)
            d = posixpath.dirname(d)

    def mkfile(self, path, data, mtime, tag=None):
        """Setup helper (not a step)."""
        ino = Inode(self.next_ino, data, mtime, tag)
        self.next_ino += 1
        self.files[path] = ino
        d = posixpath.dirname(path)
        while d and d not in self.dirs:
            self.dirs.add(d)
            d = posixpath.dirname(d)
        return ino

    def new_inode(self, actor, path):
        tag = self.tagger(actor, path) if self.tagger else None
        ino = Inode(self.next_ino, b'', self.tick(), tag)
        self.next_ino += 1
        return ino

    def ev(self, actor, op, path, ino, info=None):
        self.events.append((self.clock, actor.name, actor.callid, op, path, ino, info))

    def enoent(self, path):
        return FileNotFoundError(errno.ENOENT, 'No such file or directory', path)

    def is_install_path(self, actor, path):
        return path in self.install_files.get(actor.install, ())

    def snapshot(self):
        """Human-readable contents: {path: (digest, mtime, size)}."""
        return dict((p, (i.digest(), i.mtime, len(i.data))) for p, i in self.files.items())

    # -- steps --------------------------------------------------------------
    def _begin(self, label):
        a = self.ex.step(label)
        return a

    def op_stat(self, path):
        a0 = self.ex.current()
        inst = self.install_files.get(a0.install, {})
        if path in inst:                          # immutable, per process: invisible
            i = Inode(0, b'', inst[path])
            return StatResult(i, 99)
        if path in self.dirs:
            return DirStat()
        a = self._begin('stat ' + self.alias(path))
        i = self.files.get(self.resolve(path))
        if i is None:
            a.obs.append(('stat', self.alias(path), 'ENOENT'))
            self.ev(a, 'stat', path, None)
            raise self.enoent(path)
        a.obs.append(('stat', self.alias(path), i.mtime, i.ctime, len(i.data)))
        self.ev(a, 'stat', path, i.ino, i.mtime)
        return StatResult(i, self.fsid(path))

    def op_lstat(self, path):
        l = self.links.get(path)
        if l is None:
            return self.op_stat(path)
        a = self._begin('lstat ' + self.alias(path))
        a.obs.append(('lstat', self.alias(path), l.mtime, l.target))
        self.ev(a, 'lstat', path, None, (l.mtime, 'symlink', l.target))
        return LinkStat(l, self.fsid(path))

    def op_chmod(self, path):
        a = self._begin('chmod ' + self.alias(path))
        i = self.files.get(self.resolve(path))
        if i is None:
            a.obs.append(('chmod', self.alias(path), 'ENOENT'))
            raise self.enoent(path)
        i.changed(self.tick())
        a.obs.append(('chmod', self.alias(path)))
        self.ev(a, 'chmod', path, i.ino)

    def op_fstat(self, fd):
        h = fd if isinstance(fd, Handle) else self.fds.get(fd)
        if h is None:
            raise OSError(errno.EBADF, 'Bad file descriptor')
        a = self._begin('fstat ' + self.alias(h.path))
        i = h.inode
        a.obs.append(('fstat', self.alias(h.path), i.mtime, i.ctime, len(i.data)))
        self.ev(a, 'fstat', h.path, i.ino, i.mtime)
        return StatResult(i, self.fsid(h.path))

    def exists(self, path):
        if path in self.dirs:
            return True
        try:
            self.op_stat(path)
            return True
        except OSError:
            return False

    def op_unlink(self, path):
        a = self._begin('unlink ' + self.alias(path))
        if path in self.links:
            del self.links[path]
            self.tick()
            a.obs.append(('unlink', self.alias(path), 'ok'))
            self.ev(a, 'unlink', path, None, 'symlink')
            return
        i = self.files.get(path)
        if i is None:
            a.obs.append(('unlink', self.alias(path), 'ENOENT'))
            self.ev(a, 'unlink', path, None)
            raise self.enoent(path)
        del self.files[path]
        i.changed(self.tick())              # link count dropped: st_ctime of the (maybe still open) inode
        a.obs.append(('unlink', self.alias(path), 'ok'))
        self.ev(a, 'unlink', path, i.ino)

    def op_listdir(self, d):
        d = d.rstrip('/') or '/'
        a = self._begin('listdir ' + self.alias(d))
        if d not in self.dirs:
            a.obs.append(('listdir', 'ENOENT'))
            raise self.enoent(d)
        names = sorted(posixpath.basename(p) for p in list(self.files) + list(self.links)
                       if posixpath.dirname(p) == d)
        a.obs.append(('listdir', tuple(self.alias(posixpath.join(d, n)) for n in names)))
        self.ev(a, 'listdir', d, None, tuple(names))
        return names

    def op_makedirs(self, path, exist_ok=False):
        path = path.rstrip('/') or '/'
        if path in self.dirs:
            if exist_ok:
                return                       # invisible
            raise FileExistsError(errno.EEXIST, 'File exists', path)
        a = self._begin('makedirs ' + self.alias(path))
        d = path
        while d and d not in self.dirs:
            self.dirs.add(d)
            d = posixpath.dirname(d)
        self.tick()
        a.obs.append(('makedirs', self.alias(path)))

    def op_rename(self, src, dst):
        if self.fsid(src) != self.fsid(dst):
            # fails without any effect: invisible
            raise OSError(errno.EXDEV, 'Invalid cross-device link', src)
        a = self._begin('rename %s -> %s' % (self.alias(src), self.alias(dst)))
        i = self.files.get(src)
        if i is None:
            a.obs.append(('rename', 'ENOENT'))
            raise self.enoent(src)
        old = self.files.get(dst)
        del self.files[src]
        self.links.pop(dst, None)
        self.files[dst] = i
        now = self.tick()
        i.changed(now)                      # rename updates st_ctime of the renamed inode ...
        if old is not None:
            old.changed(now)                # ... and of the inode renamed over (its link count drops)
        a.obs.append(('rename', self.alias(src), self.alias(dst), 'ok'))
        self.ev(a, 'rename', dst, i.ino, old.ino if old else None)

    def op_replace(self, path, data, tag=None):
        """Atomic installation of a new version of a file (prepared elsewhere, renamed
        into place): one step.  Returns the new inode."""
        a = self._begin('replace ' + self.alias(path))
        path = self.resolve(path) if path not in self.links else path
        old = self.files.get(path)
        i = self.new_inode(a, path)
        i.data[:] = data
        i.tag = tag
        i.touch(i.mtime)
        if old is not None:
            old.changed(i.mtime)
        self.links.pop(path, None)
        self.files[path] = i
        a.obs.append(('replace', self.alias(path)))
        self.ev(a, 'replace', path, i.ino, tag)
        return i

    def op_repoint(self, link, target, data, tag=None):
        """Atomically re-point a symbolic link to a file written at that moment (the new target carries
        the current time: sources with older mtimes are outside the model): one step."""
        a = self._begin('repoint %s -> %s' % (self.alias(link), self.alias(target)))
        i = self.new_inode(a, target)
        i.data[:] = data
        i.tag = tag
        i.touch(i.mtime)
        d = posixpath.dirname(target)
        while d and d not in self.dirs:
            self.dirs.add(d)
            d = posixpath.dirname(d)
        self.files[target] = i
        self.files.pop(link, None)
        self.links[link] = Link(target, i.mtime)
        a.obs.append(('repoint', self.alias(link), self.alias(target)))
        self.ev(a, 'repoint', link, i.ino, tag)
        return i

    def op_slurp(self, path):
        """open + read to EOF + close of a file whose inodes are immutable (replaced only
        atomically): one step."""
        a = self._begin('read-file ' + self.alias(path))
        i = self.files.get(self.resolve(path))
        if i is None:
            a.obs.append(('read-file', self.alias(path), 'ENOENT'))
            raise self.enoent(path)
        a.obs.append(('read-file', self.alias(path), i.digest()))
        self.ev(a, 'read-file', path, i.ino, i.tag)
        return bytes(i.data)

    def op_utime(self, path, mtime):
        a = self._begin('utime ' + self.alias(path))
        i = self.files.get(self.resolve(path))
        if i is None:
            a.obs.append(('utime', self.alias(path), 'ENOENT'))
            raise self.enoent(path)
        i.touch(mtime, self.tick())
        a.obs.append(('utime', self.alias(path), mtime))
        self.ev(a, 'utime', path, i.ino, mtime)

    def op_open(self, path, mode, encoding=None):
        rd = 'r' in mode and '+' not in mode
        a = self._begin('open %s %s' % (self.alias(path), 'r' if rd else 'w'))
        shown, path = path, self.resolve(path)
        if rd:
            i = self.files.get(path)
            if i is None:
                a.obs.append(('open', self.alias(path), 'ENOENT'))
                self.ev(a, 'open', path, None)
                raise self.enoent(path)
            a.obs.append(('open', self.alias(path), 'ok'))
            self.ev(a, 'open', path, i.ino, 'r')
            return self._handle(a, i, path, mode, encoding)
        if posixpath.dirname(path) not in self.dirs:
            a.obs.append(('open', self.alias(path), 'ENOENT'))
            raise self.enoent(path)
        i = self.files.get(path)
        if 'x' in mode and i is not None:
            raise FileExistsError(errno.EEXIST, 'File exists', path)
        if i is None:
            i = self.new_inode(a, path)
            self.files[path] = i
        elif 'a' not in mode:
            del i.data[:]
            i.touch(self.tick())
        a.obs.append(('open', self.alias(path), 'w'))
        self.ev(a, 'open', path, i.ino, 'w')
        h = self._handle(a, i, path, mode, encoding)
        if 'a' in mode:
            h.pos = len(i.data)
        return h

    def _handle(self, a, inode, path, mode, encoding):
        h = Handle(self, inode, path, mode, encoding, a)
        h.fd = self.next_fd
        self.next_fd += 1
        self.fds[h.fd] = h
        a.handles.append(h)
        return h

    def op_mkstemp(self, prefix, suffix='', dir=None):
        a = self.ex.current()
        d = dir or self.environ.get('TMPDIR', '/tmp')
        a.ntmp += 1
        # real names are random; a name derived from (process, counter) never collides
        # and does not depend on the interleaving
        path = posixpath.join(d, '%s%s%d%s' % (prefix, a.name, a.ntmp, suffix))
        a = self._begin('mkstemp ' + self.alias(path))
        i = self.new_inode(a, path)
        self.files[path] = i
        a.obs.append(('mkstemp', self.alias(path)))
        self.ev(a, 'mkstemp', path, i.ino)
        h = self._handle(a, i, path, 'wb', None)
        return h.fd, path

    def raw_read(self, h, n):
        a = self._begin('read ' + self.alias(h.path))
        i = h.inode
        d = bytes(i.data[h.pos:h.pos + n])
        self.ev(a, 'read', h.path, i.ino, (h.pos, len(d), i.mtime, i.tag))
        h.pos += len(d)
        a.obs.append(('read', self.alias(h.path), len(d), _digest(d)))
        return d

    def raw_write(self, h, d):
        a = self._begin('write ' + self.alias(h.path))
        i = h.inode
        if h.pos > len(i.data):
            i.data.extend(b'\0' * (h.pos - len(i.data)))
        i.data[h.pos:h.pos + len(d)] = d
        h.pos += len(d)
        i.touch(self.tick())
        a.obs.append(('write', self.alias(h.path), len(d)))
        self.ev(a, 'write', h.path, i.ino, len(d))

    # cross-filesystem move = copy2 + unlink, modelled after CPython's shutil
    def copy2(self, src, dst, nchunks=2):
        a = self._begin('copy-open %s -> %s' % (self.alias(src), self.alias(dst)))
        s = self.files.get(src)
        if s is None:
            a.obs.append(('copy-open', 'ENOENT'))
            raise self.enoent(src)
        if posixpath.dirname(dst) not in self.dirs:
            raise self.enoent(dst)
        i = self.files.get(dst)
        if i is None:
            i = self.new_inode(a, dst)
            # the copy carries the provenance of what is copied
            if s.tag is not None:
                i.tag = s.tag
            self.files[dst] = i
        else:
            del i.data[:]                 # O_TRUNC on the SAME inode
            i.touch(self.tick())
            if s.tag is not None:
                i.tag = s.tag
        a.obs.append(('copy-open', self.alias(src), self.alias(dst)))
        self.ev(a, 'copy-open', dst, i.ino, s.ino)
        pos = 0
        total = len(s.data)
        step = max(1, (total + nchunks - 1) // nchunks)
        while True:
            a = self._begin('copy-chunk -> ' + self.alias(dst))
            d = bytes(s.data[pos:pos + step])
            if d:
                if pos > len(i.data):
                    i.data.extend(b'\0' * (pos - len(i.data)))
                i.data[pos:pos + len(d)] = d
                i.touch(self.tick())
            pos += len(d)
            a.obs.append(('copy-chunk', len(d)))
            self.ev(a, 'copy-chunk', dst, i.ino, len(d))
            if pos >= len(s.data):
                break
        # copystat works on the PATH
        a = self._begin('copystat -> ' + self.alias(dst))
        j = self.files.get(dst)
        if j is None:
            a.obs.append(('copystat', 'ENOENT'))
            self.ev(a, 'copystat', dst, None)
            raise self.enoent(dst)
        j.touch(s.mtime, self.tick())
        a.obs.append(('copystat', s.mtime))
        self.ev(a, 'copystat', dst, j.ino, s.mtime)


class Handle(object):
    """User-space buffered file object over an inode (what open()/os.fdopen() return).
    Reads are served from a buffer refilled by raw reads of vfs.read_chunk bytes (one
    step each); writes are buffered and flushed as TWO partial raw writes (torn-write
    model).  Data still buffered when the owner is killed is lost, as for a process."""

    def __init__(self, vfs, inode, path, mode, encoding, owner):
        self.vfs = vfs
        self.inode = inode
        self.path = path
        self.mode = mode
        self.text = 'b' not in mode
        self.encoding = encoding or 'utf-8'
        self.owner = owner
        self.pos = 0
        self.rbuf = b''
        self.wbuf = bytearray()
        self.closed = False
        self.eof = False
        self.fd = None
        self.name = path

    # context manager / misc
    def __enter__(self):
        return self

    def __exit__(self, *exc):
        self.close()

    def fileno(self):
        return self.fd

    def readable(self):
        return 'r' in self.mode

    def writable(self):
        return 'r' not in self.mode or '+' in self.mode

    def reopen(self, mode, encoding=None):
        self.mode = mode
        self.text = 'b' not in mode
        if encoding:
            self.encoding = encoding
        return self

    def _chunk(self):
        if self.vfs.chunk_for is not None:
            return self.vfs.chunk_for(self.inode) or self.vfs.read_chunk
        return self.vfs.read_chunk

    def _fill(self):
        if self.eof:
            return False
        d = self.vfs.raw_read(self, self._chunk())
        if not d:
            self.eof = True
            return False
        self.rbuf += d
        return True

    def _read_bytes(self, n=-1):
        if n is None or n < 0:
            while self._fill():
                pass
            d, self.rbuf = self.rbuf, b''
            return d
        while len(self.rbuf) < n and self._fill():
            pass
        d, self.rbuf = self.rbuf[:n], self.rbuf[n:]
        return d

    def read(self, n=-1):
        d = self._read_bytes(n)
        return d.decode(self.encoding) if self.text else d

    def readinto(self, b):
        d = self._read_bytes(len(b))
        b[:len(d)] = d
        return len(d)

    def readline(self, limit=-1):
        while b'\n' not in self.rbuf and self._fill():
            pass
        k = self.rbuf.find(b'\n')
        k = len(self.rbuf) if k < 0 else k + 1
        d, self.rbuf = self.rbuf[:k], self.rbuf[k:]
        return d.decode(self.encoding) if self.text else d

    def write(self, d):
        if isinstance(d, str):
            d = d.encode(self.encoding)
        self.wbuf += bytes(d)
        return len(d)

    def flush(self):
        if not self.wbuf:
            return
        d = bytes(self.wbuf)
        del self.wbuf[:]
        if len(d) > 1:
            h = len(d) // 2
            self.vfs.raw_write(self, d[:h])
            self.vfs.raw_write(self, d[h:])
        else:
            self.vfs.raw_write(self, d)

    def close(self):
        if self.closed:
            return
        try:
            self.flush()
        finally:
            self.closed = True
            self.vfs.fds.pop(self.fd, None)


# -------------------------------------------------------------- proxies ----
CUR = [None]          # the execution whose VFS the proxies talk to


def _vfs():
    ex = CUR[0]
    if ex is None:
        raise HarnessBroken('virtual file system used outside an execution')
    return ex.vfs


class PathProxy(object):
    """os.path: pure functions pass through (posixpath), predicates go to the VFS."""

    def __getattr__(self, name):
        if name in ('join', 'dirname', 'basename', 'split', 'splitext', 'normpath', 'isabs', 'sep',
                    'commonprefix', 'commonpath', 'relpath', 'pathsep', 'curdir', 'pardir'):
            return getattr(posixpath, name)
        raise HarnessBroken('os.path.%s is not modelled by the virtual file system' % name)

    def abspath(self, p):
        return posixpath.normpath(p if p.startswith('/') else posixpath.join('/cwd', p))

    def realpath(self, p):
        return _vfs().resolve(self.abspath(p))

    def expanduser(self, p):
        home = _vfs().environ.get('HOME', '/home/u')
        if p == '~':
            return home
        if p.startswith('~/'):
            return home + p[1:]
        return p

    def exists(self, p):
        return _vfs().exists(p)

    lexists = exists

    def isfile(self, p):
        v = _vfs()
        return p not in v.dirs and v.exists(p)

    def isdir(self, p):
        return p in _vfs().dirs

    def islink(self, p):
        return p in _vfs().links

    def getmtime(self, p):
        return _vfs().op_stat(p).st_mtime

    def getsize(self, p):
        return _vfs().op_stat(p).st_size


_PURE_OS = ('sep', 'pathsep', 'linesep', 'name', 'curdir', 'pardir', 'devnull', 'fspath', 'fsencode',
            'fsdecode', 'strerror', 'error', 'PathLike', 'getpid', 'O_RDONLY', 'O_WRONLY', 'O_RDWR',
            'O_CREAT', 'O_EXCL', 'O_TRUNC', 'extsep', 'altsep', 'W_OK', 'R_OK', 'F_OK', 'X_OK')


class OsProxy(object):
    path = PathProxy()

    def __getattr__(self, name):
        if name in _PURE_OS:
            return getattr(_os, name)
        raise HarnessBroken('os.%s is not modelled by the virtual file system' % name)

    @property
    def environ(self):
        return _vfs().environ

    def getenv(self, k, default=None):
        return _vfs().environ.get(k, default)

    def getcwd(self):
        return '/cwd'

    def stat(self, path, **kw):
        if isinstance(path, int):
            return _vfs().op_fstat(path)
        if kw.get('follow_symlinks', True) is False:
            return _vfs().op_lstat(path)
        return _vfs().op_stat(path)

    def lstat(self, path, **kw):
        return _vfs().op_lstat(path)

    def readlink(self, path):
        l = _vfs().links.get(path)
        if l is None:
            raise OSError(errno.EINVAL, 'Invalid argument', path)
        return l.target

    def fstat(self, fd):
        return _vfs().op_fstat(fd)

    def unlink(self, path):
        return _vfs().op_unlink(path)

    remove = unlink

    def listdir(self, d='.'):
        return _vfs().op_listdir(d)

    def makedirs(self, path, mode=0o777, exist_ok=False):
        return _vfs().op_makedirs(path, exist_ok)

    def mkdir(self, path, mode=0o777):
        return _vfs().op_makedirs(path, False)

    def rename(self, src, dst):
        return _vfs().op_rename(src, dst)

    replace = rename

    def utime(self, path, times=None, ns=None, **kw):
        v = _vfs()
        if isinstance(path, int):
            path = v.fds[path].path
        if ns is not None:
            m = ns[1] / 1e9
        elif times is not None:
            m = times[1]
        else:
            m = v.clock + TICK
        return v.op_utime(path, m)

    def fdopen(self, fd, mode='r', buffering=-1, encoding=None, **kw):
        h = _vfs().fds.get(fd)
        if h is None:
            raise OSError(errno.EBADF, 'Bad file descriptor')
        return h.reopen(mode, encoding)

    def close(self, fd):
        h = _vfs().fds.get(fd)
        if h is None:
            raise OSError(errno.EBADF, 'Bad file descriptor')
        h.wbuf = bytearray()
        h.close()

    def access(self, path, mode):
        return _vfs().exists(path)

    def chmod(self, path, mode, **kw):
        return _vfs().op_chmod(path)

    def fsync(self, fd):
        return None


def vopen(path, mode='r', buffering=-1, encoding=None, errors=None, newline=None):
    if isinstance(path, int):
        return OS.fdopen(path, mode, encoding=encoding)
    return _vfs().op_open(path, mode, encoding)


class TempfileProxy(object):
    def mkstemp(self, suffix='', prefix='tmp', dir=None, text=False):
        return _vfs().op_mkstemp(prefix or 'tmp', suffix or '', dir)

    def gettempdir(self):
        return _vfs().environ.get('TMPDIR', '/tmp')

    def __getattr__(self, name):
        raise HarnessBroken('tempfile.%s is not modelled by the virtual file system' % name)


class ShutilProxy(object):
    """shutil.move / copy2 / copyfile / copystat following CPython's implementation."""

    def move(self, src, dst, copy_function=None):
        v = _vfs()
        real_dst = dst
        if dst in v.dirs:
            real_dst = posixpath.join(dst, posixpath.basename(src.rstrip('/')))
        try:
            v.op_rename(src, real_dst)
        except OSError:
            v.copy2(src, real_dst)
            v.op_unlink(src)
        return real_dst

    def copy2(self, src, dst, **kw):
        _vfs().copy2(src, dst)
        return dst

    copy = copy2

    def __getattr__(self, name):
        raise HarnessBroken('shutil.%s is not modelled by the virtual file system' % name)


class GlobProxy(object):
    def glob(self, pattern, **kw):
        import fnmatch
        v = _vfs()
        a = v.ex.current()
        inst = v.install_files.get(a.install, {})
        hits = [p for p in inst if fnmatch.fnmatchcase(p, pattern)]
        if hits or any(fnmatch.fnmatchcase(p, pattern) for f in v.install_files.values() for p in f):
            return sorted(hits)
        d = posixpath.dirname(pattern)
        return [posixpath.join(d, n) for n in v.op_listdir(d)
                if fnmatch.fnmatchcase(posixpath.join(d, n), pattern)]

    def __getattr__(self, name):
        raise HarnessBroken('glob.%s is not modelled by the virtual file system' % name)


class SysProxy(object):
    """`sys` as seen by the code under test: argv[0] is the virtual scanner executable."""

    @property
    def argv(self):
        v = _vfs()
        return [v.environ.get('_ARGV0', '/install/bin/g-ir-scanner')]

    def __getattr__(self, name):
        return getattr(_sys, name)


OS = OsProxy()
TEMPFILE = TempfileProxy()
SHUTIL = ShutilProxy()
GLOB = GlobProxy()
SYS = SysProxy()

PROXIES = {'os': OS, 'open': vopen, 'tempfile': TEMPFILE, 'shutil': SHUTIL, 'glob': GLOB, 'sys': SYS}


def install_into(module, names):
    """Rebind names in module globals to the VFS proxies (no source edit)."""
    for n in names:
        setattr(module, n, PROXIES[n])


# ------------------------------------------------------------ execution ----
class Actor(object):
    def __init__(self, name, fn=None, install='H1', crashable=False, after=()):
        self.name = name
        self.fn = fn
        self.install = install
        self.crashable = crashable
        self.after = tuple(after)
        self.status = 'new'        # new | ready | done | crashed
        self.pending = None
        self.obs = []
        self.handles = []
        self.ntmp = 0
        self.nsteps = 0
        self.callid = 0
        self.dead = None           # None | Crash | Abort
        self.unwound = False
        self.call_t0 = None        # clock when the first step of the current call executed
        self.sem = _new_baton()
        self.thread = None
        self.error = None
        self.solo = False


class Exec(object):
    """One execution of a set of actors over one VFS."""

    def __init__(self, vfs, monitor=None):
        self.vfs = vfs
        vfs.ex = self
        self.monitor = monitor          # object with .state_key() (oracle-relevant state)
        self.actors = []
        self.ctl = _new_baton()
        self.solo_actor = Actor('setup')
        self.solo_actor.solo = True
        self.concurrent = False
        self.trace = []                 # decisions: dict(options, chosen, cost, labels, key)
        self.oplog = []                 # executed (token, label)
        self.last = None
        self.preemptions = 0
        self.crashes = 0
        self.pruned = False
        self.phase = 'setup'
        self.aborting = False
        self.broken = None

    # -- called from proxies --------------------------------------------------
    def current(self):
        return getattr(_TL, 'actor', None) or self.solo_actor

    def step(self, label):
        """Scheduling point, called by every VFS operation BEFORE its effect.  The
        scheduling decision is taken by the thread that holds the baton; if it picks
        itself there is no thread switch at all."""
        a = self.current()
        if a.solo or not self.concurrent:
            a.nsteps += 1
            if a.call_t0 is None:
                a.call_t0 = self.vfs.clock
            return a
        if a.dead is not None:
            raise a.dead()
        a.pending = label
        if self.phase == 'init':
            self.ctl.release()
            a.sem.acquire()
        else:
            nxt = self._decide()
            if nxt is not a:
                self._pass(nxt)
                a.sem.acquire()
        if a.dead is not None:
            raise a.dead()
        a.nsteps += 1
        if a.call_t0 is None:
            a.call_t0 = self.vfs.clock
        return a

    def solo(self, name, install):
        """Switch the identity used for steps executed outside the concurrent phase."""
        a = Actor(name, install=install)
        a.solo = True
        self.solo_actor = a
        return a

    # -- set-up ---------------------------------------------------------------
    def add(self, actor):
        self.actors.append(actor)
        return actor

    def _body(self, a):
        _TL.actor = a
        a.sem.acquire()
        try:
            if a.dead is None:
                a.fn(self, a)
        except (Crash, Abort):
            pass
        except BaseException as e:          # actors must catch what the code under test raises
            a.error = e
        if a.status != 'crashed':
            a.status = 'done'
        a.pending = None
        if self.phase == 'init':
            self.ctl.release()
            return
        self._pass(None if self.aborting else self._decide())

    def _pass(self, nxt):
        """Hand the baton to nxt; with nxt None: to the next parked actor that still has
        to unwind (pruned execution), else back to the controller."""
        if nxt is None and self.aborting:
            me = self.current()
            for x in self.actors:
                if x.status == 'ready' and x is not me and not x.unwound:
                    x.unwound = True
                    nxt = x
                    break
        if nxt is None:
            self.ctl.release()
        else:
            nxt.sem.release()

    def _enabled(self):
        st = dict((a.name, a.status) for a in self.actors)
        return [a for a in self.actors if a.status == 'ready'
                and all(st[d] in ('done', 'crashed') for d in a.after)]

    def options(self, crash_budget):
        en = self._enabled()
        last = self.last if self.last in en else None
        order = ([last] if last else []) + [a for a in en if a is not last]
        opts = [(a.name, a) for a in order]
        if last is not None and last.crashable and self.crashes < crash_budget and last.nsteps > 0:
            opts.append(('!' + last.name, last))
        return opts, last

    def state_key(self):
        """Canonical (VFS contents+mtimes, per-actor observation history, monitor state)."""
        v = self.vfs
        canon = {}
        inodes = []

        def cid(i):
            k = canon.get(i.ino)
            if k is None:
                k = canon[i.ino] = len(canon)
                inodes.append((i.digest(), i.mtime, i.ctime, i.tag))
            return k
        fs = tuple((p, cid(v.files[p])) for p in sorted(v.files))
        if v.links:
            fs += tuple(('->', p, l.target, l.mtime) for p, l in sorted(v.links.items()))
        acts = []
        for a in self.actors:
            hs = tuple(cid(h.inode) for h in a.handles if not h.closed) if a.status == 'ready' else ()
            acts.append((a.status, a.pending, tuple(a.obs), hs))
        mon = self.monitor.state_key() if self.monitor is not None else None
        last = self.last.name if (self.last is not None and self.last.status == 'ready') else None
        return (fs, tuple(inodes), tuple(acts), mon, last, self.crashes)

    # -- the scheduler --------------------------------------------------------
    def run(self, forced=(), bound=None, crash_budget=0, cache=None, on_state=None):
        """forced: list of (token, expected_label or None).  After the forced prefix the
        default policy continues the running actor (no preemption).  cache: dict
        state_key -> remaining preemption budget already explored (pruning)."""
        CUR[0] = self
        self._forced = list(forced)
        self._bound, self._crash_budget, self._cache, self._on_state = bound, crash_budget, cache, on_state
        self._i = 0
        self.aborting = False
        self.broken = None
        self.concurrent = True
        self.phase = 'init'
        for a in self.actors:
            a.status = 'ready'
            a.unwound = False
            _spawn(lambda a=a: self._body(a))
        for a in self.actors:               # run each actor up to its first step
            a.sem.release()
            self.ctl.acquire()
        self.phase = 'run'
        nxt = self._decide()
        if nxt is not None or self.aborting:
            self._pass(nxt)
            self.ctl.acquire()              # until the execution is over
        self.concurrent = False
        if self.broken:
            raise HarnessBroken(self.broken)
        return self

    def _abort_all(self, me):
        self.aborting = True
        for x in self.actors:
            if x.status == 'ready':
                x.dead = Abort
        return me

    def _decide(self):
        """One scheduling decision, executed by whoever holds the baton (an actor that
        is about to perform a step or has just finished, or the controller at the
        start).  Returns the actor to run next (possibly the caller) or None."""
        me = getattr(_TL, 'actor', None)
        me = me if (me is not None and me.status == 'ready') else None
        opts, last = self.options(self._crash_budget)
        if not opts:
            return None
        tokens = [t for t, _ in opts]
        i = self._i
        if i < len(self._forced):
            tok, want = self._forced[i]
            if tok not in tokens:
                self.broken = 'replay divergence at step %d: %r not among %r' % (i, tok, tokens)
                return self._abort_all(me)
            c = tokens.index(tok)
            a = opts[c][1]
            if want is not None and a.pending != want:
                self.broken = ('replay divergence at step %d: %s pending %r, recorded %r'
                               % (i, tok, a.pending, want))
                return self._abort_all(me)
        else:
            c = 0
            if self._cache is not None or self._on_state is not None:
                key = self.state_key()
                if self._on_state is not None:
                    self._on_state(key)
                if self._cache is not None:
                    remaining = (self._bound - self.preemptions) if self._bound is not None else 0
                    seen = self._cache.get(key)
                    if seen is not None and seen >= remaining:
                        self.pruned = True
                        return self._abort_all(me)
                    self._cache[key] = remaining
        tok, a = opts[c]
        self.trace.append({'options': tokens, 'chosen': c, 'preempt': last is not None,
                           'cost': self.preemptions, 'crashes': self.crashes,
                           'label': a.pending, 'labels': [x.pending for _, x in opts]})
        self.oplog.append((tok, a.pending))
        self._i = i + 1
        if tok.startswith('!'):
            # only the actor that has just parked can be killed: it is the caller
            if a is not me:
                self.broken = 'kill of %s decided by another thread' % a.name
                return self._abort_all(me)
            self.crashes += 1
            a.status = 'crashed'
            a.dead = Crash                 # unwinds without performing any step, then passes on
            return a
        if last is not None and a is not last:
            self.preemptions += 1
        self.last = a
        return a

    def schedule(self):
        return [[t, l] for t, l in self.oplog]

    def obs_log(self):
        return [(a.name, a.status, list(a.obs)) for a in self.actors]


# ------------------------------------------------------------ exploration --
class Explorer(object):
    """Depth-first exploration of all schedules of factory()'s actors with at most
    `bound` preemptions and at most `crash_budget` kills."""

    def __init__(self, factory, bound, crash_budget=0, on_complete=None, use_cache=True,
                 max_executions=None, root=()):
        self.factory = factory
        self.bound = bound
        self.crash_budget = crash_budget
        self.on_complete = on_complete
        self.cache = {} if use_cache else None
        self.max_executions = max_executions
        self.root = [tuple(x) for x in root]
        self.executions = 0          # complete executions (checked by the oracle)
        self.pruned = 0              # executions cut by the state cache
        self.steps_new = 0           # scheduling steps executed beyond the replayed prefix
        self.steps_total = 0         # including prefix replays
        self.sched_points = 0        # decisions with more than one admissible option
        self.states = set()
        self.end_states = set()
        self.capped = False
        self.last_complete = None    # schedule of the most recent complete execution

    def _on_state(self, key):
        self.states.add(hash(key))

    def run(self):
        stack = [list(self.root)]
        while stack:
            prefix = stack.pop()
            if self.max_executions is not None and self.executions + self.pruned >= self.max_executions:
                self.capped = True
                break
            ex = self.factory()
            ex.run(prefix, self.bound, self.crash_budget, self.cache, self._on_state)
            n = len(ex.trace)
            self.steps_total += n
            self.steps_new += max(0, n - len(prefix))
            if ex.pruned:
                self.pruned += 1
            else:
                self.executions += 1
                self.last_complete = ex.schedule()
                if self.on_complete is not None:
                    self.on_complete(ex, self)
            # children: alternatives at every decision after the prefix
            base = [(t, l) for t, l in ex.oplog]
            kids = []
            for i in range(len(prefix), n):
                d = ex.trace[i]
                admissible = 0
                for alt, tok in enumerate(d['options']):
                    if alt == d['chosen']:
                        admissible += 1
                        continue
                    if tok.startswith('!'):
                        if d['crashes'] >= self.crash_budget:
                            continue
                        cost = d['cost']
                    else:
                        cost = d['cost'] + (1 if d['preempt'] else 0)
                    if cost > self.bound:
                        continue
                    admissible += 1
                    kids.append(base[:i] + [(tok, d['labels'][alt])])
                if admissible > 1:
                    self.sched_points += 1
            # depth-first, leftmost (earliest deviation) explored last so that deeper
            # alternatives of the current path are exhausted first
            stack.extend(kids)
        return self


def replay(factory, schedule, crash_budget=1):
    """Re-execute a recorded schedule [[token, label], ...] exactly; divergence is a
    HarnessBroken.  Returns the finished Exec."""
    ex = factory()
    ex.run([(t, l) for t, l in schedule], None, crash_budget, None, None)
    if len(ex.oplog) != len(schedule):
        raise HarnessBroken('replay divergence: recorded %d steps, executed %d' % (len(schedule), len(ex.oplog)))
    return ex
