"""C02 reference model: documented defaults for un-annotated declarations.

Written from
  * the property statement (properties.jsonl, C02),
  * docs/website/annotations/giannotations.rst: "Default Annotations", "Default Basic
    Types", "Nullable parameters", "Support for GObject closures", "Scope types",
  * the C standard's list of synonymous type-specifier sets (6.7.2) and GLib's documented
    correspondences for its own aliases (gint = int, guchar = unsigned char = 8 bit,
    gsize = size_t, goffset = gint64, gunichar2 = guint16, ...),
and calibrated against upstream's expected scanner outputs (tests/scanner/*-expected.gir,
see c02_calib.py).  It never imports giscanner.

The oracle is three-valued: every expectation is either a concrete value (MUST), the
marker ABSENT (MUST-NOT be present / must be the neutral value) or None (UNSPECIFIED).
"""
import re

ABSENT = '<absent>'

# --------------------------------------------------------------------------------------
# 1. spelling -> canonical introspection type name
#
# src: S = named in the property statement, D = "Default Basic Types" in giannotations.rst
#      G = GLib alias with a documented fixed meaning, C = C-standard synonym of an S/D/G entry,
#      X = platform typedef whose GI name is its own name in upstream's expected GIRs
#      U = no documented target: name UNSPECIFIED (c:type still has to be kept)
# kind: 'int' integer-like (valid in bit-field and constant position), 'flt', 'chr' (char
#       family: one pointer level makes a string), 'ptr' untyped pointer typedef, 'oth'
BASIC = {}


def _add(kind, src, name, *spellings):
    for s in spellings:
        assert s not in BASIC, s
        BASIC[s] = (name, kind, src)


# statement: "int to gint"; doc: gint*/guint*/glong/gulong/gfloat/gdouble/gboolean
_add('int', 'S', 'gint', 'int', 'signed int', 'signed')
_add('int', 'C', 'guint', 'unsigned int', 'unsigned')
_add('int', 'C', 'gshort', 'short', 'signed short')
_add('int', 'C', 'gushort', 'unsigned short', 'unsigned short int')
_add('int', 'D', 'glong', 'long', 'signed long')
_add('int', 'D', 'gulong', 'unsigned long', 'unsigned long int')
_add('chr', 'C', 'gchar', 'char')
_add('int', 'C', 'gint8', 'signed char')
_add('int', 'C', 'guint8', 'unsigned char')
_add('flt', 'D', 'gfloat', 'float')
_add('flt', 'D', 'gdouble', 'double')
_add('int', 'S', 'gboolean', '_Bool', 'bool')
# C-standard synonyms for which neither the statement nor the documentation names the
# target and upstream's expectations contain no instance: executed, name UNSPECIFIED
_add('int', 'U', None, 'short int', 'signed short int', 'long int', 'signed long int',
     'long long int', 'signed long long int', 'unsigned long long int')
_add('int', 'U', None, 'long long', 'signed long long', 'unsigned long long')
_add('flt', 'U', None, 'long double')
# statement: "stdint ... to their fixed-width types"
for _w in (8, 16, 32, 64):
    _add('int', 'S', 'gint%d' % _w, 'int%d_t' % _w)
    _add('int', 'S', 'guint%d' % _w, 'uint%d_t' % _w)
    # statement: "GLib aliases to their fixed-width types"; doc: gint[8,16,32,64]
    _add('int', 'D', 'gint%d' % _w, 'gint%d' % _w)
    _add('int', 'D', 'guint%d' % _w, 'guint%d' % _w)
_add('int', 'G', 'gsize', 'size_t', 'gsize')
_add('int', 'G', 'gssize', 'ssize_t', 'gssize')
_add('int', 'G', 'gintptr', 'intptr_t', 'gintptr')
_add('int', 'G', 'guintptr', 'uintptr_t', 'guintptr')
_add('int', 'D', 'gboolean', 'gboolean')
_add('chr', 'G', 'gchar', 'gchar')
_add('int', 'G', 'guint8', 'guchar')
_add('int', 'G', 'gshort', 'gshort')
_add('int', 'G', 'gushort', 'gushort')
_add('int', 'G', 'gint', 'gint')
_add('int', 'G', 'guint', 'guint')
_add('int', 'D', 'glong', 'glong')
_add('int', 'D', 'gulong', 'gulong')
_add('flt', 'D', 'gfloat', 'gfloat')
_add('flt', 'D', 'gdouble', 'gdouble')
_add('int', 'G', 'gint64', 'goffset')
_add('int', 'G', 'gunichar', 'gunichar')
_add('int', 'G', 'guint16', 'gunichar2')
_add('int', 'D', 'GType', 'GType')
_add('int', 'X', 'gint', 'grefcount', 'gatomicrefcount')
_add('int', 'X', 'time_t', 'time_t')
_add('int', 'X', 'off_t', 'off_t')
_add('int', 'X', 'pid_t', 'pid_t')
_add('int', 'X', 'uid_t', 'uid_t')
_add('int', 'X', 'gid_t', 'gid_t')
_add('int', 'X', 'dev_t', 'dev_t')
_add('int', 'X', 'socklen_t', 'socklen_t')
_add('oth', 'X', 'va_list', 'va_list')
# doc: "gpointer: pointer to anything"
_add('ptr', 'D', 'gpointer', 'gpointer', 'gconstpointer')

# local declarations of the fixed prelude (namespace Foo, prefix Foo/foo): the canonical
# name of a type of the namespace being scanned is its name without the identifier prefix
LOCAL = {
    'FooRec': ('Rec', 'record'), 'FooOpq': ('Opq', 'record'), 'FooUni': ('Uni', 'union'),
    'FooEn': ('En', 'enum'), 'FooFl': ('Fl', 'flags'), 'FooCb': ('Cb', 'callback'),
    'FooInt': ('Int', 'alias-int'), 'FooStr': ('Str', 'alias-str'),
    # typedef aliases of the local record / union: typedef FooRec FooRecAlias; typedef FooUni FooUniAlias;
    'FooRecAlias': ('RecAlias', 'alias-record'), 'FooUniAlias': ('UniAlias', 'alias-union'),
    # local typedefs OF const-qualified pointer types: typedef const char *FooName; etc.
    'FooName': ('Name', 'alias-constptr'), 'FooGName': ('GName', 'alias-constptr'),
    'FooConstRec': ('ConstRec', 'alias-constptr'), 'FooBytes': ('Bytes', 'alias-constptr'),
}
CONSTPTR_TARGETS = {'FooName': 'const char *', 'FooGName': 'const gchar *', 'FooConstRec': 'const FooRec *',
                    'FooBytes': 'const guint8 *'}
# typedefs of the (miniature) dependency namespaces: Namespace.Name
FOREIGN = {
    'GObject': ('GObject.Object', 'class'), 'GCancellable': ('Gio.Cancellable', 'class'),
    'GAsyncResult': ('Gio.AsyncResult', 'interface'),
    'GVariant': ('GLib.Variant', 'record'), 'GValue': ('GObject.Value', 'record'),
    'GError': ('GLib.Error', 'record'), 'GBytes': ('GLib.Bytes', 'record'),
    'GClosure': ('GObject.Closure', 'record'),
    'GQuark': ('GLib.Quark', 'alias-int'), 'GSeekType': ('GLib.SeekType', 'enum'),
    'GParamFlags': ('GObject.ParamFlags', 'flags'),
    'GFunc': ('GLib.Func', 'callback'), 'GCallback': ('GObject.Callback', 'callback'),
    'GDestroyNotify': ('GLib.DestroyNotify', 'callback'),
    'GAsyncReadyCallback': ('Gio.AsyncReadyCallback', 'callback'),
}
CONTAINER = {
    'GList': 'GLib.List', 'GSList': 'GLib.SList', 'GHashTable': 'GLib.HashTable',
    'GArray': 'GLib.Array', 'GPtrArray': 'GLib.PtrArray', 'GByteArray': 'GLib.ByteArray',
}
UNKNOWN = {'XUnknown': (None, 'unknown')}     # typedef of no known namespace
SPECIAL = {'void': None, 'GStrv': None}


def base_info(base):
    """-> (gi name or None, kind)"""
    if base in BASIC:
        n, k, src = BASIC[base]
        return n, k
    if base in LOCAL:
        return LOCAL[base]
    if base in FOREIGN:
        return FOREIGN[base]
    if base in CONTAINER:
        return CONTAINER[base], 'container'
    if base in UNKNOWN:
        return UNKNOWN[base]
    if base == 'void':
        return 'none', 'void'
    if base == 'GStrv':
        return None, 'strv'
    raise KeyError(base)


# --------------------------------------------------------------------------------------
# 2. spellings
class Sp(object):
    """A type spelling: base words, const on the base, const per pointer level (inner first)."""
    __slots__ = ('base', 'bq', 'ptr')

    def __init__(self, base, bq=False, ptr=()):
        self.base, self.bq, self.ptr = base, bool(bq), tuple(bool(x) for x in ptr)

    @property
    def depth(self):
        return len(self.ptr)

    def c(self):
        s = ('const ' if self.bq else '') + self.base
        for i, q in enumerate(self.ptr):
            s += ' *' if i == 0 else '*'
            if q:
                s += ' const'
                if i + 1 < len(self.ptr):
                    s += ' '
        return s

    def key(self):
        return self.c()

    def to_json(self):
        return {'base': self.base, 'bq': self.bq, 'ptr': list(self.ptr)}

    @staticmethod
    def from_json(d):
        return Sp(d['base'], d['bq'], d['ptr'])

    def pointee_const(self):
        """const-ness of what the outermost pointer points to (None if not a pointer)"""
        if not self.ptr:
            return None
        if len(self.ptr) == 1:
            return self.bq
        return self.ptr[-2]


_TOK = re.compile(r'[A-Za-z_0-9]+|\*')


def ctokens(s):
    return _TOK.findall(s or '')


def expected_ctype(sp):
    """Statement: "with the original C spelling kept as c:type".  Compared token-wise
    (white space is not part of a spelling)."""
    return ctokens(sp.c())


# --------------------------------------------------------------------------------------
# 3. type element expectation
def type_expect(sp, position):
    """position: 'param' | 'ret' | 'field' | 'elem' (element of a fixed field array) | 'const'
    -> dict(tag=..., name=..., ctype=tokens, elem_name=...) each value MUST or None."""
    name, kind = base_info(sp.base)
    d = sp.depth
    exp = {'tag': None, 'name': None, 'ctype': expected_ctype(sp), 'elem_name': None, 'has_name': None}
    if kind == 'void':
        if d == 0:
            exp.update(tag='type', name='none')
        else:
            # doc: "gpointer: pointer to anything"; void** is a pointer to a gpointer
            exp.update(tag='type', name='gpointer')
        return exp
    if kind == 'chr' and d >= 1:
        # statement: "char* to utf8"; "a returned char** to an array of utf8"
        if d == 2 and position == 'ret':
            exp.update(tag='array', name=ABSENT, elem_name='utf8')
        else:
            exp.update(tag='type', name='utf8')
        return exp
    if kind == 'strv':
        # GStrv is GLib's alias for a NULL-terminated array of strings (statement: "GLib
        # aliases to their ... types"); upstream's expected Regress GIR shows GStrv-typed
        # parameters (signals sig-with-strv*) as <array><type name="utf8"/></array>, i.e. the
        # mapping is not restricted to return values.  A GStrv left unresolved is no
        # canonical introspection type.  Pointers to GStrv and GStrv as the element of a
        # fixed array field: not fixed.
        if d == 0 and position in ('ret', 'param', 'field'):
            exp.update(tag='array', name=ABSENT, elem_name='utf8')
        return exp
    if kind == 'container':
        exp.update(name=name)          # tag: <type> for lists/maps, <array> for GLib arrays
        return exp
    if kind == 'unknown':
        return exp
    if sp.base in ('_Bool', 'bool') and d >= 1:
        # statement: "_Bool to gboolean" is about the value type.  A pointer to a (1 byte)
        # _Bool is not a pointer to a (4 byte) gboolean, so no documented target exists
        # for it: UNSPECIFIED (the c:type still has to be kept)
        return exp
    # every other spelling: the pointer levels do not change the named type
    exp.update(tag='type', name=name)
    return exp


# --------------------------------------------------------------------------------------
# 4. defaults for ownership and nullability
def is_untyped_pointer(sp):
    """doc "Nullable parameters": gpointer parameters and return types are nullable;
    statement: "untyped pointers are nullable"."""
    name, kind = base_info(sp.base)
    return (kind == 'ptr' and sp.depth == 0) or (kind == 'void' and sp.depth == 1)


def nullable_expect(sp, position):
    """-> '1' (MUST), ABSENT (MUST NOT), None (UNSPECIFIED); parameters and returns only"""
    name, kind = base_info(sp.base)
    if is_untyped_pointer(sp):
        return '1'
    if (kind == 'ptr' and sp.depth >= 1) or (kind == 'void' and sp.depth >= 2):
        return None            # pointer to an untyped pointer: not fixed
    if kind == 'callback' or name in ('Gio.Cancellable',):
        return None            # implementation convention for async callbacks / cancellables, undocumented
    if kind == 'unknown':
        return None
    # the documentation lists the automatically nullable things exhaustively
    # ("Conventionally, the following are automatically nullable")
    return ABSENT


def bare_out_caller_allocates(sp):
    """doc (giannotations.rst, out-parameter examples): "the (out) annotation automatically infers
    [caller-allocates] from the fact that there's only a single indirection on a structure
    parameter"; a double indirection is callee-allocated.  A union is an aggregate the caller
    provides storage for in exactly the same way, and a typedef alias of either is the same type
    (calibrated on the unchanged tree).  Opaque records and every other kind: UNSPECIFIED.
    -> '1' | '0' | None"""
    name, kind = base_info(sp.base)
    if kind in ('record', 'union', 'alias-record', 'alias-union') and sp.base in LOCAL and sp.base != 'FooOpq':
        if sp.depth == 1:
            return '1'
        if sp.depth == 2:
            return '0'
    return None


def transfer_param(direction, caller_allocates):
    """doc "Default Annotations": (in) -> none; (inout)/(out) -> full, caller allocates -> none"""
    if direction in (None, 'in'):
        return 'none'
    if caller_allocates:
        return 'none'
    return 'full'


def transfer_return(sp):
    """statement: "returned const values and basic types are not transferred while returned
    non-const strings are"; everything else (records, objects, containers, enum values,
    pointers to basic values, string arrays) is not fixed."""
    name, kind = base_info(sp.base)
    d = sp.depth
    if kind == 'void' and d == 0:
        return 'none'
    if d >= 1 and sp.pointee_const():
        return 'none'                       # returned const value
    if kind == 'alias-constptr' and d == 0:
        return 'none'                       # typedef of a pointer to const: still a returned const value
    if d == 0:
        if kind in ('int', 'flt', 'ptr', 'alias-int') and (name is not None or kind == 'alias-int'):
            return 'none'                   # basic type (doc lists gpointer among the basic types)
        if kind == 'chr':
            return 'none'
        return None
    if kind == 'void' and d == 1:
        return 'none'                       # gpointer
    if kind == 'chr' and d == 1:
        return 'full'                       # non-const string
    return None


# --------------------------------------------------------------------------------------
# 5. callback / user data / destroy notify / error arrangements
#
# roles: C callback (local typedef), A GAsyncReadyCallback, U gpointer whose name is the
# user-data name under test, D GDestroyNotify, O ordinary parameter (int), E GError**
def arrangement_expect(roles, unames, plain_u=None):
    """roles: list of role letters; unames: parameter name per position (for U);
    plain_u: per position, False when the user-data slot is spelled through a typedef of
    gpointer (the statement speaks of "a user_data pointer"; whether a typedef'd pointer
    counts is not fixed, so closure is UNSPECIFIED then).  Callback and destroy-notify
    slots spelled through local typedefs of the callback / GDestroyNotify /
    GAsyncReadyCallback types keep their role (quantifier: "typedef'd ... type spelling").
    Returns dict:
       throws: '1' | ABSENT | None
       kept:   list of indices of `roles` that MUST appear as parameters, in order (or None)
       per callback index (into kept order): closure / destroy / scope expectations
    """
    n = len(roles)
    out = {'throws': None, 'kept': None, 'cb': {}}
    if n and roles[-1] == 'E':
        if n >= 2 and roles[-2] == 'E':
            # two trailing error parameters: statement speaks of "a trailing GError**"
            out['throws'] = '1'
            out['kept'] = None
            eff = list(range(n - 1))
        else:
            out['throws'] = '1'
            eff = list(range(n - 1))
            out['kept'] = eff
    else:
        out['throws'] = ABSENT
        eff = list(range(n))
        out['kept'] = eff
    L = [roles[i] for i in eff]
    for i, r in enumerate(L):
        if r not in 'CA':
            continue
        e = {'closure': None, 'destroy': None, 'scope': None}
        j = i + 1
        run = []
        while j < len(L) and L[j] in 'UD':
            run.append(j)
            j += 1
        us = [k for k in run if L[k] == 'U']
        ds = [k for k in run if L[k] == 'D']
        later_ptr = [k for k in range(i + 1, len(L)) if L[k] == 'U']
        later_d = [k for k in range(i + 1, len(L)) if L[k] == 'D']
        # closure
        if len(us) == 1 and unames[eff[us[0]]] == 'user_data' and len(later_ptr) == 1 \
                and (plain_u is None or plain_u[eff[us[0]]]):
            e['closure'] = str(us[0])                    # "a user_data pointer following a callback"
        elif not later_ptr:
            e['closure'] = ABSENT                        # nothing that could be user data follows
        # destroy
        if len(ds) == 1 and len(later_d) == 1:
            e['destroy'] = str(ds[0])                    # "a destroy-notify following it"
        elif not later_d:
            e['destroy'] = ABSENT
        # scope
        if e['destroy'] not in (None, ABSENT):
            e['scope'] = None if r == 'A' else 'notified'   # async + destroy: two rules collide
        elif r == 'A':
            e['scope'] = 'async' if not later_d else None    # "an async-ready callback gets async scope"
        elif not later_d:
            e['scope'] = 'call-or-absent'                 # doc: call is the default scope
        out['cb'][i] = e
    return out


# local typedefs of the role types (alias depth 1 and 2): (C spelling, GI name, declaration target)
ROLE_ALIASES = {
    ('C', 'K'): ('FooCbAlias', 'CbAlias'), ('A', 'K'): ('FooReadyCb', 'ReadyCb'),
    ('D', 'D1'): ('FooFreeFunc', 'FreeFunc'), ('D', 'D2'): ('FooFreeFunc2', 'FreeFunc2'),
    ('U', 'U'): ('FooPtr', 'Ptr'),
}
ALIAS_TARGETS = [('FooCbAlias', 'FooCb'), ('FooReadyCb', 'GAsyncReadyCallback'), ('FooFreeFunc', 'GDestroyNotify'),
                 ('FooFreeFunc2', 'FooFreeFunc'), ('FooPtr', 'gpointer')]

def own_user_data_closure(host, role, name, plain):
    """A callback type's own user-data parameter.  doc ("Support for GObject closures"):
    "(closure) ... is placed on a callback typedef's user data argument"; without annotation,
    upstream's expected GIRs mark every gpointer parameter named user_data of a <callback>
    (typedef or function-pointer field) with closure=<its own index> (calibrated, 4 of 4).
    The rule is by name, so it does not depend on the position or on a trailing GError**
    (the index is the one in the emitted parameter list).  -> True (MUST own index) / None"""
    if host in ('cb', 'vfunc') and role == 'U' and name == 'user_data' and plain:
        return True
    return None


ROLE_TYPES = {
    'C': ('FooCb', 'Cb'), 'A': ('GAsyncReadyCallback', 'Gio.AsyncReadyCallback'),
    'U': ('gpointer', 'gpointer'), 'D': ('GDestroyNotify', 'GLib.DestroyNotify'),
    'O': ('int', 'gint'), 'E': ('GError **', 'GLib.Error'),
}
