"""C12 helper: a miniature GType runtime and a printer that emits exactly what
girepository/gdump.c prints for it.

Written from gdump.c (the definition of the dump format) and the GLib reference
manual; nothing here consults giscanner.  The runtime model holds what the library
under scan would have registered (types that have no public get-type function are
registered too - they are the "hidden" ancestors); `dump()` reproduces
g_irepository_dump(): one `get-type:`/`error-quark:` line per requested function, in
the order requested, each GType printed once.

Type description (plain JSON-able dicts, key 'k' is the GType fundamental):
  {'k':'object',    'name', 'parent', 'abstract', 'final', 'ifaces':[...], 'props':[...], 'signals':[...]}
  {'k':'interface', 'name', 'prereqs':[...], 'props', 'signals'}
  {'k':'boxed'|'pointer', 'name'}
  {'k':'enum'|'flags', 'name', 'values':[(value_name, value_nick, value)]}
  {'k':'other',     'name', 'parent', 'abstract', 'final', 'instantiatable', 'ifaces'}   (any other fundamental)
property: {'name','type','flags', 'default': None | ['s', raw string] | ['v', already-transformed text]}
signal:   {'name','return','flags', 'params':[type names]}     flags = GSignalFlags word
"""

G_SIGNAL_RUN_FIRST = 1 << 0
G_SIGNAL_RUN_LAST = 1 << 1
G_SIGNAL_RUN_CLEANUP = 1 << 2
G_SIGNAL_NO_RECURSE = 1 << 3
G_SIGNAL_DETAILED = 1 << 4
G_SIGNAL_ACTION = 1 << 5
G_SIGNAL_NO_HOOKS = 1 << 6
G_SIGNAL_MUST_COLLECT = 1 << 7


class DumpFailure(Exception):
    """The real dumper would have failed (symbol not found, G_TYPE_INVALID, quark 0):
    g-ir-scanner exits; the case is outside the property's quantifier."""


def g_strescape(s):
    """glib/gstrfuncs.c:g_strescape(source, NULL) on the UTF-8 bytes of s."""
    out = []
    for b in s.encode('utf-8'):
        if b == 0x08:
            out.append('\\b')
        elif b == 0x0c:
            out.append('\\f')
        elif b == 0x0a:
            out.append('\\n')
        elif b == 0x0d:
            out.append('\\r')
        elif b == 0x09:
            out.append('\\t')
        elif b == 0x0b:
            out.append('\\v')
        elif b == 0x5c:
            out.append('\\\\')
        elif b == 0x22:
            out.append('\\"')
        elif b < 0x20 or b >= 0x7f:
            out.append('\\%03o' % b)
        else:
            out.append(chr(b))
    return ''.join(out)


def markup_escape(s):
    """glib/gmarkup.c:g_markup_escape_text (what g_markup_vprintf_escaped applies to %s)."""
    out = []
    for ch in s:
        c = ord(ch)
        if ch == '&':
            out.append('&amp;')
        elif ch == '<':
            out.append('&lt;')
        elif ch == '>':
            out.append('&gt;')
        elif ch == "'":
            out.append('&apos;')
        elif ch == '"':
            out.append('&quot;')
        elif (0x1 <= c <= 0x8) or (0xb <= c <= 0xc) or (0xe <= c <= 0x1f) or c == 0x7f or \
                (0x80 <= c <= 0x84) or (0x86 <= c <= 0x9f):
            out.append('&#x%x;' % c)
        else:
            out.append(ch)
    return ''.join(out)


E = markup_escape


def c_int32(v):
    """printf("%d") of a 32-bit flags word."""
    v &= 0xffffffff
    return v - (1 << 32) if v & 0x80000000 else v


def default_text(d):
    """value_to_string(): the text of the default-value attribute, or None."""
    if d is None:
        return None
    if d[0] == 's':               # G_VALUE_HOLDS_STRING
        return 'NULL' if d[1] is None else g_strescape(d[1])
    return g_strescape(d[1])       # value_transform_to_string(): transformed text, then g_strescape


class Runtime(object):
    def __init__(self, types, symbols, quarks):
        """types: list of type dicts (the builtin roots are added here);
        symbols: {get-type function symbol: type name};  quarks: {quark function symbol: domain string}"""
        self.types = {}
        for t in BUILTIN + list(types):
            if t['name'] in self.types:
                raise ValueError('duplicate GType name %s' % t['name'])
            self.types[t['name']] = t
        self.symbols = dict(symbols)
        self.quarks = dict(quarks)

    # ---- GType API ----
    def parent(self, name):
        return self.types[name].get('parent')

    def is_a_object(self, name):
        return self.fundamental(name) == 'GObject'

    def fundamental(self, name):
        while self.types[name].get('parent'):
            name = self.types[name]['parent']
        return name

    def ancestors(self, name):
        out = []
        p = self.parent(name)
        while p:
            out.append(p)
            p = self.parent(p)
        return out

    def interfaces(self, name):
        """g_type_interfaces(): every interface the type conforms to, own and inherited."""
        out = []
        for t in [name] + self.ancestors(name):
            for i in self.types[t].get('ifaces', ()):
                if i not in out:
                    out.append(i)
        return out

    # ---- gdump.c ----
    def dump_properties(self, t, out):
        for p in t.get('props', ()):
            dv = default_text(p.get('default'))
            if dv is not None:
                out.append('    <property name="%s" type="%s" flags="%d" default-value="%s"/>\n' % (
                    E(p['name']), E(p['type']), c_int32(p['flags']), E(dv)))
            else:
                out.append('    <property name="%s" type="%s" flags="%d"/>\n' % (
                    E(p['name']), E(p['type']), c_int32(p['flags'])))

    def dump_signals(self, t, out):
        for s in t.get('signals', ()):
            f = s['flags']
            out.append('    <signal name="%s" return="%s"' % (E(s['name']), E(s['return'])))
            if f & G_SIGNAL_RUN_FIRST:
                out.append(' when="first"')
            elif f & G_SIGNAL_RUN_LAST:
                out.append(' when="last"')
            elif f & G_SIGNAL_RUN_CLEANUP:
                out.append(' when="cleanup"')
            elif f & G_SIGNAL_MUST_COLLECT:
                out.append(' when="must-collect"')
            if f & G_SIGNAL_NO_RECURSE:
                out.append(' no-recurse="1"')
            if f & G_SIGNAL_DETAILED:
                out.append(' detailed="1"')
            if f & G_SIGNAL_ACTION:
                out.append(' action="1"')
            if f & G_SIGNAL_NO_HOOKS:
                out.append(' no-hooks="1"')
            out.append('>\n')
            for p in s.get('params', ()):
                out.append('      <param type="%s"/>\n' % E(p))
            out.append('    </signal>\n')

    def dump_object_type(self, t, symbol, out):
        out.append('  <class name="%s" get-type="%s"' % (E(t['name']), E(symbol)))
        if t['name'] != 'GObject':
            out.append(' parents="%s"' % E(','.join(self.ancestors(t['name']))))
        if t.get('abstract'):
            out.append(' abstract="1"')
        if t.get('final'):
            out.append(' final="1"')
        out.append('>\n')
        for i in self.interfaces(t['name']):
            out.append('    <implements name="%s"/>\n' % E(i))
        self.dump_properties(t, out)
        self.dump_signals(t, out)
        out.append('  </class>\n')

    def dump_interface_type(self, t, symbol, out):
        out.append('  <interface name="%s" get-type="%s">\n' % (E(t['name']), E(symbol)))
        for p in t.get('prereqs', ()):
            if p == 'GObject':
                continue
            out.append('    <prerequisite name="%s"/>\n' % E(p))
        self.dump_properties(t, out)
        self.dump_signals(t, out)
        out.append('  </interface>\n')

    def dump_fundamental_type(self, t, symbol, out):
        out.append('  <fundamental name="%s" get-type="%s"' % (E(t['name']), E(symbol)))
        if t.get('abstract'):
            out.append(' abstract="1"')
        if t.get('final'):
            out.append(' final="1"')
        if t.get('instantiatable'):
            out.append(' instantiatable="1"')
        parents = ','.join(self.ancestors(t['name']))
        if parents:
            out.append(' parents="%s"' % E(parents))
        out.append('>\n')
        for i in self.interfaces(t['name']):
            out.append('    <implements name="%s"/>\n' % E(i))
        out.append('  </fundamental>\n')

    def dump_type(self, name, symbol, out):
        t = self.types[name]
        k = self.types[self.fundamental(name)]['k']
        if k == 'object':
            self.dump_object_type(t, symbol, out)
        elif k == 'interface':
            self.dump_interface_type(t, symbol, out)
        elif k == 'boxed':
            out.append('  <boxed name="%s" get-type="%s"/>\n' % (E(name), E(symbol)))
        elif k == 'flags':
            out.append('  <flags name="%s" get-type="%s">\n' % (E(name), E(symbol)))
            for vn, nick, v in t.get('values', ()):
                out.append('    <member name="%s" nick="%s" value="%u"/>\n' % (E(vn), E(nick), v & 0xffffffff))
            out.append('  </flags>\n')
        elif k == 'enum':
            out.append('  <enum name="%s" get-type="%s">\n' % (E(name), E(symbol)))
            for vn, nick, v in t.get('values', ()):
                out.append('    <member name="%s" nick="%s" value="%d"/>\n' % (E(vn), E(nick), c_int32(v)))
            out.append('  </enum>')          # sic: gdump.c writes no newline here
        elif k == 'pointer':
            out.append('  <pointer name="%s" get-type="%s"/>\n' % (E(name), E(symbol)))
        else:
            self.dump_fundamental_type(t, symbol, out)

    def dump(self, get_type_funcs, quark_funcs):
        """g_irepository_dump() on an input file listing these functions in this order."""
        out = ['<?xml version="1.0"?>\n', '<dump>\n']
        seen = set()
        for f in get_type_funcs:
            if f not in self.symbols:
                raise DumpFailure("Failed to find symbol '%s'" % f)
            name = self.symbols[f]
            if name is None:
                raise DumpFailure("Function '%s' returned G_TYPE_INVALID" % f)
            if name in seen:
                continue
            seen.add(name)
            self.dump_type(name, f, out)
        for f in quark_funcs:
            if f not in self.quarks:
                raise DumpFailure("Failed to find symbol '%s'" % f)
            if not self.quarks[f]:
                raise DumpFailure('Invalid error quark function: %s' % f)
            out.append('  <error-quark function="%s" domain="%s"/>\n' % (E(f), E(self.quarks[f])))
        out.append('</dump>\n')
        return ''.join(out)


# Types registered by libgobject/libgio themselves that the scenarios refer to.
# 'k' on a root gives the fundamental; derived types inherit it through 'parent'.
BUILTIN = [
    {'k': 'object', 'name': 'GObject',
     'signals': [{'name': 'notify', 'return': 'void', 'params': ['GParam'],
                  'flags': G_SIGNAL_RUN_FIRST | G_SIGNAL_NO_RECURSE | G_SIGNAL_DETAILED | G_SIGNAL_ACTION |
                  G_SIGNAL_NO_HOOKS}]},
    {'k': 'object', 'name': 'GInitiallyUnowned', 'parent': 'GObject'},
    {'k': 'object', 'name': 'GCancellable', 'parent': 'GObject'},
    {'k': 'interface', 'name': 'GInterface'},
    {'k': 'interface', 'name': 'GAsyncResult', 'parent': 'GInterface'},
    {'k': 'boxed', 'name': 'GBoxed'},
    {'k': 'pointer', 'name': 'gpointer'},
    {'k': 'enum', 'name': 'GEnum'},
    {'k': 'flags', 'name': 'GFlags'},
    {'k': 'other', 'name': 'GParam', 'abstract': True, 'instantiatable': True},
    {'k': 'other', 'name': 'gchararray'},
    {'k': 'other', 'name': 'gint'},
]

ROOT_OF = {'object': 'GObject', 'interface': 'GInterface', 'boxed': 'GBoxed', 'pointer': 'gpointer',
           'enum': 'GEnum', 'flags': 'GFlags'}


def normalize(types):
    """Fill in 'parent' for derived types given only by their fundamental kind."""
    out = []
    for t in types:
        t = dict(t)
        if not t.get('parent') and t['k'] in ROOT_OF:
            t['parent'] = ROOT_OF[t['k']]
        out.append(t)
    return out
