"""C04 - reference model of the naming / ownership statement, declaration menu,
prefix configurations and the GIR observation used by vt/checks/c04.py.

Nothing in this module consults giscanner: the expectation is computed from the
declaration specs (plain dicts), the prefix configuration and the dependency GIR
files (read with ElementTree); the observation is taken from the emitted GIR with
vt/scan/girread.py.

Vocabulary
  item       JSON-able dict describing one C declaration (see menu()).
  config     JSON-able dict: namespace name, identifier prefixes, symbol prefixes
             (None = derived), accept-unprefixed, included namespaces, and the
             spelling (I, s) used to render the menu.
  placement  (tag, owner GIR name or None, GIR name) of the primary (not moved-to)
             element describing a function.
"""
import os
import xml.etree.ElementTree as ET

from vt.core import ROOT

DEPS = os.path.join(ROOT, 'deps')
DEPS_C04 = os.path.join(ROOT, 'deps', 'c04')

CORE = '{http://www.gtk.org/introspection/core/1.0}'
CNS = '{http://www.gtk.org/introspection/c/1.0}'

FUNDAMENTAL = {'void', 'int', 'float', 'double', 'char', 'GType', 'gboolean', 'gint', 'guint', 'gpointer',
               'long', 'short', 'unsigned', 'gchar', 'gsize'}


# ------------------------------------------------------------------ menu ---
def menu(I, s):
    """The declaration alphabet rendered for identifier spelling I ('Foo') and symbol
    spelling s ('foo').  Order = canonical declaration order (types before functions)."""
    S = s.upper()

    def tds(id_, name, tag, union=False, grp=None):
        return {'id': id_, 'k': 'tds', 'name': name, 'tag': tag, 'union': union, 'grp': grp or tag}

    def st(id_, tag, fields, union=False):
        return {'id': id_, 'k': 'st', 'tag': tag, 'union': union, 'fields': fields, 'grp': tag}

    def fn(id_, name, ret, params=(), cls=None):
        d = {'id': id_, 'k': 'fn', 'name': name, 'ret': ret, 'params': [list(p) for p in params]}
        if cls:
            d['cls'] = cls
        return d

    items = [
        tds('TD_Text', I + 'Text', '_' + I + 'Text'),
        st('ST_Text', '_' + I + 'Text', [['x', 'int']]),
        tds('TD_TextBuffer', I + 'TextBuffer', '_' + I + 'TextBuffer'),
        st('ST_TextBuffer', '_' + I + 'TextBuffer', [['y', 'int']]),
        tds('TD_TextAlt', I + 'TextAlt', '_' + I + 'Text'),
        {'id': 'TA_Anon', 'k': 'tda', 'name': I + 'Anon', 'fields': [['z', 'int']], 'union': False},
        {'id': 'EN_Mode', 'k': 'enum', 'name': I + 'Mode', 'members': [[S + '_MODE_A', 0], [S + '_MODE_B', 1]]},
        # single member: no common member prefix exists, the member name is the identifier minus the namespace prefix
        {'id': 'EN_Solo', 'k': 'enum', 'name': I + 'Solo', 'members': [[S + '_SOLO_a', 0]]},
        {'id': 'CB_Callback', 'k': 'cb', 'name': I + 'Callback', 'ret': 'void', 'params': [['int', 'x']]},
        {'id': 'AL_Alias', 'k': 'alias', 'name': I + 'Alias', 'target': 'int'},
        tds('TD_Uni', I + 'Uni', '_' + I + 'Uni', union=True),
        st('U_Uni', '_' + I + 'Uni', [['a', 'int'], ['b', 'float']], union=True),
        tds('TD_UIPanel', I + 'UIPanel', '_' + I + 'UIPanel'),
        tds('TD_DepOther', I + 'DepOther', '_' + I + 'DepOther'),
        tds('TD_BarThing', 'BarThing', '_BarThing'),
        tds('TD_Widget', 'Widget', '_Widget'),
        # type names with digits: a capital after a digit starts a word (H264Decoder -> h264_decoder)
        tds('TD_H264Decoder', I + 'H264Decoder', '_' + I + 'H264Decoder'),
        tds('TD_3DPoint', I + '3DPoint', '_' + I + '3DPoint'),
        tds('TD_V4L2Dev', I + 'V4L2Dev', '_' + I + 'V4L2Dev'),
        tds('TD_ExtThing', I + 'ExtThing', '_' + I + 'ExtThing'),
        # functions
        fn('text_get_type', s + '_text_get_type', 'GType'),
        fn('tb_get_type', s + '_text_buffer_get_type', 'GType'),
        fn('text_new', s + '_text_new', I + 'Text*'),
        fn('tb_new', s + '_text_buffer_new', I + 'TextBuffer*'),
        fn('tb_new_view', s + '_text_buffer_new_view', I + 'Text*'),
        # constructor-named functions taking the other type: tb_new_for also satisfies the method rule for
        # Text (prefix text_ is a proper prefix of text_buffer_); the longest-prefix type owns it
        fn('tb_new_for', s + '_text_buffer_new_for', I + 'TextBuffer*', [[I + 'Text*', 'text']]),
        fn('text_new_with', s + '_text_new_with', I + 'Text*', [[I + 'TextBuffer*', 'buffer']]),
        fn('text_new_buffer', s + '_text_new_buffer', I + 'TextBuffer*'),
        fn('text_frob', s + '_text_frob', 'void', [[I + 'Text*', 'self']], cls='text_verb'),
        fn('text_tweak', s + '_text_tweak', 'void', [[I + 'Text*', 'self']], cls='text_verb'),
        fn('tb_insert', s + '_text_buffer_insert', 'void', [[I + 'TextBuffer*', 'self'], ['int', 'pos']]),
        fn('tb_x', s + '_text_buffer_x', 'void', [[I + 'Text*', 'self']]),
        fn('tb_count', s + '_text_buffer_count', 'int'),
        fn('texture', s + '_texture', 'void', [[I + 'Text*', 'self']]),
        fn('text_swap', s + '_text_swap', 'void', [[I + 'TextBuffer*', 'b']]),
        fn('frob_text', s + '_frob_text', 'void', [['int', 'x'], [I + 'Text*', 't']]),
        fn('init', s + '_init', 'void'),
        fn('fooey', s + 'ey_bar', 'void'),
        fn('hidden_fn', '_' + s + '_text_hidden', 'void', [[I + 'Text*', 'self']]),
        fn('mode_describe', s + '_mode_describe', 'void', [[I + 'Mode', 'm']]),
        fn('uni_get', s + '_uni_get', 'int', [[I + 'Uni*', 'u']]),
        fn('anon_free', s + '_anon_free', 'void', [[I + 'Anon*', 'a']]),
        fn('ui_panel_show', s + '_ui_panel_show', 'void', [[I + 'UIPanel*', 'p']]),
        fn('dep_other_poke', s + '_dep_other_poke', 'void', [[I + 'DepOther*', 'o']]),
        fn('dep_thing_frob', s + '_dep_thing_frob', 'void', [[I + 'DepThing*', 't']]),
        fn('thing_frob', s + '_thing_frob', 'void', [[I + 'Thing*', 't']]),
        fn('bar_thing_do', 'bar_thing_do', 'void', [['BarThing*', 't']]),
        fn('bar_text_poke', 'bar_text_poke', 'void', [[I + 'Text*', 'self']]),
        fn('widget_show', 'widget_show', 'void', [['Widget*', 'w']]),
        fn('h264_get_type', s + '_h264_decoder_get_type', 'GType'),
        fn('h264_new', s + '_h264_decoder_new', I + 'H264Decoder*'),
        fn('h264_reset', s + '_h264_decoder_reset', 'void', [[I + 'H264Decoder*', 'self']]),
        fn('p3d_len', s + '_' + camel_to_uscore('3DPoint') + '_len', 'int', [[I + '3DPoint*', 'p']]),
        fn('v4l2_open', s + '_' + camel_to_uscore('V4L2Dev') + '_open', 'int', [[I + 'V4L2Dev*', 'd']]),
        fn('ext_thing_frob', s + '_ext_thing_frob', 'void', [[I + 'ExtThing*', 't']]),
        fn('ext_init', s + '_ext_init', 'void'),
        # annotated as methods: the name need not carry the type's prefix, the first parameter must
        # still be a type of this namespace
        dict(fn('ann_poke', s + '_poke', 'void', [[I + 'Text*', 't']]), ann='method'),
        # annotated (constructor): stays a constructor although its first parameter is the constructed type
        dict(fn('ann_text_copy', s + '_text_copy', I + 'Text*', [[I + 'Text*', 'src']]), ann='constructor'),
        dict(fn('ann_thing_zap', s + '_thing_zap', 'void', [[I + 'Thing*', 't']]), ann='method'),
        # constants
        {'id': 'K_MAX', 'k': 'const', 'name': S + '_MAX', 'value': 10},
        {'id': 'K_SECRET', 'k': 'const', 'name': '_' + S + '_SECRET', 'value': 1},
        {'id': 'K_BAR_MIN', 'k': 'const', 'name': 'BAR_MIN', 'value': 1},
        {'id': 'K_EXT_MAX', 'k': 'const', 'name': S + '_EXT_MAX', 'value': 20},
        # mixed-case names behind the upper-case prefix (GDK_KEY_a style): the prefix is still carried
        {'id': 'K_KEY_a', 'k': 'const', 'name': S + '_KEY_a', 'value': 97},
        {'id': 'K_KEY_Return', 'k': 'const', 'name': S + '_KEY_Return', 'value': 65293},
        {'id': 'K_x', 'k': 'const', 'name': S + '_x', 'value': 3},
    ]
    core = set(CORE_IDS) | ALL_EXTRA
    for it in items:
        it['core'] = it['id'] in core
    return items


# items whose interplay is explored to the deeper bound (the other items are singletons whose
# naming does not depend on what else is declared; they are explored in all pairs/triples)
CORE_IDS = ['TD_Text', 'ST_Text', 'TD_TextBuffer', 'ST_TextBuffer', 'TD_TextAlt', 'text_get_type', 'tb_get_type',
            'text_new', 'tb_new', 'tb_new_view', 'text_new_buffer', 'text_frob', 'tb_insert', 'tb_x', 'tb_count',
            'texture', 'text_swap', 'hidden_fn', 'ann_poke',
            'tb_new_for', 'ann_text_copy']


# which optional item families are enumerated under which configuration (the core
# families are enumerated everywhere)
EXTRA = {
    'bar': ['TD_BarThing', 'bar_thing_do', 'bar_text_poke', 'K_BAR_MIN'],
    'dep': ['TD_DepOther', 'dep_other_poke', 'dep_thing_frob'],
    'fig': ['thing_frob', 'ann_thing_zap'],
    'widget': ['TD_Widget', 'widget_show'],
    'ext': ['TD_ExtThing', 'ext_thing_frob', 'ext_init', 'K_EXT_MAX'],
}
ALL_EXTRA = set(x for v in EXTRA.values() for x in v)

CONFIGS = [
    {'id': 'one', 'ns': 'Foo', 'ident': ['Foo'], 'sym': None, 'unprefixed': False, 'includes': [],
     'I': 'Foo', 's': 'foo', 'extra': ['bar', 'dep', 'fig', 'widget']},
    {'id': 'two', 'ns': 'Foo', 'ident': ['Foo', 'Bar'], 'sym': None, 'unprefixed': False, 'includes': [],
     'I': 'Foo', 's': 'foo', 'extra': ['bar', 'fig']},
    {'id': 'incl-longer', 'ns': 'Foo', 'ident': ['Foo'], 'sym': None, 'unprefixed': False,
     'includes': ['FooDep-1.0'], 'I': 'Foo', 's': 'foo', 'extra': ['dep']},
    {'id': 'sym-several', 'ns': 'Foo', 'ident': ['Foo'], 'sym': ['foo', 'bar'], 'unprefixed': False,
     'includes': [], 'I': 'Foo', 's': 'foo', 'extra': ['bar']},
    {'id': 'unprefixed', 'ns': 'Foo', 'ident': ['Foo'], 'sym': None, 'unprefixed': True, 'includes': [],
     'I': 'Foo', 's': 'foo', 'extra': ['bar', 'widget']},
    {'id': 'incl-owner', 'ns': 'Foo', 'ident': ['Foo'], 'sym': None, 'unprefixed': False,
     'includes': ['Bar-1.0'], 'I': 'Foo', 's': 'foo', 'extra': ['bar']},
    {'id': 'incl-same', 'ns': 'Foo', 'ident': ['Foo'], 'sym': None, 'unprefixed': False,
     'includes': ['Fig-1.0'], 'I': 'Foo', 's': 'foo', 'extra': ['fig']},
    {'id': 'two-rev', 'ns': 'Foo', 'ident': ['Bar', 'Foo'], 'sym': None, 'unprefixed': False, 'includes': [],
     'I': 'Foo', 's': 'foo', 'extra': ['bar']},
    {'id': 'multiword', 'ns': 'FooKit', 'ident': ['FooKit'], 'sym': None, 'unprefixed': False, 'includes': [],
     'I': 'FooKit', 's': 'foo_kit', 'extra': []},
    {'id': 'sym-differs', 'ns': 'Foo', 'ident': ['Foo'], 'sym': ['fu'], 'unprefixed': False, 'includes': [],
     'I': 'Foo', 's': 'fu', 'extra': []},
]


# Namespaces scanned WITHOUT explicit symbol prefixes (family C): the default symbol prefix is the
# documented underscore form of the identifier prefix (utils.to_underscores docstring: a leading
# capital followed by another capital is a word of its own - GUdev -> g_udev, as libgudev's
# g_udev_* API).  A small API (type, struct, method, function, get-type, constructor, constants)
# is spelled with that prefix.
DEFAULT_PREFIX_NAMES = [('Foo', 'foo'), ('Gio', 'gio'), ('GtkSource', 'gtk_source'), ('GUdev', 'g_udev'),
                        ('GData', 'g_data'), ('ABCFoo', 'a_bc_foo')]
DEFAULT_PREFIX_MENU = ['TD_Text', 'ST_Text', 'text_get_type', 'text_new', 'text_frob', 'init', 'K_MAX', 'K_KEY_a']
DEFAULT_PREFIX_CONFIGS = [
    {'id': 'default-' + n, 'ns': n, 'ident': [n], 'sym': None, 'unprefixed': False, 'includes': [],
     'I': n, 's': sp, 'extra': [], 'only': DEFAULT_PREFIX_MENU}
    for n, sp in DEFAULT_PREFIX_NAMES]

# One namespace with NESTED prefixes (Foo and FooExt, foo and foo_ext), in both listing orders.  Two prefixes
# match FooExtThing / foo_ext_*; which one is stripped is not fixed by the statement (either name is accepted,
# see expectation()), but foo_ext_thing_frob (FooExtThing *) carries its type's prefix under either consistent
# choice and therefore MUST be its method.
NESTED_MENU = ['TD_Text', 'ST_Text', 'text_get_type', 'text_new', 'text_frob', 'init', 'K_MAX',
               'TD_ExtThing', 'ext_thing_frob', 'ext_init', 'K_EXT_MAX']
NESTED_CONFIGS = [
    {'id': 'nested-long-first', 'ns': 'Foo', 'ident': ['FooExt', 'Foo'], 'sym': ['foo_ext', 'foo'],
     'unprefixed': False, 'includes': [], 'I': 'Foo', 's': 'foo', 'extra': [], 'only': NESTED_MENU},
    {'id': 'nested-short-first', 'ns': 'Foo', 'ident': ['Foo', 'FooExt'], 'sym': None,
     'unprefixed': False, 'includes': [], 'I': 'Foo', 's': 'foo', 'extra': [], 'only': NESTED_MENU},
]
# accept-unprefixed mode next to an included namespace that has EMPTY C prefixes (xlib style): unprefixed
# declarations of the scanned headers still belong to the scanned namespace, as without that include.
XDEP_MENU = ['TD_Text', 'TD_Widget', 'TD_BarThing', 'text_frob', 'init', 'fooey', 'widget_show', 'bar_thing_do',
             'K_MAX', 'K_BAR_MIN']
XDEP_CONFIGS = [
    {'id': 'unprefixed-xdep', 'ns': 'Foo', 'ident': ['Foo'], 'sym': None, 'unprefixed': True,
     'includes': ['xdep-1.0'], 'I': 'Foo', 's': 'foo', 'extra': [], 'only': XDEP_MENU},
]
SMALL_CONFIGS = DEFAULT_PREFIX_CONFIGS + NESTED_CONFIGS + XDEP_CONFIGS


def config_menu(cfg):
    """Items enumerated under cfg (core + the configuration's extra families)."""
    if cfg.get('only'):
        return [it for it in menu(cfg['I'], cfg['s']) if it['id'] in cfg['only']]
    allowed = set(x for fam in cfg['extra'] for x in EXTRA[fam])
    return [it for it in menu(cfg['I'], cfg['s']) if it['id'] not in ALL_EXTRA or it['id'] in allowed]


# ----------------------------------------------------- rendering to the DSL ---
def build_decls(items):
    """item dicts -> vt.scan.fake declarations (numbered)."""
    from vt.scan import fake
    out = []
    for it in items:
        k = it['k']
        if k == 'tds':
            out.append(fake.Typedef(it['name'], ('union ' if it['union'] else 'struct ') + it['tag']))
        elif k == 'st':
            out.append(fake.Struct(it['tag'], [fake.Field(n, t) for n, t in it['fields']], union=it['union']))
        elif k == 'tda':
            out.append(fake.TypedefAnon(it['name'], [fake.Field(n, t) for n, t in it['fields']], union=it['union']))
        elif k == 'enum':
            out.append(fake.Enum(it['name'], [tuple(m) for m in it['members']]))
        elif k == 'cb':
            out.append(fake.Callback(it['name'], it['ret'], [tuple(p) for p in it['params']]))
        elif k == 'alias':
            out.append(fake.Typedef(it['name'], it['target']))
        elif k == 'fn':
            out.append(fake.Func(it['name'], it['ret'], [tuple(p) for p in it['params']]))
        elif k == 'const':
            out.append(fake.Const(it['name'], it['value']))
        else:
            raise ValueError(k)
    return fake.number(out)


def build_comments(items):
    """GTK-Doc blocks for the annotated items (identifier-level annotation only)."""
    out = []
    for n, it in enumerate(items):
        if it.get('ann'):
            text = '/**\n * %s: (%s)\n * @%s: an instance\n */' % (it['name'], it['ann'], it['params'][0][1])
            out.append((text, '/src/foo.c', 100 + 20 * n))
    return out


# ------------------------------------------------- included namespaces (ET) ---
_INC_CACHE = {}


def load_include(spec):
    """'Name-Version' -> list of namespace descriptions (the namespace and, transitively,
    what it includes), read directly from the dependency GIR files."""
    if spec in _INC_CACHE:
        return _INC_CACHE[spec]
    path = None
    for d in (DEPS_C04, DEPS):
        p = os.path.join(d, spec + '.gir')
        if os.path.exists(p):
            path = p
            break
    if path is None:
        raise IOError('dependency GIR %s not found' % spec)
    root = ET.parse(path).getroot()
    out = []
    ns = root.find(CORE + 'namespace')
    ctypes = {}
    for e in ns:
        ct = e.get(CNS + 'type')
        if ct:
            ctypes[ct] = e.get('name')
    out.append({'name': ns.get('name'),
                'ident': [p for p in (ns.get(CNS + 'identifier-prefixes') or '').split(',') if p],
                'sym': [p for p in (ns.get(CNS + 'symbol-prefixes') or '').split(',') if p],
                'ctypes': ctypes})
    for inc in root.findall(CORE + 'include'):
        for d in load_include('%s-%s' % (inc.get('name'), inc.get('version'))):
            if all(d['name'] != o['name'] for o in out):
                out.append(d)
    _INC_CACHE[spec] = out
    return out


# ----------------------------------------------------------- name helpers ---
def camel_to_uscore(name):
    """CamelCase -> lower_case_with_underscores, written from the convention:
    a word starts at an upper-case letter that follows a non-upper-case character, and
    at the last capital of an acronym (two or more capitals) that is followed by a
    lower-case letter ("UIPanel" -> ui_panel, "DBusFoo" -> dbus_foo)."""
    out = []
    n = len(name)
    for i, ch in enumerate(name):
        if i > 0 and ch.isupper():
            prev = name[i - 1]
            nxt = name[i + 1] if i + 1 < n else ''
            if not prev.isupper():
                out.append('_')
            elif nxt.islower() and i >= 2 and name[i - 2].isupper():
                out.append('_')
        out.append(ch)
    return ''.join(out).lower()


def default_symbol_prefix(ident_prefix):
    """Documented default of --symbol-prefix: the underscore form of the identifier prefix, where
    additionally a leading capital that is followed by another capital is a word of its own
    (GUdev -> g_udev, GData -> g_data, GObject -> g_object; Gtk -> gtk, GtkSource -> gtk_source)."""
    u = camel_to_uscore(ident_prefix)
    if len(ident_prefix) >= 2 and ident_prefix[0].isupper() and ident_prefix[1].isupper() and u[1:2] != '_':
        u = u[0] + '_' + u[1:]
    return u


def base_ctype(spec):
    """'const FooText *' -> ('FooText', pointer depth)"""
    depth = spec.count('*')
    words = [w for w in spec.replace('*', ' ').split() if w not in ('const', 'volatile')]
    return ' '.join(words), depth


class Model(object):
    """Expectation for one (config, ordered items, dump mode)."""

    def __init__(self, cfg, items, dump, world=0):
        # world: which of SEVERAL matching prefixes of the scanned namespace is taken to be stripped
        # (0 = the first listed, 1 = the last listed), consistently for identifiers and symbols.  The
        # statement does not fix the choice; see expectation().
        self.world = world
        self.multi = False
        self._alt = None
        self.cfg = cfg
        self.items = items
        self.dump = dump                      # 'none' | 'class' (TextBuffer derives from Text) | 'classflat' | 'boxed'
        self.ident = list(cfg['ident'])
        self.sym = list(cfg['sym']) if cfg['sym'] is not None else [default_symbol_prefix(p) for p in self.ident]
        self.includes = []
        specs = list(cfg['includes'])
        if dump in ('class', 'classflat'):
            specs.append('GObject-2.0')
        for spec in specs:
            for d in load_include(spec):
                if all(d['name'] != o['name'] for o in self.includes):
                    self.includes.append(d)
        self.unprefixed = cfg['unprefixed']
        self._build()

    # -- namespace membership -------------------------------------------------
    @staticmethod
    def _carries(body, prefix, space):
        if space == 'ident':
            return body.startswith(prefix) and len(body) > len(prefix)
        p = prefix.upper() if body[:1].isupper() else prefix
        if not p.endswith('_'):
            p += '_'
        return body.startswith(p) and len(body) > len(p)

    @staticmethod
    def _strip(body, prefix, space):
        if space == 'ident':
            return body[len(prefix):]
        n = len(prefix) + (0 if prefix.endswith('_') else 1)
        return body[n:]

    def membership(self, cname, space):
        """-> ('ours', [stripped candidates]) | ('foreign', ns name) | ('none', None);
        a leading underscore is not part of the matched text."""
        body = cname[1:] if cname.startswith('_') else cname
        mine = self.ident if space == 'ident' else self.sym
        hits = [p for p in mine if self._carries(body, p, space)]
        if hits:
            if len(hits) > 1:
                self.multi = True       # nested prefixes (Foo and FooExt): this world's choice
            return 'ours', [self._strip(body, hits[0] if self.world == 0 else hits[-1], space)]
        for inc in self.includes:
            for p in (inc['ident'] if space == 'ident' else inc['sym']):
                if self._carries(body, p, space):
                    return 'foreign', inc['name']
        if self.unprefixed:
            return 'ours', [body]
        return 'none', None

    # -- building the expectation ---------------------------------------------
    def _build(self):
        self.types = {}        # cname -> {'names': [...], 'tags': set, 'kind': k}     MUST appear once, top level
        self.opt_types = {}    # cname -> reason                                       may appear (statement silent)
        self.consts = {}       # cname -> {'names': [...]}
        self.funcs = {}        # cname -> {'placements': list | None, 'why': str}
        self.folded = {}       # get-type function -> {'names': [...], 'gtype': N}
        self.members = {}      # enum cname -> [member c identifiers]
        self.absent = {}       # cname -> reason (MUST NOT be described)
        self.conflict = None
        self.owners = {}       # GIR name -> owner-capable type {'name','sp','cname','registered','compound'}
        self.unspecified = []  # reasons
        self.fn_items = {}

        I = self.cfg['I']
        typedef_tags = set()
        toplevel = {}          # GIR name at parse stage -> cname (conflict detection)

        def claim(names, cname):
            for n in names:
                if n in toplevel and toplevel[n] != cname:
                    self.conflict = 'top-level name %r claimed by %s and %s' % (n, toplevel[n], cname)
                toplevel.setdefault(n, cname)

        # 1. types
        for it in self.items:
            k = it['k']
            if k not in ('tds', 'tda', 'enum', 'cb', 'alias'):
                continue
            cname = it['name']
            if k == 'tds':
                typedef_tags.add(it['tag'])
            where, cands = self.membership(cname, 'ident')
            if where != 'ours':
                self.absent[cname] = 'identifier of %s' % ('namespace ' + cands if where == 'foreign' else 'no known namespace')
                continue
            if cname.startswith('_'):
                self.opt_types[cname] = 'underscore-prefixed type'
                continue
            tags = {'tds': {'record', 'class', 'interface', 'union', 'glib:boxed'},
                    'tda': {'record', 'union', 'class', 'glib:boxed'},
                    'enum': {'enumeration', 'bitfield'}, 'cb': {'callback'}, 'alias': {'alias'}}[k]
            if k in ('tds', 'tda'):
                tags = (tags - {'record'}) if it['union'] else (tags - {'union'})
            self.types[cname] = {'names': cands, 'tags': tags, 'kind': k}
            claim(cands, cname)
            if k == 'enum':
                self.members[cname] = [m[0] for m in it['members']]
            if k in ('tds', 'tda') and len(cands) == 1:
                self.owners[cands[0]] = {'name': cands[0], 'sp': camel_to_uscore(cands[0]), 'cname': cname,
                                         'registered': None, 'compound': True}
        # struct / union tags that no typedef names: the statement is silent on a tag that
        # starts with an underscore; a plain tag is a public type name.
        for it in self.items:
            if it['k'] != 'st' or it['tag'] in typedef_tags:
                continue
            tag = it['tag']
            where, cands = self.membership(tag, 'ident')
            if where != 'ours':
                self.absent[tag] = 'struct tag outside the namespace'
            elif tag.startswith('_'):
                self.opt_types[tag] = 'struct tag without typedef, underscore-prefixed'
                claim(['_' + c for c in cands], tag)
            else:
                self.types[tag] = {'names': cands, 'tags': {'union'} if it['union'] else {'record'}, 'kind': 'st'}
                claim(cands, tag)

        # 2. registrations reported by the runtime dump for get-type functions
        self.registered = {}   # gtype name -> get-type function
        gt_items = []
        for it in self.items:
            if it['k'] == 'fn' and self.is_get_type(it):
                where, cands = self.membership(it['name'], 'symbol')
                if where == 'ours' and not it['name'].startswith('_'):
                    gt_items.append((it, cands))
        if self.dump in ('class', 'classflat', 'boxed'):
            for it, cands in gt_items:
                gname = gtype_name_for(I, self.cfg['s'], it['name'])
                if gname is None:
                    continue
                self.registered[gname] = it['name']
        self.ancestors = {}    # GIR type name -> [GIR names of ancestors in this namespace]
        for gname, g in sorted(self.registered.items()):
            where, cands = self.membership(gname, 'ident')
            if where != 'ours' or len(cands) != 1:
                self.unspecified.append('registered type %s outside the namespace' % gname)
                continue
            name = cands[0]
            gwhere, gc = self.membership(g, 'symbol')
            sps = sorted(set(c[:-len('_get_type')] for c in gc))
            self.folded[g] = {'names': [name], 'gtype': gname}
            o = self.owners.get(name)
            if o is None:
                o = {'name': name, 'sp': sps[0], 'cname': gname, 'registered': self.dump, 'compound': True}
                self.owners[name] = o
                claim([name], gname)
            else:
                o['registered'] = self.dump
            if len(sps) != 1 or sps[0] != camel_to_uscore(name):
                o['sp'] = None      # symbol prefix not fixed by the statement
            self.ancestors[name] = []
        if self.dump == 'class':
            tb, tx = I + 'TextBuffer', I + 'Text'
            if tb in self.registered and tx in self.registered:
                a = self.membership(tb, 'ident')[1]
                b = self.membership(tx, 'ident')[1]
                if a and b and a[0] in self.ancestors:
                    self.ancestors[a[0]] = [b[0]]

        # 3. constants
        for it in self.items:
            if it['k'] != 'const':
                continue
            cname = it['name']
            if cname.startswith('_'):
                self.absent[cname] = 'underscore-prefixed constant'
                continue
            where, cands = self.membership(cname, 'symbol')
            if where != 'ours':
                self.absent[cname] = 'symbol of %s' % ('namespace ' + cands if where == 'foreign' else 'no known namespace')
                continue
            self.consts[cname] = {'names': cands}
            claim(cands, cname)

        # 4. functions
        for it in self.items:
            if it['k'] != 'fn':
                continue
            cname = it['name']
            if cname.startswith('_'):
                self.absent[cname] = 'underscore-prefixed function'
                continue
            where, cands = self.membership(cname, 'symbol')
            if where != 'ours':
                self.absent[cname] = 'symbol of %s' % ('namespace ' + cands if where == 'foreign' else 'no known namespace')
                continue
            claim(cands, cname)
            if cname in self.folded:
                continue
            self.fn_items[cname] = (it, cands)
            self.funcs[cname] = self._function(it, cands)

    @staticmethod
    def is_get_type(it):
        return it['name'].endswith('_get_type') and not it['params'] and it['ret'] == 'GType'

    def resolve(self, spec):
        """-> (kind, owner-or-None, pointer depth); kind in
        fund / ours (owner-capable type) / ours-other (enum, callback, alias) / foreign / ambiguous / unknown"""
        base, depth = base_ctype(spec)
        if base in FUNDAMENTAL:
            return 'fund', None, depth
        owned = [inc['name'] for inc in self.includes if base in inc['ctypes']]
        mine = None
        if base in self.types:
            if len(self.types[base]['names']) != 1:
                return 'ambiguous', None, depth
            mine = self.types[base]['names'][0]
        elif base in self.registered:
            where, cands = self.membership(base, 'ident')
            if where != 'ours' or len(cands) != 1:
                return 'ambiguous', None, depth
            mine = cands[0]
        if mine is not None:
            if owned:
                return 'ambiguous', None, depth          # declared here and owned by an include
            o = self.owners.get(mine)
            if o is None:
                return 'ours-other', None, depth         # enum / callback / alias
            if o['cname'] != base:
                return 'ambiguous', None, depth          # same GIR name under another C name
            return 'ours', o, depth
        if owned:
            return 'foreign', None, depth
        # a C name that is not declared, but whose stripped form names one of our types
        # (two identifier prefixes, FooThing vs BarThing): the statement does not say
        body = base[1:] if base.startswith('_') else base
        known = set(self.owners) | set(n for t in self.types.values() for n in t['names'])
        for tag in self.opt_types:
            known |= set('_' + c for c in (self.membership(tag, 'ident')[1] or []))
        for p in self.ident:
            if body.startswith(p) and body[len(p):] in known:
                return 'ambiguous', None, depth
        if self.unprefixed and body in known:
            return 'ambiguous', None, depth
        return 'unknown', None, depth

    def _function(self, it, cands):
        if len(cands) != 1:
            return {'placements': None, 'why': 'several of the namespace prefixes match'}
        st = cands[0]
        owners = list(self.owners.values())
        if any(o['sp'] is None for o in owners):
            return {'placements': None, 'why': 'a type has no fixed symbol prefix'}
        carriers = [o for o in owners if st.startswith(o['sp'] + '_') and len(st) > len(o['sp']) + 1]
        longest = None
        if carriers:
            m = max(len(o['sp']) for o in carriers)
            top = [o for o in carriers if len(o['sp']) == m]
            if len(top) != 1:
                return {'placements': None, 'why': 'two types with the same symbol prefix'}
            longest = top[0]
        r1 = self.resolve(it['params'][0][0]) if it['params'] else None
        rr = self.resolve(it['ret'])
        if (r1 and r1[0] == 'ambiguous') or rr[0] == 'ambiguous':
            return {'placements': None, 'why': 'a parameter or return C type is only known under another prefix'}

        def rem(o):
            return st[len(o['sp']) + 1:]

        if it.get('ann') == 'constructor':
            # annotated: neither the naming convention nor the "first parameter is not the type itself" guess is
            # needed; the only-conditions of the statement still are
            if (longest is not None and longest['registered'] and rr[0] == 'ours' and rr[2] == 1 and
                    rr[1]['registered'] and
                    (rr[1]['name'] == longest['name'] or rr[1]['name'] in self.ancestors.get(longest['name'], []))):
                return {'placements': [('constructor', longest['name'], rem(longest))],
                        'why': 'annotated (constructor), carries %s_ and returns the type or an ancestor' % longest['sp']}
            return {'placements': None, 'why': 'annotated (constructor) but the type is not registered, the prefix is not '
                                               'carried or the return type does not fit'}
        if it.get('ann') == 'method':
            # annotated: the prefix condition is waived, the same-namespace condition is not
            if r1 and r1[0] == 'ours':
                if r1[2] != 1:
                    return {'placements': None, 'why': 'first parameter is not a plain pointer to the type'}
                pl = [('method', r1[1]['name'], st)]
                if r1[1] in carriers:
                    pl.append(('method', r1[1]['name'], rem(r1[1])))
                return {'placements': pl, 'why': 'annotated (method), first parameter is %s' % r1[1]['cname']}
            pl = [('function', None, st)]
            if longest is not None:
                pl.append(('function', longest['name'], rem(longest)))
            return {'placements': pl, 'why': 'annotated (method) but the first parameter is not a type of this '
                                             'namespace', 'soft': longest is not None}
        method = None
        if r1 and r1[0] == 'ours' and r1[1] in carriers:
            if r1[2] == 1:
                method = ('method', r1[1]['name'], rem(r1[1]))
            else:
                return {'placements': None, 'why': 'first parameter is not a plain pointer to the type'}
        ctor = None
        maybe_ctor = None
        if longest is not None and longest['registered'] and rr[0] == 'ours' and rr[2] == 1:
            rname = rr[1]['name']
            returns_ok = rname == longest['name'] or rname in self.ancestors.get(longest['name'], [])
            first_is_self = bool(r1 and r1[0] == 'ours' and r1[1] is longest)
            r = rem(longest)
            clear = r in ('new', 'newv') or r.startswith('new_')
            fuzzy = r.endswith('_new') or r.endswith('_newv') or '_new_' in r
            if returns_ok and not first_is_self and rr[1]['registered']:
                if clear:
                    ctor = ('constructor', longest['name'], r)
                elif fuzzy:
                    maybe_ctor = ('constructor', longest['name'], r)
        if ctor:
            # a function that also satisfies the method rule for its first parameter's type (whose prefix is then a
            # proper prefix of the constructed type's: text_ vs text_buffer_) belongs to the longest-prefix type
            return {'placements': [ctor], 'why': 'constructor: carries %s_, returns the type or an ancestor' % longest['sp']}
        if method:
            pl = [method]
            if maybe_ctor:
                pl.append(maybe_ctor)
            return {'placements': pl, 'why': 'method: first parameter is %s and the name carries %s_' % (
                r1[1]['cname'], r1[1]['sp'])}
        pl = [('function', None, st)]
        if longest is not None:
            pl.append(('function', longest['name'], rem(longest)))
        if maybe_ctor:
            pl.append(maybe_ctor)
        return {'placements': pl, 'why': 'plain function (neither the method nor the constructor rule applies); '
                                         'nesting under the longest-prefix type %s is optional' % (
                                             longest['name'] if longest else '-'), 'soft': longest is not None}

    def method_copy_ok(self, cname, owner):
        """A moved-to compatibility copy may be a <method> of `owner` only if the function's first
        parameter is that type (of this namespace) and its name starts with the type's symbol
        prefix (the copies exist for names like foo_texture / FooText, where the character after
        the prefix is not an underscore)."""
        if self._alt is not None and self._alt.method_copy_ok(cname, owner):
            return True
        it, cands = self.fn_items[cname]
        if len(cands) != 1:
            return True
        if not it['params']:
            return False
        r1 = self.resolve(it['params'][0][0])
        if r1[0] == 'ambiguous':
            return True
        if r1[0] != 'ours' or r1[1]['name'] != owner:
            return False
        if r1[1]['sp'] is None:
            return True
        return cands[0].startswith(r1[1]['sp'])

    def must_count(self):
        return (len(self.types) + len(self.consts) + len(self.folded) + len(self.absent) +
                sum(1 for f in self.funcs.values() if f['placements'] is not None))


def expectation(cfg, items, dump):
    """The reference expectation.  When several prefixes of the scanned namespace match one name (nested
    prefixes), the statement ("stripping the matching namespace prefix") does not say which one is stripped:
    the model is evaluated in two consistent worlds (first listed / last listed prefix, the same choice for
    identifiers and symbols) and every entity may follow either world: names and placements are the union.
    What survives the union is what the statement fixes: presence exactly once, c:identifier / c:type, a name
    that is the C name minus ONE matching prefix, and - for a function that is a method (constructor) of its
    type in both worlds - that it is a method (constructor).  A collision in either world makes the case
    UNSPECIFIED."""
    m0 = Model(cfg, items, dump, 0)
    if not m0.multi:
        return m0
    m1 = Model(cfg, items, dump, 1)
    m0._alt = m1
    m0.conflict = m0.conflict or m1.conflict
    for table in (m0.types, m0.consts, m0.folded):
        other = {id(m0.types): m1.types, id(m0.consts): m1.consts, id(m0.folded): m1.folded}[id(table)]
        for c, t in table.items():
            t['names'] = t['names'] + [n for n in other[c]['names'] if n not in t['names']]
    for c, f in m0.funcs.items():
        g = m1.funcs[c]
        if f['placements'] is None or g['placements'] is None:
            f['placements'] = None
        else:
            f['placements'] = list(f['placements']) + [x for x in g['placements'] if x not in f['placements']]
            if g['why'] != f['why']:
                f['why'] = '%s | with the other matching prefix: %s' % (f['why'], g['why'])
        f['soft'] = bool(f.get('soft') or g.get('soft')) or f['placements'] is None
    m0.opt_types.update(m1.opt_types)
    return m0


def gtype_name_for(I, s, fname):
    """The GType name a get-type function of the menu registers (what the library's
    runtime would report): <s>_text_get_type -> <I>Text."""
    table = {s + '_text_get_type': I + 'Text', s + '_text_buffer_get_type': I + 'TextBuffer',
             s + '_h264_decoder_get_type': I + 'H264Decoder'}
    return table.get(fname)


def dump_xml(cfg, mode, get_types):
    """Runtime dump for the get-type functions the scanner asks about."""
    I, s = cfg['I'], cfg['s']
    names = [gtype_name_for(I, s, g) for g in get_types]
    out = ['<?xml version="1.0"?>', '<dump>']
    for g, n in zip(get_types, names):
        if n is None:
            continue
        if mode in ('class', 'classflat'):
            parents = 'GObject'
            if mode == 'class' and n == I + 'TextBuffer' and (I + 'Text') in names:
                parents = I + 'Text,GObject'
            out.append('  <class name="%s" get-type="%s" parents="%s"/>' % (n, g, parents))
        else:
            out.append('  <boxed name="%s" get-type="%s"/>' % (n, g))
    out.append('</dump>')
    return '\n'.join(out)


# ------------------------------------------------------------- observation ---
TYPE_TAGS = {'record', 'class', 'interface', 'union', 'enumeration', 'bitfield', 'callback', 'alias', 'glib:boxed'}


class Observation(object):
    """What the emitted GIR says: every element that defines a C symbol or C type."""

    def __init__(self, root):
        ns = root.find('namespace')
        self.symdefs = []     # dicts: cident, tag, name, owner (GIR name or None), owner_tag, moved_to, depth
        self.typedefs = []    # dicts: ctype, tag, name, toplevel, get_type
        self.consts = []
        self.get_types = []   # (get-type value, tag, name, toplevel)
        self.symbol_prefixes = (ns.get('c:symbol-prefixes') or '').split(',')
        self.identifier_prefixes = (ns.get('c:identifier-prefixes') or '').split(',')

        def gname(e):
            return e.get('name') if e.get('name') is not None else e.get('glib:name')

        def walk(e, owner, depth):
            for k in e.kids:
                tag = k.tag
                if tag in ('type', 'array', 'parameters', 'return-value', 'source-position', 'doc',
                           'doc-deprecated', 'attribute'):
                    continue
                if tag == 'constant':
                    self.consts.append({'cname': k.get('c:identifier') or k.get('c:type'), 'name': gname(k),
                                        'toplevel': owner is None})
                    continue
                if 'c:identifier' in k.attrib:
                    self.symdefs.append({'cident': k.get('c:identifier'), 'tag': tag, 'name': gname(k),
                                         'owner': gname(owner) if owner is not None else None,
                                         'owner_tag': owner.tag if owner is not None else None,
                                         'moved_to': k.get('moved-to'), 'depth': depth})
                if tag in TYPE_TAGS:
                    top = owner is None
                    if top or k.get('c:type') is not None:
                        self.typedefs.append({'ctype': k.get('c:type'), 'tag': tag, 'name': gname(k), 'toplevel': top})
                    if k.get('glib:get-type') is not None:
                        self.get_types.append((k.get('glib:get-type'), tag, gname(k), top))
                    walk(k, k if top else owner, depth + 1)
                elif tag == 'field':
                    walk(k, owner, depth + 1)
        walk(ns, None, 0)


def compare(model, obs):
    """-> list of (what, subject C name, observed detail, message) disagreements between the
    reference model and the GIR."""
    bad = []
    if obs.symbol_prefixes != model.sym:
        bad.append(('ns-symbol-prefixes', '-', ','.join(obs.symbol_prefixes),
                    'namespace says c:symbol-prefixes=%r, expected %r' % (','.join(obs.symbol_prefixes), ','.join(model.sym))))
    if obs.identifier_prefixes != model.ident:
        bad.append(('ns-identifier-prefixes', '-', ','.join(obs.identifier_prefixes),
                    'namespace says c:identifier-prefixes=%r, expected %r' % (
                        ','.join(obs.identifier_prefixes), ','.join(model.ident))))

    def pl(d):
        return '%s/%s/%s' % (d['tag'], d['owner'] or '-', d['name'])

    # ---- C symbols: uniqueness, moved-to copies ------------------------------------
    by_ident = {}
    for d in obs.symdefs:
        by_ident.setdefault(d['cident'], []).append(d)
    primaries = {}
    for cid, ds in sorted(by_ident.items()):
        prim = [d for d in ds if d['moved_to'] is None]
        copies = [d for d in ds if d['moved_to'] is not None]
        if len(prim) > 1:
            bad.append(('duplicate', cid, ','.join(sorted(pl(d) for d in prim)),
                        'C identifier %s is described %d times without moved-to: %s' % (
                            cid, len(prim), [(d['tag'], d['owner'], d['name']) for d in prim])))
        if not prim:
            bad.append(('orphan-copy', cid, ','.join(sorted(pl(d) for d in copies)),
                        'C identifier %s only appears as moved-to copies' % cid))
            continue
        primaries[cid] = prim[0]
        p = prim[0]
        qual = p['name'] if p['owner'] is None else '%s.%s' % (p['owner'], p['name'])
        for c in copies:
            if c['moved_to'] != qual:
                bad.append(('moved-to', cid, '%s->%s' % (pl(c), c['moved_to']),
                            'copy of %s says moved-to=%r but the described element is %r' % (cid, c['moved_to'], qual)))
    # ---- C types / constants: uniqueness ----------------------------------------------
    by_type = {}
    for d in obs.typedefs:
        if d['ctype'] is not None:
            by_type.setdefault(d['ctype'], []).append(d)
    for ct, ds in sorted(by_type.items()):
        if len(ds) > 1:
            bad.append(('duplicate', ct, ','.join(sorted('%s/%s' % (d['tag'], d['name']) for d in ds)),
                        'C type %s is described %d times: %s' % (ct, len(ds), [(d['tag'], d['name']) for d in ds])))
    by_const = {}
    for d in obs.consts:
        by_const.setdefault(d['cname'], []).append(d)
    for cn, ds in sorted(by_const.items()):
        if len(ds) > 1:
            bad.append(('duplicate', cn, 'constant x%d' % len(ds), 'constant %s is described %d times' % (cn, len(ds))))

    # ---- expected types ------------------------------------------------------------
    for cname, t in sorted(model.types.items()):
        ds = by_type.get(cname, [])
        if not ds:
            bad.append(('missing-type', cname, '-', 'type %s is not described (expected <%s name=%s>)' % (
                cname, '|'.join(sorted(t['tags'])), '|'.join(t['names']))))
            continue
        d = ds[0]
        if not d['toplevel']:
            bad.append(('type-nesting', cname, d['tag'], 'type %s is described inside another element' % cname))
        if d['name'] not in t['names']:
            bad.append(('type-name', cname, str(d['name']),
                        'type %s is named %r, expected %s' % (cname, d['name'], '|'.join(t['names']))))
        if d['tag'] not in t['tags']:
            bad.append(('type-kind', cname, d['tag'],
                        'type %s is a <%s>, expected one of %s' % (cname, d['tag'], sorted(t['tags']))))
    # ---- enum members ----------------------------------------------------------------
    for cname, mem in sorted(model.members.items()):
        for m in mem:
            ds = by_ident.get(m, [])
            if len(ds) != 1 or ds[0]['tag'] != 'member':
                bad.append(('member', m, 'x%d' % len(ds), 'enum member %s of %s described %d times' % (m, cname, len(ds))))
            elif ds[0]['owner'] not in model.types[cname]['names']:
                bad.append(('member-owner', m, str(ds[0]['owner']), 'enum member %s is under %r' % (m, ds[0]['owner'])))
    # ---- constants -------------------------------------------------------------------
    for cname, c in sorted(model.consts.items()):
        ds = by_const.get(cname, [])
        if not ds:
            bad.append(('missing-const', cname, '-', 'constant %s is not described' % cname))
            continue
        if ds[0]['name'] not in c['names'] or not ds[0]['toplevel']:
            bad.append(('const-name', cname, str(ds[0]['name']),
                        'constant %s is named %r, expected %s' % (cname, ds[0]['name'], '|'.join(c['names']))))
    # ---- get-type functions folded into the registered type ---------------------------
    for g, f in sorted(model.folded.items()):
        if g in by_ident:
            bad.append(('not-folded', g, ','.join(sorted(pl(d) for d in by_ident[g])),
                        'get-type function %s of registered type %s is still described as %s' % (
                            g, f['gtype'], [(d['tag'], d['owner'], d['name']) for d in by_ident[g]])))
        hits = [x for x in obs.get_types if x[0] == g]
        if len(hits) != 1:
            bad.append(('get-type', g, 'x%d' % len(hits),
                        'get-type function %s is referenced by %d type elements' % (g, len(hits))))
        elif hits[0][2] not in f['names'] or not hits[0][3]:
            bad.append(('get-type-owner', g, str(hits[0][2]), 'get-type function %s is attached to %r, expected %s' % (
                g, hits[0][2], '|'.join(f['names']))))
    # ---- functions ---------------------------------------------------------------------
    for cname, f in sorted(model.funcs.items()):
        p = primaries.get(cname)
        if p is None:
            if cname not in by_ident:
                bad.append(('missing-func', cname, '-', 'function %s is not described' % cname))
            continue
        if p['tag'] not in ('function', 'method', 'constructor'):
            bad.append(('func-kind', cname, p['tag'], 'function %s is described as <%s>' % (cname, p['tag'])))
            continue
        for c in by_ident.get(cname, []):
            if c['moved_to'] is not None and c['tag'] != 'function':
                if c['tag'] != 'method' or not model.method_copy_ok(cname, c['owner']):
                    bad.append(('copy-kind', cname, pl(c), 'compatibility copy of %s is a <%s> of %s, but the function does not '
                                'take that type first or does not start with its prefix' % (cname, c['tag'], c['owner'])))
        if f['placements'] is None:
            continue
        got = (p['tag'], p['owner'], p['name'])
        if got not in [tuple(x) for x in f['placements']]:
            bad.append(('placement', cname, pl(p), 'function %s is described as %s, expected %s [%s]' % (
                cname, fmt_pl(got), ' or '.join(fmt_pl(x) for x in f['placements']), f['why'])))
    # ---- things that must be left out, and the frame -----------------------------------
    for cname, why in sorted(model.absent.items()):
        if cname in by_ident or cname in by_type or cname in by_const:
            bad.append(('not-left-out', cname, 'described', '%s (%s) is described' % (cname, why)))
    allowed_idents = set(model.funcs) | set(m for ms in model.members.values() for m in ms)
    for cid in sorted(by_ident):
        if cid not in allowed_idents and cid not in model.absent and cid not in model.folded:
            bad.append(('frame', cid, 'identifier', 'unexpected C identifier %s in the GIR' % cid))
    allowed_types = set(model.types) | set(model.opt_types) | set(model.registered)
    for ct in sorted(by_type):
        if ct not in allowed_types and ct not in model.absent:
            bad.append(('frame', ct, 'type', 'unexpected C type %s in the GIR' % ct))
    for cn in sorted(by_const):
        if cn not in model.consts and cn not in model.absent:
            bad.append(('frame', cn, 'constant', 'unexpected constant %s in the GIR' % cn))
    return bad


def fmt_pl(p):
    tag, owner, name = p
    return '<%s name=%s>%s' % (tag, name, (' in ' + owner) if owner else ' at top level')
