"""Block model, renderer, reference reader and `abstract` view for GTK-Doc comment blocks.

Shared by vt/checks/c10.py (well-formed blocks are parsed exactly) and vt/checks/c11.py
(malformed blocks: no abort, diagnostics point at the source).

Nothing in here is derived from giscanner/annotationparser.py: the annotation vocabulary is
transcribed from docs/website/annotations/giannotations.rst, the block grammar from
docs/website/annotations/gtkdoc.rst and the grammar description in the module docstring of
annotationparser.py ("GTK-Doc comment block format").  The implementation is only *called*
(`parse`, `parse_many`, `write`) and its result tree is read by `abstract`.

Model (JSON-able):

    {'ident':  [kind, a, b]              kind in symbol|property|signal|field|section|action
     'ann':    [[name, opts], ...]       opts: None | ['list', [..]] | ['dict', [[k, v|None], ..]] | ['raw', 'text']
     'params': [{'name': n, 'ann': [...], 'desc': [[word, ..], ..]}]          desc = lines of words
     'desc':   [[[indent, [word, ..]], ..], ..]                               paragraphs of lines
     'tags':   [{'name': 'returns'|'since'|'deprecated'|'stability', 'ann': [...], 'value': str|None,
                 'desc': [[[word, ..], ..], ..]}]}                            paragraphs of lines

Abstract view (what `abstract(block)`, `expected(model, layout)`, `ref_parse(text)` and
`tree2abs(upstream xml)` all produce):

    {'name': str, 'ann': [[name, opts]], 'params': [[name, ann, desc|None]], 'desc': str|None,
     'tags': [[name, ann, value|None, desc|None]]}
"""
import glob
import io
import itertools
import os
import re
import xml.etree.ElementTree as ET

from vt.core import REPO
from vt.scan import fake  # noqa: F401  (installs the stub C module)
from vt.scan.run import RecLogger

from giscanner import annotationparser as AP
from giscanner import message

# --------------------------------------------------------------------------------------
# Annotation vocabulary, transcribed from giannotations.rst ("Applies to" column):
# I = identifier, P = parameter, R = return value.
# Each entry: name -> (kind, [(positions, options, documented)]).  kind 'list' = positional
# options, 'dict' = key[=value] options.  `documented` False marks shapes the documentation
# does not spell out (diagnostics then UNSPECIFIED; the parse tree is still MUST).
# --------------------------------------------------------------------------------------
I, P, R = 'I', 'P', 'R'


def _l(*o):
    return ['list', list(o)] if o else None


def _d(*kv):
    return ['dict', [list(p) for p in kv]] if kv else None


VOCAB = {
    'skip': ('list', [('IPR', None, True)]),
    'rename-to': ('list', [('I', _l('other_name'), True)]),
    'transfer': ('list', [('IPR', _l('none'), True), ('IPR', _l('container'), True),
                          ('IPR', _l('full'), True), ('IPR', _l('floating'), True)]),
    'constructor': ('list', [('I', None, True)]),
    'method': ('list', [('I', None, True)]),
    'virtual': ('list', [('I', _l('some_slot'), True)]),
    'set-property': ('list', [('I', _l('some-prop'), True)]),
    'get-property': ('list', [('I', _l('some-prop'), True)]),
    'setter': ('list', [('I', _l('foo_bar_set'), True)]),
    'getter': ('list', [('I', _l('foo_bar_get'), True)]),
    'emitter': ('list', [('I', _l('foo_bar_emit'), True)]),
    'default-value': ('list', [('I', _l('42'), True), ('I', _l('some', 'value'), False)]),
    'destroy': ('list', [('P', _l('notify'), True)]),
    'closure': ('list', [('P', None, True), ('P', _l('user_data'), True)]),
    'ref-func': ('list', [('I', _l('foo_bar_ref'), True)]),
    'unref-func': ('list', [('I', _l('foo_bar_unref'), True)]),
    'get-value-func': ('list', [('I', _l('foo_bar_get_value'), True)]),
    'set-value-func': ('list', [('I', _l('foo_bar_set_value'), True)]),
    'copy-func': ('list', [('I', _l('foo_bar_copy'), True)]),
    'free-func': ('list', [('I', _l('foo_bar_free'), True)]),
    'nullable': ('list', [('PR', None, True)]),
    'not': ('list', [('PR', _l('nullable'), True), ('P', _l('optional'), True)]),
    'optional': ('list', [('P', None, True)]),
    'in': ('list', [('P', None, True)]),
    'out': ('list', [('P', None, True), ('P', _l('caller-allocates'), True), ('P', _l('callee-allocates'), True)]),
    'inout': ('list', [('P', None, True)]),
    'type': ('list', [('IPR', _l('utf8'), True), ('IPR', _l('GLib.List(utf8)'), False),
                      ('IPR', _l('GLib.HashTable(utf8,gint)'), False)]),
    'array': ('dict', [('PR', None, True), ('PR', _d(('fixed-size', '4')), True), ('PR', _d(('length', 'n')), True),
                       ('PR', _d(('zero-terminated', '1')), True),
                       ('PR', _d(('length', 'n'), ('zero-terminated', '1')), True),
                       ('PR', _d(('zero-terminated', None)), False)]),
    'element-type': ('list', [('PR', _l('utf8'), True), ('PR', _l('utf8', 'gint'), True)]),
    'foreign': ('list', [('I', None, True)]),
    'sync-func': ('list', [('I', _l('foo_bar_sync'), True)]),
    'async-func': ('list', [('I', _l('foo_bar_async'), True)]),
    'finish-func': ('list', [('I', _l('foo_bar_finish'), True)]),
    'scope': ('list', [('P', _l('call'), True), ('P', _l('async'), True), ('P', _l('notified'), True),
                       ('P', _l('forever'), True)]),
    'value': ('list', [('I', _l('5'), True)]),
    'attributes': ('dict', [('IPR', _d(('my.key', 'val')), True), ('IPR', _d(('my.key', 'val'), ('my.key2', None)), True),
                            ('IPR', _d(('my.key2', None)), True),
                            # free-form values: '=' and other punctuation inside a value belong to the value
                            ('IPR', _d(('doc.link', 'https://x/?id=42'), ('blob', 'QQ==')), False),
                            ('IPR', _d(('my.key', 'a=b'), ('my.key2', None), ('k3', 'x:y,z+1-2.5/6?7')), False),
                            ('IPR', _d(('k', '=')), False)]),
    # documented as deprecated ("Replaced by (nullable) and (optional)"): whether the parser
    # complains is not fixed by the documentation
    'allow-none': ('list', [('PR', None, False)]),
}
assert len(VOCAB) == 37

# unknown annotation names (in the property's quantifier); options are an opaque string
UNKNOWN = [('frob', None), ('frob', ['raw', 'one']), ('frob', ['raw', 'one two']), ('x-files', ['raw', 'k=v']),
           ('x-files', ['raw', 'k=v=w a:b,c/d?e'])]

# characters that str.splitlines() treats as line boundaries but that are NOT line endings of a
# comment (lines end with \n, \r\n or \r): inside a line they are ordinary text
ODD_SEPARATORS = ['\x0b', '\x0c', '\x1c', '\x1d', '\x1e', '\x85', '\u2028', '\u2029']

# names the documentation lists as deprecated / never generated by the model
DEPRECATED_ANN = ('attribute', 'in-out', 'null-ok')

TAGS = ('returns', 'since', 'deprecated', 'stability')
# tag-looking line starts that are not one of the four documented tags (deprecated tag forms)
OLD_TAGS = ('description', 'return value', 'return', 'returns value', 'attributes', 'get value func', 'ref func',
            'rename to', 'set value func', 'transfer', 'type', 'unref func', 'value', 'virtual')
OLD_ANN_TAGS = OLD_TAGS[4:]
_OLD_TAG_RE = re.compile(r'^\s*(%s)\s*:' % '|'.join(t.replace(' ', r'\s') for t in OLD_TAGS), re.I)
_OLD_ANN_TAG_RE = re.compile(r'^\s*(%s)\s*:' % '|'.join(t.replace(' ', r'\s') for t in OLD_ANN_TAGS), re.I)
_TAG_RE = re.compile(r'^(\s*)(returns|since|deprecated|stability)\s*:(.*)$', re.I)
_LINE_SPLIT = re.compile(r'\r\n|\r|\n')


def annotation_menu(position):
    """[(name, opts, documented-valid-at-this-position)] for one position, every name and shape."""
    out = []
    for name in sorted(VOCAB):
        kind, shapes = VOCAB[name]
        for pos, opts, doc in shapes:
            out.append((name, opts, doc and position in pos))
    for name, opts in UNKNOWN:
        out.append((name, opts, False))
    return out


# --------------------------------------------------------------------------------------
# Layout dimensions
# --------------------------------------------------------------------------------------
DIMS = {
    'indent': ['', ' ', '   ', '\t'],           # in front of the asterisk
    'eol': ['\n', '\r\n', '\r'],
    'ann': ['inline', 'cont', 'cont_rest'],       # all on the part's line / one per following line / first inline
    'wrap': ['none', 'words', 'next'],            # description lines as in the model / one word per line / starts on next line
    'colon': ['std', 'alt'],                      # optional colons present or absent
    'blank': ['min', 'extra'],                    # optional blank lines absent or present
    'tagcase': ['cap', 'lower', 'upper'],
    'gap': [1, 2],                                # blanks after a delimiter / between annotations
    'end': ['*/', '**/'],                         # end token: one or more asterisks and a slash
}
DIM_ORDER = ['indent', 'eol', 'ann', 'wrap', 'colon', 'blank', 'tagcase', 'gap', 'end']
DEFAULT_LAYOUT = {'indent': ' ', 'eol': '\n', 'ann': 'inline', 'wrap': 'none', 'colon': 'std', 'blank': 'extra',
                  'tagcase': 'cap', 'gap': 1, 'end': '*/'}


def all_layouts(dims=None):
    dims = dims or DIM_ORDER
    for combo in itertools.product(*[DIMS[d] for d in dims]):
        lay = dict(DEFAULT_LAYOUT)
        lay.update(zip(dims, combo))
        yield lay


def one_dim_layouts():
    """The default layout plus every layout differing from it in one dimension (covering menu)."""
    out = [dict(DEFAULT_LAYOUT)]
    for d in DIM_ORDER:
        for v in DIMS[d]:
            if v != DEFAULT_LAYOUT[d]:
                lay = dict(DEFAULT_LAYOUT)
                lay[d] = v
                out.append(lay)
    return out


# --------------------------------------------------------------------------------------
# Rendering
# --------------------------------------------------------------------------------------
def ann_text(a):
    name, opts = a
    if opts is None:
        return '(%s)' % name
    if opts[0] == 'list':
        return '(%s %s)' % (name, ' '.join(opts[1]))
    if opts[0] == 'dict':
        return '(%s %s)' % (name, ' '.join(k if v is None else '%s=%s' % (k, v) for k, v in opts[1]))
    return '(%s %s)' % (name, opts[1])


def ident_text(ident):
    kind, a, b = ident
    return {'symbol': '%s', 'property': '%s:%s', 'signal': '%s::%s', 'field': '%s.%s', 'section': 'SECTION:%s',
            'action': '%s|%s'}[kind] % ((a,) if kind in ('symbol', 'section') else (a, b))


def ident_name(ident):
    """The name by which the block is known (for actions see abstract())."""
    kind, a, b = ident
    if kind == 'action':
        return 'ACTION:%s:%s' % (a, b)
    return ident_text(ident)


def _desc_lines(lines, lay):
    """Model description lines (lists of words) -> text lines under the wrap dimension."""
    if lay['wrap'] == 'words':
        return [w for ln in lines for w in ln]
    return [' '.join(ln) for ln in lines]


def _part_lines(head, anns, value, paragraphs, lay, ident=False):
    """Content lines (text after the asterisk and one blank) of an identifier/parameter/tag part.
    Returns (lines, index of the line holding the annotation field start)."""
    gap = ' ' * lay['gap']
    wrap = lay['wrap']
    first_par = _desc_lines(paragraphs[0], lay) if paragraphs else []
    rest = []
    for par in paragraphs[1:]:
        rest.append('')
        rest.extend(_desc_lines(par, lay))
    atexts = [ann_text(a) for a in anns]
    out = []
    if ident:
        if not atexts:
            return [head if lay['colon'] == 'alt' else head + ':'], 0
        if lay['ann'] == 'inline' or (lay['ann'] == 'cont_rest' and len(atexts) == 1):
            return [head + ':' + gap + gap.join(atexts) + (':' if lay['colon'] == 'alt' else '')], 0
        if lay['ann'] == 'cont':
            return [head + ':'] + ['  ' + t for t in atexts], 0
        return [head + ':' + gap + atexts[0]] + ['  ' + t for t in atexts[1:]], 0
    # parameter / tag: head already carries its colon
    inline_desc = first_par[:1] if wrap != 'next' else []
    more_desc = first_par[1:] if wrap != 'next' else ['  ' + ln for ln in first_par]
    if wrap == 'next':
        rest = [('  ' + ln) if ln else ln for ln in rest]
    tail = ''                      # what follows the annotation field
    if value is not None:
        tail = value
        if inline_desc:
            tail += ':' + gap + inline_desc[0]
        elif first_par and wrap == 'next':
            tail += ':'
    elif inline_desc:
        tail = inline_desc[0]
    if not atexts:
        line = head + ((gap + tail) if tail else '')
        return [line] + more_desc + rest, 0
    need_colon = bool(tail) or (wrap == 'next' and bool(first_par)) or lay['colon'] == 'alt'
    after = (':' if need_colon else '') + ((gap + tail) if tail else '')
    if lay['ann'] == 'inline' or (lay['ann'] == 'cont_rest' and len(atexts) == 1):
        out = [head + gap + gap.join(atexts) + after]
    elif lay['ann'] == 'cont':
        out = [head] + ['  ' + t for t in atexts]
        out[-1] += after
    else:
        out = [head + gap + atexts[0]] + ['  ' + t for t in atexts[1:]]
        out[-1] += after
    return out + more_desc + rest, 0


def tag_head(name, lay):
    return {'cap': name.capitalize(), 'lower': name, 'upper': name.upper()}[lay['tagcase']] + ':'


def content_lines(model, lay):
    """The block's lines without comment decoration; also returns a map part -> first line index."""
    lines = []
    where = {}
    ident = model['ident']
    annotatable = ident[0] not in ('section', 'action')
    pl, _ = _part_lines(ident_text(ident), model.get('ann', []) if annotatable else [], None, [], lay, ident=True)
    if not annotatable:
        pl = [ident_text(ident) + (':' if (ident[0] == 'action' and lay['colon'] == 'alt') else '')]
    where['ident'] = len(lines)
    lines += pl
    for i, p in enumerate(model.get('params', [])):
        where['param%d' % i] = len(lines)
        pl, _ = _part_lines('@%s:' % p['name'], p.get('ann', []), None, [p['desc']] if p.get('desc') else [], lay)
        lines += pl
    if model.get('desc'):
        lines.append('')
        if lay['blank'] == 'extra':
            lines.append('')
        where['desc'] = len(lines)
        for j, par in enumerate(model['desc']):
            if j:
                lines.append('')
            for indent, words in par:
                if lay['wrap'] == 'words' and not indent:
                    lines += list(words)
                else:
                    lines.append(' ' * indent + ' '.join(words))
    for i, t in enumerate(model.get('tags', [])):
        if lay['blank'] == 'extra':
            lines.append('')
        where['tag%d' % i] = len(lines)
        pl, _ = _part_lines(tag_head(t['name'], lay), t.get('ann', []), t.get('value'), t.get('desc') or [], lay)
        lines += pl
    if lay['blank'] == 'extra':
        lines.append('')
    return lines, where


def decorate(lines, lay):
    """Content lines -> full comment text with start/end tokens and line endings."""
    ind = lay['indent']
    if ind.endswith('\t'):
        start, pre = ind, ind + ' '
    else:
        start, pre = ind[:-1], ind
    out = [start + '/**']
    for ln in lines:
        out.append(pre + '*' + ((' ' + ln) if ln else ''))
    out.append(pre + lay.get('end', '*/'))
    return lay['eol'].join(out)


def render(model, lay):
    lines, _ = content_lines(model, lay)
    return decorate(lines, lay)


# --------------------------------------------------------------------------------------
# Expected abstract view of a model
# --------------------------------------------------------------------------------------
def _join_desc(paragraphs, lay):
    if not paragraphs:
        return None
    ind = '  ' if lay['wrap'] == 'next' else ''
    out = []
    for j, par in enumerate(paragraphs):
        if j:
            out.append('')
        out += _desc_lines(par, lay)
    text = ('\n' + ind).join(out) if ind else '\n'.join(out)
    if ind:
        text = '\n'.join(ln.rstrip() for ln in text.split('\n'))
    return text or None


def expected(model, lay):
    ident = model['ident']
    annotatable = ident[0] not in ('section', 'action')
    out = {'name': ident_name(ident),
           'ann': [[a[0], a[1]] for a in model.get('ann', [])] if annotatable else [],
           'params': [], 'desc': None, 'tags': []}
    for p in model.get('params', []):
        out['params'].append([p['name'], [[a[0], a[1]] for a in p.get('ann', [])],
                              _join_desc([p['desc']] if p.get('desc') else [], lay)])
    if model.get('desc'):
        lines = []
        for j, par in enumerate(model['desc']):
            if j:
                lines.append('')
            for indent, words in par:
                if lay['wrap'] == 'words' and not indent:
                    lines += list(words)
                else:
                    lines.append(' ' * indent + ' '.join(words))
        out['desc'] = '\n'.join(lines)
    for t in model.get('tags', []):
        out['tags'].append([t['name'], [[a[0], a[1]] for a in t.get('ann', [])], t.get('value'),
                            _join_desc(t.get('desc') or [], lay)])
    return out


def diag_free(model):
    """True iff the documentation makes every annotation of the model valid where it stands
    (then no diagnostic may be logged)."""
    def ok(anns, pos):
        for name, opts in anns:
            if name not in VOCAB:
                return False
            if not any(doc and pos in p and o == opts for p, o, doc in VOCAB[name][1]):
                return False
        # the documentation describes (nullable)/(not nullable) and (optional)/(not optional) as opposites
        names = [a[0] for a in anns]
        if len(set(names)) != len(names):
            return False
        if 'not' in names and ('nullable' in names or 'optional' in names or 'allow-none' in names):
            return False
        return True
    if not ok(model.get('ann', []), I):
        return False
    for p in model.get('params', []):
        if not ok(p.get('ann', []), P):
            return False
    names = [p['name'] for p in model.get('params', [])]
    if len(set(names)) != len(names):
        return False
    for t in model.get('tags', []):
        if t.get('ann') and t['name'] != 'returns':
            return False
        if not ok(t.get('ann', []), R):
            return False
    return True


# --------------------------------------------------------------------------------------
# Abstract view of a parsed block (reads the implementation's tree, nothing else)
# --------------------------------------------------------------------------------------
def _opt_view(name, opts):
    if not opts:
        return None
    if isinstance(opts, dict):
        return ['dict', [[k, v] for k, v in opts.items()]]
    if isinstance(opts, (list, tuple)):
        if name in VOCAB and VOCAB[name][0] == 'list':
            return ['list', [str(o) for o in opts]]
        return ['raw', ' '.join(str(o) for o in opts)]
    return ['raw', str(opts)]


def _ann_view(anns):
    return [[name, _opt_view(name, opts)] for name, opts in anns.items()]


def _txt(s):
    if s is None or s == '' or (isinstance(s, str) and not s.strip()):
        return None
    return s


def abstract(block):
    if block is None:
        return None
    out = {'name': block.name, 'ann': _ann_view(block.annotations), 'params': [], 'desc': _txt(block.description),
           'tags': []}
    for key, p in block.params.items():
        name = p.name if p.name == key else '%s!=%s' % (key, p.name)
        out['params'].append([name, _ann_view(p.annotations), _txt(p.description)])
    for key, t in block.tags.items():
        name = t.name if t.name == key else '%s!=%s' % (key, t.name)
        out['tags'].append([name, _ann_view(t.annotations), _txt(t.value), _txt(t.description)])
    return out


def lstrip_descs(view):
    """Leading white space of parameter/tag descriptions is a layout artefact when the
    description starts on the line after the part (documented grammar says nothing): drop it."""
    if view is None:
        return None
    v = {'name': view['name'], 'ann': view['ann'], 'desc': view['desc'],
         'params': [[n, a, d.lstrip() if d else d] for n, a, d in view['params']],
         'tags': [[n, a, val, d.lstrip() if d else d] for n, a, val, d in view['tags']]}
    return v


# --------------------------------------------------------------------------------------
# Running the implementation
# --------------------------------------------------------------------------------------
def _class_state(cls):
    return dict((k, v) for k, v in vars(cls).items() if isinstance(v, (dict, list, set)) and not k.startswith('__'))


# mutable class-level attributes of the message classes as they are right after import: restored before
# every execution, so that executions are independent of each other whatever such state exists
_PRISTINE = [(c, dict((k, type(v)(v)) for k, v in _class_state(c).items()))
             for c in (message.Position, message.MessageLogger)]


def reset_class_state():
    for cls, saved in _PRISTINE:
        for k, v in _class_state(cls).items():
            if k in saved:
                v.clear()
                (v.update if not isinstance(v, list) else v.extend)(saved[k])
            else:
                v.clear()


def _logger(warnings=True):
    reset_class_state()
    message.MessageLogger._instance = None
    lg = RecLogger(output=io.StringIO())
    lg.enable_warnings(warnings)
    message.MessageLogger._instance = lg
    return lg


def parse(text, filename='/src/foo.c', lineno=100, warnings=True):
    """parse_comment_block on one comment.  -> (block|None, records, exception|None)"""
    lg = _logger(warnings)
    try:
        b = AP.GtkDocCommentBlockParser().parse_comment_block(text, filename, lineno)
        exc = None
    except Exception as e:   # noqa - observed, judged by the caller
        b, exc = None, '%s: %s' % (type(e).__name__, e)
    finally:
        message.MessageLogger._instance = None
    return b, lg.records, exc


def parse_many(comments, warnings=True, cwd=None):
    """parse_comment_blocks on [(text, file, line)].  -> (dict|None, records, count, output, exception|None)
    With `cwd` the process (and therefore the logger, which reads os.getcwd()) works in that directory."""
    old = os.getcwd()
    if cwd is not None:
        os.chdir(cwd)
    try:
        return _parse_many(comments, warnings)
    finally:
        if cwd is not None:
            os.chdir(old)


def printed_locations(output):
    """[(path as printed, line, 'Warning'|'Error')] of the diagnostics in a logger's output text."""
    return [(m.group(1), int(m.group(2)), m.group(3))
            for m in re.finditer(r'^(.*?):(\d+): (Warning|Error): ', output, re.M)]


def names_file(printed, cwd, filename):
    """Does the printed path, read relative to the logger's working directory, name `filename`?"""
    return os.path.realpath(os.path.join(cwd, printed)) == os.path.realpath(filename)


def _parse_many(comments, warnings=True):
    lg = _logger(warnings)
    try:
        blocks = AP.GtkDocCommentBlockParser().parse_comment_blocks(list(comments))
        exc = None
    except Exception as e:   # noqa
        blocks, exc = None, '%s: %s' % (type(e).__name__, e)
    finally:
        message.MessageLogger._instance = None
    return blocks, lg.records, lg.get_warning_count(), lg._output.getvalue(), exc


def write(block, indent=True):
    return AP.GtkDocCommentBlockWriter(indent=indent).write(block)


# --------------------------------------------------------------------------------------
# Reference reader for the documented (well-formed) grammar.  Returns the abstract view, or
# None when the text is outside the language the block model can express.
# --------------------------------------------------------------------------------------
class _Outside(Exception):
    pass


def split_groups(s):
    """Split a leading annotation field off `s`.

    -> ('ok', [content, ..], rest)   balanced groups '(..)' separated by blanks, then `rest`
       ('reject', why, None)         unbalanced, doubled '((' or empty '()' parentheses
    """
    i, n = 0, len(s)
    groups = []
    while True:
        while i < n and s[i].isspace():
            i += 1
        if i >= n or s[i] != '(':
            break
        depth, j = 0, i
        while j < n:
            c = s[j]
            if c == '(':
                if j > i and s[j - 1] == '(':
                    return ('reject', 'doubled', None)
                depth += 1
            elif c == ')':
                if s[j - 1] == '(':
                    return ('reject', 'empty', None)
                depth -= 1
                if depth == 0:
                    break
            j += 1
        if depth != 0:
            return ('reject', 'unclosed', None)
        groups.append(s[i + 1:j])
        i = j + 1
    if i < n and s[i] == ')':
        return ('reject', 'unopened', None)
    return ('ok', groups, s[i:])


def _ref_ann(content):
    if content != content.strip() or '  ' in content or not content or '<' in content or '>' in content \
            or '\t' in content:
        raise _Outside('annotation tokens not separated by single blanks')
    toks = content.split(' ')
    name = toks[0]
    if name != name.lower() or name in DEPRECATED_ANN:
        raise _Outside('annotation name')
    opts = toks[1:]
    if name in VOCAB:
        if VOCAB[name][0] == 'list':
            if any('=' in o for o in opts):
                raise _Outside('key=value given to a list annotation')
            return [name, ['list', opts] if opts else None]
        return [name, ['dict', [[o.split('=', 1)[0], o.split('=', 1)[1] if '=' in o else None] for o in opts]]
                if opts else None]
    return [name, ['raw', ' '.join(opts)] if opts else None]


def _ref_fields(fields, allow_desc=True):
    """annotation field + description of a parameter/tag line -> (anns, desc-text, had_fields)"""
    st = split_groups(fields)
    if st[0] != 'ok':
        raise _Outside('parentheses')
    _, groups, rest = st
    anns = [_ref_ann(g) for g in groups]
    names = [a[0] for a in anns]
    if len(set(names)) != len(names):
        raise _Outside('duplicate annotation')
    rest = rest.strip()
    if groups:
        if rest.startswith(':'):
            rest = rest[1:]
        elif rest:
            raise _Outside('missing colon')
    elif rest.startswith(':'):
        raise _Outside('stray colon')
    if rest.strip().startswith('('):
        raise _Outside('description begins with a parenthesis')
    if rest.strip() and not allow_desc:
        raise _Outside('text after identifier annotations')
    return anns, rest


_IDENT_RES = [
    ('section', re.compile(r'^SECTION:\s*(\w\S+?)$')),
    ('action', re.compile(r'^(\w+)\|([\w-]+\.[\w-]+)(:?)$')),
    ('property', re.compile(r'^(\w+):([\w-]*\w)(?=$|:|\s)(.*)$')),
    ('signal', re.compile(r'^(\w+)::([\w-]*\w)(?=$|:|\s)(.*)$')),
    ('field', re.compile(r'^(\w+)\.([\w-]*\w)(?=$|:|\s)(.*)$')),
    ('symbol', re.compile(r'^([\w-]*\w)(?=$|:|\s)(.*)$')),
]


def ref_parse(text):
    try:
        return _ref_parse(text)
    except _Outside:
        return None


def _ref_parse(text):
    raw = _LINE_SPLIT.split(text)
    if len(raw) < 3 or not re.match(r'^\s*/\*\*$', raw[0]) or not re.match(r'^\s*\*+/$', raw[-1]):
        raise _Outside('tokens')
    lines = []
    for ln in raw[1:-1]:
        m = re.match(r'^\s*\*(?:\s(.*))?$', ln)
        if not m:
            raise _Outside('line without asterisk')
        c = (m.group(1) or '').rstrip()
        if not c and len(m.group(1) or '') > 0:
            raise _Outside('blank line with trailing white space')
        if '*/' in c or '/*' in c:
            raise _Outside('comment tokens in text')
        lines.append(c)
    if not lines:
        raise _Outside('no identifier')
    # ---- identifier
    first = lines[0].strip()
    out = None
    for kind, rx in _IDENT_RES:
        m = rx.match(first)
        if not m:
            continue
        if kind == 'section':
            out = {'name': 'SECTION:%s' % m.group(1), 'ann': []}
        elif kind == 'action':
            out = {'name': 'ACTION:%s:%s' % (m.group(1), m.group(2)), 'ann': []}
        else:
            if kind == 'symbol':
                name, rest = m.group(1), m.group(2)
            else:
                name = {'property': '%s:%s', 'signal': '%s::%s', 'field': '%s.%s'}[kind] % (m.group(1), m.group(2))
                rest = m.group(3)
            rest = rest.strip()
            anns = []
            if rest:
                if not rest.startswith(':'):
                    raise _Outside('identifier without delimiter')
                rest = rest[1:].strip()
                if rest.endswith(':'):
                    rest = rest[:-1]
                anns, _ = _ref_fields(rest, allow_desc=False)
            out = {'name': name, 'ann': anns}
        break
    if out is None:
        raise _Outside('identifier')
    annotatable = not out['name'].startswith(('SECTION:', 'ACTION:'))
    out.update({'params': [], 'desc': None, 'tags': []})
    state = 'head'                 # head (identifier + parameters) | desc | tags
    cur = None                     # ['param'|'tag', entry, desc-lines, had_fields]
    part_indent = len(lines[0]) - len(lines[0].lstrip())
    desc_lines = None

    def indent_of(s):
        return len(s) - len(s.lstrip())

    def close():
        if cur is None:
            return
        kind, entry, dl, _ = cur
        txt = '\n'.join(dl).strip() if dl else ''
        entry[-1] = txt or None

    def ann_names(lst):
        return [a[0] for a in lst]

    for ln in lines[1:]:
        s = ln.strip()
        if _OLD_TAG_RE.match(ln) and not _TAG_RE.match(ln) and indent_of(ln) <= part_indent:
            raise _Outside('deprecated tag')
        mt = _TAG_RE.match(ln)
        mp = re.match(r'^@([\w-]*\w|\.\.\.)\s*:(.*)$', s)
        if s.startswith('@') and not mp and re.match(r'^@\S*\.\.\.', s):
            raise _Outside('named varargs')
        if mp:
            if state != 'head':
                raise _Outside('parameter line')
            close()
            pname = mp.group(1)
            if pname.lower() == 'returns' or pname == 'Varargs' or pname in [p[0] for p in out['params']]:
                raise _Outside('parameter name')
            anns, d = _ref_fields(mp.group(2))
            entry = [pname, anns, None]
            out['params'].append(entry)
            cur = ['param', entry, [d.strip()] if d.strip() else [], bool(mp.group(2).strip())]
            part_indent = indent_of(ln)
            continue
        if not s and state == 'head':
            close()
            cur = None
            state = 'desc'
            desc_lines = []
            part_indent = 0
            continue
        if mt and indent_of(ln) <= part_indent:
            close()
            tname = mt.group(2).lower()
            if tname in [t[0] for t in out['tags']]:
                raise _Outside('duplicate tag')
            state = 'tags'
            fields = mt.group(3).strip()
            part_indent = indent_of(ln)
            if tname == 'returns':
                anns, d = _ref_fields(fields)
                entry = [tname, anns, None, None]
                cur = ['tag', entry, [d.strip()] if d.strip() else [], bool(fields)]
            else:
                if fields.startswith('('):
                    raise _Outside('annotations on a value tag')
                if tname == 'stability':
                    mv = re.match(r'^(stable|unstable|private|internal)?\s*(:?)\s*(.*)$', fields, re.I)
                    val = (mv.group(1) or '').capitalize()
                else:
                    mv = re.match(r'^([0-9.]*)\s*(:?)\s*(.*)$', fields)
                    val = mv.group(1)
                entry = [tname, [], val or None, None]
                d = mv.group(3)
                cur = ['tag', entry, [d.strip()] if d.strip() else [], bool(fields)]
            out['tags'].append(entry)
            continue
        # ---- continuation line
        if state == 'desc':
            desc_lines.append(ln)
            continue
        if state == 'head' and cur is None:
            # continuation of the identifier part: only annotations
            if not annotatable or not s.startswith('('):
                raise _Outside('text in the identifier part')
            if s.endswith(':'):
                raise _Outside('colon on identifier continuation')
            anns, _ = _ref_fields(s, allow_desc=False)
            if set(ann_names(anns)) & set(ann_names(out['ann'])):
                raise _Outside('duplicate annotation')
            out['ann'] += anns
            continue
        kind, entry, dl, had = cur
        if not dl and s.startswith('('):
            if kind == 'tag' and entry[0] != 'returns':
                raise _Outside('annotations on a value tag')
            anns, d = _ref_fields(s)
            if set(ann_names(anns)) & set(ann_names(entry[1])):
                raise _Outside('duplicate annotation')
            entry[1] += anns
            if d.strip():
                dl.append(d.strip())
            cur[3] = True
            continue
        if not s and kind == 'param':
            raise _Outside('blank line in parameter')    # cannot happen in head state (handled above)
        dl.append(ln)
    close()
    if desc_lines is not None:
        out['desc'] = '\n'.join(desc_lines).strip() or None
    out['params'] = [list(p) for p in out['params']]
    out['tags'] = [list(t) for t in out['tags']]
    return out


# --------------------------------------------------------------------------------------
# Upstream's expectation corpus (tests/scanner/annotationparser/{gi,gtkdoc}/**/*.xml)
# --------------------------------------------------------------------------------------
_NS = '{http://schemas.gnome.org/gobject-introspection/2013/test}'


def _fix(s):
    return s.replace('{{?', '<!').replace('}}', '>') if s else s


def _tree_anns(node):
    out = []
    if node is None:
        return out
    for a in node.findall(_NS + 'annotation'):
        name = a.find(_NS + 'name').text
        opts = []
        for o in a.findall(_NS + 'options/' + _NS + 'option'):
            n = o.find(_NS + 'name')
            v = o.find(_NS + 'value')
            opts.append([n.text if n is not None else None, v.text if v is not None else None])
        if not opts:
            view = None
        elif name in VOCAB and VOCAB[name][0] == 'dict':
            view = ['dict', opts]
        elif name in VOCAB:
            view = ['list', [o[0] for o in opts]]
        else:
            view = ['raw', ' '.join(o[0] for o in opts)]
        out.append([name, view])
    return out


def tree2abs(docblock):
    if docblock is None:
        return None
    ident = docblock.find(_NS + 'identifier')
    out = {'name': ident.find(_NS + 'name').text, 'ann': _tree_anns(ident.find(_NS + 'annotations')),
           'params': [], 'desc': None, 'tags': []}
    for p in docblock.findall(_NS + 'parameters/' + _NS + 'parameter'):
        d = p.find(_NS + 'description')
        out['params'].append([p.find(_NS + 'name').text, _tree_anns(p.find(_NS + 'annotations')),
                              _txt(_fix(d.text)) if d is not None else None])
    d = docblock.find(_NS + 'description')
    out['desc'] = _txt(_fix(d.text)) if d is not None else None
    for t in docblock.findall(_NS + 'tags/' + _NS + 'tag'):
        d = t.find(_NS + 'description')
        v = t.find(_NS + 'value')
        out['tags'].append([t.find(_NS + 'name').text, _tree_anns(t.find(_NS + 'annotations')),
                            _txt(v.text) if v is not None else None, _txt(_fix(d.text)) if d is not None else None])
    return out


def coarse(view):
    """Upstream's tree does not distinguish '' from a missing option value."""
    if view is None:
        return None
    def ca(anns):
        return [[n, (['dict', [[k, v or None] for k, v in o[1]]] if o and o[0] == 'dict' else o)] for n, o in anns]
    return {'name': view['name'], 'ann': ca(view['ann']), 'desc': view['desc'],
            'params': [[n, ca(a), d] for n, a, d in view['params']],
            'tags': [[n, ca(a), v, d] for n, a, v, d in view['tags']]}


def corpus():
    """[(file, index, input text, expected abstract|None, [message text], output text|None)]"""
    base = os.path.join(REPO, 'tests', 'scanner', 'annotationparser')
    out = []
    for f in sorted(glob.glob(os.path.join(base, '**', '*.xml'), recursive=True)):
        root = ET.parse(f).getroot()
        for i, t in enumerate(root.findall(_NS + 'test')):
            inp = _fix(t.find(_NS + 'input').text or '')
            exp = tree2abs(t.find(_NS + 'parser/' + _NS + 'docblock'))
            msgs = [(m.text or '').strip() for m in t.findall(_NS + 'parser/' + _NS + 'messages/' + _NS + 'message')]
            o = t.find(_NS + 'output')
            out.append((os.path.relpath(f, base), i + 1, inp, exp, msgs, _fix(o.text) if o is not None else None))
    return out


SEMANTIC_MSG = re.compile(r'(unknown annotation|unexpected annotation|annotation (needs|takes)|invalid "[^"]*" annotation '
                          r'option|annotation option "[^"]*" needs a value|cannot have both)')


DEPRECATED_TAG_FORMS = [('Attributes', '(a b)'), ('Get value func', 'f'), ('Ref func', 'f'), ('Rename to', 'other'),
                        ('Set value func', 'f'), ('Transfer', 'none'), ('Type', 'utf8'), ('Unref func', 'f'),
                        ('Value', '5'), ('Virtual', 'slot')]


def deprecated_tag_blocks():
    """Syntactically ordinary blocks using a deprecated tag-style annotation with NO parameter or
    Returns/Since tag before it: (a) directly after the identifier line, (b) after the description; followed by
    nothing / an empty line / two / a text line / a @param line / another tag.
    -> [(text, {'tag_line': i, 'offending': [i, ..], 'params': [..], 'tags': [..]})]  (0-based line indexes)"""
    followers = [('none', []), ('empty', [' *']), ('empty2', [' *', ' *']), ('text', [' * more text']),
                 ('param', [' * @p: a value']), ('since', [' * Since: 2.0']), ('returns', [' * Returns: a result']),
                 ('empty+text', [' *', ' * more text']), ('empty+since', [' *', ' * Since: 2.0'])]
    out = []
    for tag, val in DEPRECATED_TAG_FORMS:
        for place in ('a', 'b'):
            for fname, flines in followers:
                head = ['/**', ' * foo_bar:']
                if place == 'b':
                    head += [' *', ' * Does things.', ' *']
                lines = head + [' * %s: %s' % (tag, val)] + flines + [' */']
                ti = len(head)
                off = [ti]
                if 'param' in fname:
                    off.append(ti + 1)          # a parameter after the description / a tag is itself misplaced
                out.append(('\n'.join(lines), {'tag_line': ti, 'offending': off,
                                               'params': ['p'] if 'param' in fname else [],
                                               'tags': [t for t in ('since', 'returns') if t in fname]}))
    return out


TAG_LINES = [('Returns: zero on success', ['returns', [], None, 'zero on success']),
             ('returns: zero on success', ['returns', [], None, 'zero on success']),
             ('Since: 2.30', ['since', [], '2.30', None]),
             ('SINCE: 2.30', ['since', [], '2.30', None]),
             ('Deprecated: 2.30: Use other', ['deprecated', [], '2.30', 'Use other']),
             ('Stability: Stable', ['stability', [], 'Stable', None])]


def nested_tag_cases():
    """Continuation lines that begin with a tag word and a colon (upstream's "nested tags").  The rule
    (grammar text of annotationparser.py + upstream's syntax_nested_tags expectations): such a line indented
    DEEPER than the first line of the part it continues is description text of that part; at equal or
    shallower indentation it starts a tag.  -> [(content lines, expected abstract view)]"""
    out = []
    deeper = ['    ', '  ', ' ', '\t']
    for tl, tv in TAG_LINES:
        # --- inside a parameter description (parameter line at indent 0 and at indent 2)
        for pind in ('', '  '):
            for d in deeper:
                ind = pind + d
                out.append((['foo_bar:', pind + '@p: first line', ind + tl, '', 'Does things.'],
                            {'name': 'foo_bar', 'ann': [], 'params': [['p', [], 'first line\n' + ind + tl]],
                             'desc': 'Does things.', 'tags': []}))
            shallow = [pind] if not pind else [pind, ' ', '']        # equal / shallower
            for ind in shallow:
                out.append((['foo_bar:', pind + '@p: first line', ind + tl],
                            {'name': 'foo_bar', 'ann': [], 'params': [['p', [], 'first line']], 'desc': None,
                             'tags': [tv]}))
        # --- inside the block description
        for d in deeper:
            out.append((['foo_bar:', '@p: a value', '', 'Does things:', d + tl, 'and more.'],
                        {'name': 'foo_bar', 'ann': [], 'params': [['p', [], 'a value']],
                         'desc': 'Does things:\n' + d + tl + '\nand more.', 'tags': []}))
        out.append((['foo_bar:', '@p: a value', '', 'Does things:', tl],
                    {'name': 'foo_bar', 'ann': [], 'params': [['p', [], 'a value']], 'desc': 'Does things:',
                     'tags': [tv]}))
        # --- inside a tag description (first tag of another name)
        first = ('Returns: a value', ['returns', [], None]) if tv[0] != 'returns' else ('Since: 1.0: at first', ['since', [], '1.0'])
        fdesc = 'a value' if tv[0] != 'returns' else 'at first'
        for d in deeper:
            out.append((['foo_bar:', '', 'Does things.', '', first[0], d + tl],
                        {'name': 'foo_bar', 'ann': [], 'params': [], 'desc': 'Does things.',
                         'tags': [first[1] + [fdesc + '\n' + d + tl]]}))
        out.append((['foo_bar:', '', 'Does things.', '', first[0], tl],
                    {'name': 'foo_bar', 'ann': [], 'params': [], 'desc': 'Does things.',
                     'tags': [first[1] + [fdesc], tv]}))
    return out


def colon_description_cases():
    """Descriptions of ANNOTATED parameters / Returns that begin with a colon (GTK-Doc markup ':prop',
    '::signal', or a plain ':'): exactly one ':' delimits the annotation field, everything after it (minus
    surrounding blanks) is the description.  -> [(content lines, expected abstract view)]"""
    out = []
    for d in ('::changed handler', ':prop text', ': text', ':', ':: :x', ':::', ':a:b: c'):
        for gap in (' ', '  ', ''):
            for anns, view in (('(nullable)', [['nullable', None]]),
                               ('(transfer none) (nullable)', [['transfer', ['list', ['none']]], ['nullable', None]])):
                out.append((['foo_bar:', '@p: %s:%s%s' % (anns, gap, d), '', 'Does things.'],
                            {'name': 'foo_bar', 'ann': [], 'params': [['p', view, d]], 'desc': 'Does things.',
                             'tags': []}))
                out.append((['foo_bar:', '', 'Does things.', '', 'Returns: %s:%s%s' % (anns, gap, d)],
                            {'name': 'foo_bar', 'ann': [], 'params': [], 'desc': 'Does things.',
                             'tags': [['returns', view, None, d]]}))
                # annotations continued on the following line, description after them
                out.append((['foo_bar:', '@p:', '  %s:%s%s' % (anns, gap, d)],
                            {'name': 'foo_bar', 'ann': [], 'params': [['p', view, d]], 'desc': None, 'tags': []}))
    return out


def stability_blocks():
    """Stability: values in canonical / lower / upper / mixed case, with and without a description.
    gtkdoc.rst lists the values as Stable, Unstable, Private (capitalised); how another spelling is stored is
    not fixed by the documentation: the value is compared case-insensitively (exactly for the canonical
    spelling); 'Internal' is not in the documentation at all (only: block parsed, round trip stable)."""
    out = []
    for word in ('Stable', 'Unstable', 'Private', 'Internal'):
        mixed = word[0].lower() + ''.join(c.upper() if i % 2 == 0 else c for i, c in enumerate(word[1:]))
        for sp in (word, word.lower(), word.upper(), mixed):
            for desc in (None, 'maybe one day'):
                line = ' * Stability: %s%s' % (sp, (': ' + desc) if desc else '')
                text = '\n'.join(['/**', ' * foo_bar:', ' * @p: a value', ' *', ' * Does things.', ' *', line, ' */'])
                out.append((text, {'tag_line': 6, 'offending': [6], 'params': ['p'], 'tags': ['stability'],
                                   'plain': True,
                                   'stability': None if word == 'Internal' else (word, sp == word, desc)}))
    return out


def odd_tag_blocks():
    """Ordinary blocks whose tag line is spelled unusually: two-word tag names with one blank / two blanks / a
    tab / a no-break space between the words, upper / lower / mixed case, and letters that only match the tag
    pattern through Unicode case folding (U+017F long s, U+0131 dotless i, U+212A Kelvin sign); each with text
    after the colon and with nothing after it; where tags go (after the description) and directly after the
    identifier; optionally followed by a text line.  What tag name / value such a line yields is UNSPECIFIED.
    -> [(text, {'tag_line': i, 'offending': [i], 'params': [...], 'tags': None, 'plain': bool})]"""
    names = []
    for two in ('Return value', 'Returns value', 'Rename to', 'Get value func', 'Set value func', 'Ref func',
                'Unref func'):
        for sep in (' ', '  ', '\t', '\u00a0', ' \t'):
            names.append((two.replace(' ', sep), sep == ' '))
    for one in ('Since', 'Returns', 'Deprecated', 'Stability', 'Description', 'Return', 'Type', 'Value'):
        for v in (one.upper(), one.lower(), one[0].lower() + ''.join(
                c.upper() if i % 2 == 0 else c for i, c in enumerate(one[1:]))):
            names.append((v, True))
    for odd in ('\u017fince', 'Stab\u0131l\u0131ty', '\u017ftability', 'Return\u017f', 'Tran\u017ffer',
                'V\u0131rtual', 'S\u0131nce', 'Deprecated\u00a0', 'Return\u017f value', 'Rename\tTo',
                'Unref\u00a0Func', 'Attr\u0131butes', 'De\u017fcription', 'Stab\u0130lity'):
        names.append((odd, False))
    out = []
    for name, plain in names:
        for value in ('2.0 some text', '(skip) text', ''):
            for place in ('tags', 'ident'):
                for follow in ([], [' * more text']):
                    head = ['/**', ' * foo_bar:']
                    if place == 'tags':
                        head += [' * @p: a value', ' *', ' * Does things.', ' *']
                    lines = head + [' * %s:%s' % (name, (' ' + value) if value else '')] + follow + [' */']
                    out.append(('\n'.join(lines), {'tag_line': len(head), 'offending': [len(head)],
                                                   'params': ['p'] if place == 'tags' else [], 'tags': None,
                                                   'plain': plain}))
    return out


def split_lines(text):
    return _LINE_SPLIT.split(text)
