"""C03 - annotation/tag menu, block rendering and the reference model.

The reference model is written from the property statement and
docs/website/annotations/giannotations.rst (+ docs/gir-1.2.rnc for attribute names);
it answers, for a set of comment blocks on the fixed skeleton,

    must : {(element id, field): set of acceptable values}     (a singleton = MUST)
    may  : [(id pattern, field pattern)]                        (UNSPECIFIED: may change)

and every (id, field) not mentioned MUST equal the baseline (frame).
"""
from vt.scan import run
from vt.scan.c03_skel import ELEMENTS, FN, TYPEINFO, METHOD_NAMES, EMITTER_OK, NEAR_MISS, vfunc_of

NEAR = dict(NEAR_MISS)

# tag forms: argument text -> (value, description) as documented for "Tag: value: description"
TAGFORMS = {
    'Since': {'1.2': ('1.2', None), '2.0': ('2.0', None), '1.2: added': ('1.2', 'added'), 'soon': (None, 'soon')},
    'Deprecated': {'1.4': ('1.4', None), '1.4: Use other': ('1.4', 'Use other'), 'Use other': (None, 'Use other')},
    # gir-1.2.rnc: stability takes the values "Stable", "Unstable" or "Private"
    'Stability': {'Unstable': ('Unstable', None), 'unstable': ('Unstable', None),
                  'Private: internal': ('Private', 'internal'), 'subject to change': (None, 'subject to change')},
}
TAGS = ('Since', 'Deprecated', 'Stability')
GENERIC = ('skip', 'attributes', 'Since', 'Deprecated', 'Stability', 'desc')
ASYNC = ('finish-func', 'sync-func', 'async-func')
ROLE = ('constructor', 'method')
ASYNC_ATTRS = ('@glib:finish-func', '@glib:sync-func', '@glib:async-func')

FULL_MENU = [
    ['skip', None], ['foreign', None], ['constructor', None], ['method', None], ['value', '7'],
    ['attributes', 'my.key=val'], ['attributes', 'my.key=val other.key=v2'], ['attributes', 'my.flag'],
    # values that themselves contain '=': the value is everything after the FIRST '=' ("key=value" pairs)
    ['attributes', 'org.foo.filter=state=open'], ['attributes', 'my.expr=a=b=c other.key=v2'],
    ['attributes', 'my.pad=dGVzdA=='], ['attributes', 'my.eq=x='], ['attributes', 'my.flag my.key=a=b'],
    ['rename-to', 'foo_func'], ['rename-to', 'foo_other'], ['rename-to', 'foo_obj_invoke'],
    ['rename-to', 'nosuch_fn'], ['rename-to', 'foo_fun'], ['rename-to', 'func'], ['rename-to', 'FOO_ENUM_A'],
    ['transfer', 'full'], ['transfer', 'none'], ['transfer', 'floating'], ['type', 'utf8'],
    ['setter', 'meth'], ['getter', 'meth'], ['setter', 'nosuch'], ['default-value', '5'],
    ['set-property', 'prop-two'], ['get-property', 'prop-two'],
    ['emitter', 'meth'], ['emitter', 'emit_sig'], ['emitter', 'nosuch'],
    ['virtual', 'vmeth'], ['virtual', 'do_thing'], ['virtual', 'nosuch'],
    ['finish-func', 'foo_other'], ['sync-func', 'foo_other'], ['async-func', 'foo_other'],
    # explicit targets that exist but are not the heuristic partner (foo_async -> foo_finish / foo)
    ['sync-func', 'load_alt'], ['finish-func', 'save_finish'], ['async-func', 'save_async'],
    ['ref-func', 'foo_obj_dup'], ['unref-func', 'foo_obj_meth'], ['set-value-func', 'foo_x'],
    ['get-value-func', 'foo_y'], ['copy-func', 'foo_rec_dup'], ['free-func', 'foo_rec_free'],
    ['Since', '1.2'], ['Since', '1.2: added'], ['Since', 'soon'],
    ['Deprecated', '1.4'], ['Deprecated', '1.4: Use other'], ['Deprecated', 'Use other'],
    ['Stability', 'Unstable'], ['Stability', 'unstable'], ['Stability', 'Private: internal'],
    ['Stability', 'subject to change'], ['desc', 'Some text.'],
]

# near-miss block names get one item per annotation / tag name (they must match nothing, so the
# argument variants add nothing)
NEAR_MENU = []
for _it in FULL_MENU:
    if _it[0] not in [x[0] for x in NEAR_MENU]:
        NEAR_MENU.append(_it)
NEAR_MENU = [it if it[0] not in ('Since', 'Deprecated', 'Stability') else
             [it[0], {'Since': '1.2: added', 'Deprecated': '1.4: Use other', 'Stability': 'Private: internal'}[it[0]]]
             for it in NEAR_MENU]
NEAR_MENU = [it if it != ['rename-to', 'foo_func'] else ['rename-to', 'foo_other'] for it in NEAR_MENU]


def render(case):
    """case -> list of (comment text, file, line)"""
    out = []
    for i, b in enumerate(case['blocks']):
        anns, tags, desc = [], [], None
        for name, arg in b['items']:
            if name in TAGS:
                tags.append((name, arg))
            elif name == 'desc':
                desc = arg
            else:
                anns.append('(%s%s)' % (name, (' ' + arg) if arg else ''))
        text = run.block(b['name'], ident_ann=' '.join(anns), tags=tags, desc=desc)
        if b.get('split') == 'bare' and anns:
            # the identifier line is just "name:" and every annotation sits on a continuation line
            one = ' * %s: %s' % (b['name'], ' '.join(anns))
            assert one in text
            text = text.replace(one, ' * %s:\n * %s' % (b['name'], '\n * '.join(anns)))
        elif b.get('split') and len(anns) > 1:
            # layout dimension: the identifier annotations spread over continuation lines of the
            # identifier part, one annotation per line (same meaning as all on the identifier line)
            one = ' * %s: %s' % (b['name'], ' '.join(anns))
            assert one in text
            text = text.replace(one, ' * %s: %s' % (b['name'], '\n * '.join(anns)))
        out.append(run.comment(text, line=100 + 100 * i))
    return out


def c_text(case):
    return '\n'.join(c[0] for c in render(case))


# ------------------------------------------------------------------ model ---
class Expect(object):
    def __init__(self):
        self.must = {}     # (id, field) -> (set(values), label)
        self.may = []      # (id or None, field or None or frozenset)
        self.mustnot = {}  # (id, field) -> (set(values), label): values the field MUST NOT have
        self.warn = []     # reasons why a diagnostic is expected (role annotation the signature does not permit)

    def m(self, i, f, v, label):
        k = (i, f)
        if k in self.must:
            self.must[k] = (self.must[k][0] | {v}, self.must[k][1])
        else:
            self.must[k] = ({v}, label)

    def n(self, i, f, v, label):
        self.mustnot.setdefault((i, f), (set(), label))[0].add(v)

    def y(self, i, f=None):
        if isinstance(f, (set, list, tuple)):
            f = frozenset(f)
        self.may.append((i, f))

    def allowed(self, i, f):
        for mi, mf in self.may:
            if mi is not None and mi != i:
                continue
            if mf is None or mf == f or (isinstance(mf, frozenset) and f in mf):
                return True
        return False


def _generic(ex, i, name, arg, label):
    """documented effect of a generic item on element id i"""
    if name == 'skip':
        ex.m(i, '@introspectable', '0', label)
    elif name == 'attributes':
        for kv in arg.split():
            if '=' in kv:
                k, v = kv.split('=', 1)
                ex.m(i, 'attribute:' + k, v, label)
            else:
                # "Assigning values to keys is optional": what a key without value becomes is not documented
                ex.y(i, 'attribute:' + kv)
    elif name == 'Since':
        v, d = TAGFORMS[name][arg]
        if v:
            ex.m(i, '@version', v, label)
        if d:
            ex.m(i, 'info:doc-version', d, label)
    elif name == 'Deprecated':
        v, d = TAGFORMS[name][arg]
        ex.m(i, '@deprecated', '1', label)
        if v:
            ex.m(i, '@deprecated-version', v, label)
        if d:
            ex.m(i, 'info:doc-deprecated', d, label)
    elif name == 'Stability':
        v, d = TAGFORMS[name][arg]
        if v:
            ex.m(i, '@stability', v, label)
        if d:
            ex.m(i, 'info:doc-stability', d, label)
    elif name == 'desc':
        ex.m(i, 'info:doc', arg, label)
        ex.y(i, 'info:doc@pos')
    elif name in ASYNC:
        ex.m(i, '@glib:' + name, arg, label)


ID2EL = {e['id']: e for e in ELEMENTS.values()}


def _users_may(ex, vb, gi, flds):
    for j, recs in vb.items():
        if any(gi in r['refs'] for r in recs):
            ex.y(j, flds)
            # a <field> that merely wraps an inline callback (plain record, class or interface struct)
            # uses the type through that callback: C05 lets it follow the callback
            for r in recs:
                if r['tag'] == 'callback' and '/field[' in r['owner'] and r['owner'] in vb:
                    ex.y(r['owner'], ('@introspectable',))


def _fn_ids_of_class(cls):
    return [e['id'] for e in ELEMENTS.values() if e['kind'] in ('method',) and e['cls'] == cls]


def _props_of_class(cls):
    return [e['id'] for e in ELEMENTS.values() if e['kind'] == 'property' and e['cls'] == cls]


def expect(case, vb, va, fva, fvb):
    """vb / va: baseline and annotated views, fva = all_fields(va) (the annotated side is consulted only
    for the *names* and multiplicity of function elements, which role annotations may change)."""
    ex = Expect()
    blocks = case['blocks']
    by_name = {}
    for b in blocks:
        by_name[b['name']] = b
    has_role = {}
    for b in blocks:
        has_role[b['name']] = [n for n, a in b['items'] if n in ROLE]

    def name_of(fn_id):
        if fn_id in fva:
            return fva[fn_id].get('@name')
        return None

    # which functions claim which virtual slot through (virtual S)
    claims = {}      # vfunc block name -> [fn element]
    for b in blocks:
        e = ELEMENTS.get(b['name'])
        if not e or e['kind'] not in FN:
            continue
        for n, a in b['items']:
            if n == 'virtual' and e['cls']:
                v = vfunc_of(e['cls'], a)
                if v is not None:
                    claims.setdefault(v['block'], []).append(e)

    renames = []
    for b in blocks:
        e = ELEMENTS.get(b['name'])
        if e is None:
            near = NEAR.get(b['name'])
            if near is None:
                raise ValueError('unknown block name %r' % b['name'])
            doc_only = b['name'].startswith('SECTION:') and all(n == 'desc' for n, a in b['items'])
            for i in near:
                if doc_only and not i.startswith('docsection['):
                    # a section that only carries a description documents the type: nothing but its <doc>
                    # may change, in particular the type's own (skip)/(foreign)/attributes still hold
                    ex.y(i, ('info:doc', 'info:doc@pos'))
                    continue
                ex.y(i, None)
                ne = ID2EL.get(i)
                if ne is not None and 'gi' in ne:
                    _users_may(ex, vb, ne['gi'], ('@introspectable', 'sig'))
            continue
        i, kind = e['id'], e['kind']
        for name, arg in b['items']:
            label = name
            if name in GENERIC:
                _generic(ex, i, name, arg, label)
                if name == 'skip' and kind in ('class', 'interface', 'record', 'gtstruct', 'boxed', 'union', 'enum',
                                               'bitfield', 'alias', 'callback'):
                    # C05: whatever uses a skipped type may itself become non-introspectable
                    _users_may(ex, vb, e['gi'], ('@introspectable',))
            elif name in ASYNC:
                if kind in FN or kind == 'vfunc':
                    _generic(ex, i, name, arg, label)
                elif kind == 'callback':
                    ex.y(i, '@glib:' + name)
            elif name == 'foreign':
                if kind in ('record', 'boxed', 'gtstruct'):
                    ex.m(i, '@foreign', '1', label)
                    # default ownership transfer of values of a foreign type is C02's business
                    _users_may(ex, vb, e['gi'], ('@introspectable', 'sig'))
                elif kind in ('union', 'class', 'interface'):
                    ex.y(i, '@foreign')
                    _users_may(ex, vb, e['gi'], ('@introspectable', 'sig'))
            elif name == 'value':
                if kind == 'constant':
                    ex.m(i, '@value', arg, label)
            elif name == 'transfer':
                if kind == 'property':
                    ex.m(i, '@transfer-ownership', 'none' if arg == 'floating' else arg, label)
            elif name == 'type':
                if kind == 'property':
                    ex.m(i, 'typename', arg, label)
                    ex.y(i, 'sig')
                elif kind in ('field', 'cbfield'):
                    ex.y(i, ('typename', 'sig'))
                    ex.y(i + '/callback[%s]' % i.rsplit('[', 1)[1][:-1], None)
            elif name in ('setter', 'getter'):
                if kind == 'property':
                    if arg in METHOD_NAMES.get(e['cls'], ()):
                        ex.m(i, '@' + name, arg, label)
                    else:
                        ex.y(i, '@' + name)
                    for j in _fn_ids_of_class(e['cls']):
                        ex.y(j, '@glib:%s-property' % name[:3])
            elif name == 'default-value':
                if kind == 'property':
                    ex.m(i, '@default-value', arg, label)
            elif name in ('set-property', 'get-property'):
                if kind == 'method' and not e['accessor'] and not has_role[b['name']] \
                        and any(p.endswith('[%s]' % arg) for p in _props_of_class(e['cls'])):
                    ex.m(i, '@glib:' + name, arg, label)
                elif kind in FN:
                    ex.y(i, '@glib:' + name)
            elif name == 'emitter':
                if kind == 'signal':
                    if arg in EMITTER_OK.get((e['cls'], e['nparams']), ()):
                        ex.m(i, '@emitter', arg, label)
                    else:
                        ex.y(i, '@emitter')
            elif name in ('ref-func', 'unref-func', 'set-value-func', 'get-value-func'):
                if kind == 'class':
                    ex.m(i, '@glib:' + name, arg, label)
                elif kind in ('interface', 'record', 'boxed', 'gtstruct', 'union'):
                    ex.y(i, '@glib:' + name)
            elif name in ('copy-func', 'free-func'):
                attr = '@copy-function' if name == 'copy-func' else '@free-function'
                if kind in ('record', 'boxed', 'gtstruct', 'union'):
                    ex.m(i, attr, arg, label)
                elif kind in ('class', 'interface'):
                    ex.y(i, attr)
            elif name == 'rename-to':
                if kind in FN:
                    renames.append((e, arg))
            elif name == 'virtual':
                if kind in FN and e['cls']:
                    v = vfunc_of(e['cls'], arg)
                    if v is not None:
                        if kind == 'method' and not has_role[b['name']]:
                            ex.m(v['id'], '@invoker', name_of(i), 'virtual')
                            if v['invoker_fn'] and v['invoker_fn'] != b['name']:
                                # explicit annotation vs. pairing by name: which one is written is not documented
                                ex.m(v['id'], '@invoker', name_of('fn:' + v['invoker_fn']), 'virtual')
                        else:
                            ex.y(v['id'], None)
            elif name == 'constructor':
                if kind in FN and kind != 'ctor' and len(has_role[b['name']]) == 1:
                    cat = TYPEINFO.get(e['ret'], (None, None))[1]
                    bshape = fvb[i].get('shape')
                    if cat in ('class', 'boxed'):
                        ex.m(i, 'tag', 'constructor', label)
                        ex.m(i, 'owner', TYPEINFO[e['ret']][0], label)
                        ex.m(i, 'count', 1, label)
                        # a constructor has no instance parameter: every C parameter is an ordinary one
                        ex.m(i, 'shape', (False, bshape[1] + (1 if bshape[0] else 0)), label)
                        _role_may(ex, e)
                    elif cat == 'plain':
                        # a plain C struct is neither a class nor a registered boxed type: whether the
                        # signature "permits" a constructor there is not documented
                        ex.y(i, None)
                    else:
                        ex.warn.append('(constructor) on %s, which does not return a type of the namespace' % b['name'])
                elif kind in FN and kind != 'ctor':
                    ex.y(i, None)
                    _role_may(ex, e)
            elif name == 'method':
                if kind in FN and len(has_role[b['name']]) == 1:
                    if e['first'] in TYPEINFO:
                        bshape = fvb[i].get('shape')
                        ex.m(i, 'tag', 'method', label)
                        ex.m(i, 'owner', TYPEINFO[e['first']][0], label)
                        ex.m(i, 'count', 1, label)
                        # the first C parameter becomes the instance parameter
                        ex.m(i, 'shape', (True, bshape[1] - (0 if bshape[0] else 1)), label)
                        _role_may(ex, e)
                    elif kind != 'ctor':
                        # (a function that is a constructor by its name stays one; no diagnostic is promised there)
                        ex.warn.append('(method) on %s, whose first parameter is not a type of the namespace' % b['name'])
                elif kind in FN:
                    ex.y(i, None)
                    _role_may(ex, e)
            else:
                raise ValueError('unknown item %r' % name)

    # ---- async families of class / interface methods (name-based pairing applies there) -------------
    # An explicit (sync-func X) / (async-func X) / (finish-func X) is what the GIR carries (MUST above).
    # What the un-annotated partners found by name then carry is not fixed by the statement, except that a
    # partner must not claim a counterpart that contradicts the explicit annotation.
    for b in blocks:
        e = ELEMENTS.get(b['name'])
        if not e or e['kind'] not in FN or not e.get('fam') or has_role[b['name']]:
            continue
        if not (e['cls'] or '').startswith(('class[', 'interface[')):
            continue
        sibs = [x for x in ELEMENTS.values() if x.get('fam') == e['fam'] and x is not e]
        for name, arg in b['items']:
            if name not in ASYNC:
                continue
            for x in sibs:
                ex.y(x['id'], ASYNC_ATTRS)
            if name == 'finish-func':
                ex.y(e['id'], '@glib:sync-func')     # the sync partner is matched through the finish function
            # (only this direction: what an un-annotated async method pairs itself with by name is its own
            # heuristic and stays UNSPECIFIED)
            counterpart = {'sync-func': '@glib:async-func'}.get(name)
            if counterpart:
                for x in sibs:
                    xb = by_name.get(x['block'])
                    if xb is not None and any(n2 in ASYNC for n2, _ in xb['items']):
                        continue
                    if name_of(x['id']) != arg:
                        ex.n(x['id'], counterpart, name_of(e['id']), 'contradicts-explicit-' + name)

    # ---- virtual methods: own block, else inherit from the invoker ---------------------------
    for vname, v in ELEMENTS.items():
        if v['kind'] != 'vfunc':
            continue
        sources = []
        if v['invoker_fn'] and v['invoker_fn'] in by_name:
            if has_role[v['invoker_fn']]:
                ex.y(v['id'], None)      # the invoker is renamed / moved: pairing by name is off
            else:
                sources.append(by_name[v['invoker_fn']])
        for f in claims.get(vname, ()):
            if f['kind'] == 'method' and not has_role[f['block']]:
                sources.append(by_name[f['block']])
        if vname in by_name:
            continue                 # has a block of its own: documented by that block only
        fb = by_name.get(vname.replace('::', '.'))
        if fb is not None and any(n == 'desc' for n, a in fb['items']):
            # the class-struct member *is* the virtual slot: its description may serve as the vfunc's
            ex.y(v['id'], ('info:doc', 'info:doc@pos'))
        for b in sources:
            for name, arg in b['items']:
                if name in GENERIC or name in ASYNC:
                    _generic(ex, v['id'], name, arg, 'inherit:' + name)
    # a role annotation on the by-name invoker also changes what the vfunc pairs with
    for b in blocks:
        e = ELEMENTS.get(b['name'])
        if e and e['kind'] in FN and has_role[b['name']] and e.get('vf_by_name'):
            ex.y(ELEMENTS[e['vf_by_name']]['id'], None)

    # ---- rename-to --------------------------------------------------------------------------
    valid = []
    selfs = []
    ex.rename_exempt = set()
    for f, t in renames:
        te = ELEMENTS.get(t)
        if te is None or te['kind'] not in FN:
            continue                 # names nothing (or not a function): no documented effect
        if te is f:
            # renaming a function to itself: no partner, nothing documented
            ex.y(f['id'], ('@shadows', '@shadowed-by'))
            ex.rename_exempt.add(f['id'])
            selfs.append(f)
            continue
        valid.append((f, te))
    for f, te in valid:
        others = [(g, ue) for g, ue in valid if not (g is f and ue is te)]
        competing = any(ue is te or ue is f or g is te for g, ue in others) or \
            any(g is f or g is te for g in selfs)
        if any(g is f or g is te for g in selfs):
            ex.rename_exempt.update((f['id'], te['id']))
        clones = len(va.get(f['id'], ())) != 1 or len(va.get(te['id'], ())) != 1
        if clones:
            # a function that exists twice (moved-to compatibility copy): the pair rule has no single partner
            ex.rename_exempt.update((f['id'], te['id']))
        if competing or clones:
            ex.y(f['id'], ('@shadows', '@shadowed-by'))
            ex.y(te['id'], ('@shadows', '@shadowed-by'))
        else:
            ex.m(f['id'], '@shadows', name_of(te['id']), 'rename-to')
            ex.m(te['id'], '@shadowed-by', name_of(f['id']), 'rename-to')
    ex.renames = valid
    return ex


def _role_may(ex, e):
    i = e['id']
    if e.get('fam'):
        # renaming / moving a member of an async family changes what is paired by name
        for x in ELEMENTS.values():
            if x.get('fam') == e['fam']:
                ex.y(x['id'], ASYNC_ATTRS)
    ex.y(i, ('@name', 'sig', 'shape', '@moved-to', '@introspectable', '@glib:set-property', '@glib:get-property',
             '@shadows', '@shadowed-by'))
    if e['cls']:
        for p in _props_of_class(e['cls']):
            ex.y(p, ('@setter', '@getter'))
    ft = TYPEINFO.get(e['first'])
    if ft:
        for p in _props_of_class(ft[0]):
            ex.y(p, ('@setter', '@getter'))


def rename_shape(valid):
    """classify the rename-to relation of a case (used only to name violation keys)"""
    if len(valid) <= 1:
        return 'single'
    srcs = [f['block'] for f, t in valid]
    tgts = [t['block'] for f, t in valid]
    if len(set(tgts)) < len(tgts):
        return 'fan-in'
    if set(srcs) & set(tgts):
        pairs = {(f['block'], t['block']) for f, t in valid}
        if any((b, a) in pairs for a, b in pairs):
            return 'cycle'
        return 'chain'
    return 'independent'


def rename_consistency(ex, fl):
    """"a mutually consistent shadows/shadowed-by pair": every shadows has its shadowed-by and vice
    versa, and both come from a rename-to block naming the partner.  Returns a list of problems."""
    probs = []
    tgts_of = {}
    for f, t in ex.renames:
        tgts_of.setdefault(f['id'], []).append(t['id'])
    for i in sorted(fl):
        f = fl[i]
        if i in ex.rename_exempt or f.get('count') != 1:
            continue
        sh = f.get('@shadows')
        if sh is not None:
            ok = False
            for t in tgts_of.get(i, ()):
                ft = fl.get(t)
                if ft and ft.get('@name') == sh and ft.get('@shadowed-by') == f.get('@name'):
                    ok = True
            if not ok:
                probs.append('%s has shadows=%r but no rename-to target of it has name=%r and shadowed-by=%r'
                             % (i, sh, sh, f.get('@name')))
        sb = f.get('@shadowed-by')
        if sb is not None:
            ok = False
            for s in sorted(tgts_of):
                fs = fl.get(s)
                if i in tgts_of[s] and fs and fs.get('@name') == sb and fs.get('@shadows') == f.get('@name'):
                    ok = True
            if not ok:
                probs.append('%s has shadowed-by=%r but no rename-to source of it has name=%r and shadows=%r'
                             % (i, sb, sb, f.get('@name')))
    return probs
