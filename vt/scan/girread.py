"""Independent GIR reader: ElementTree -> plain Python structures.

Written from docs/gir-1.2.rnc, not from giscanner.girparser.  Used by the oracles
so that they never consult the code under test to read its own output.
"""
import xml.etree.ElementTree as ET

CORE = 'http://www.gtk.org/introspection/core/1.0'
C = 'http://www.gtk.org/introspection/c/1.0'
GLIB = 'http://www.gtk.org/introspection/glib/1.0'
DOC = 'http://www.gtk.org/introspection/doc/1.0'
PREFIX = {CORE: '', C: 'c:', GLIB: 'glib:', DOC: 'doc:', 'http://www.w3.org/XML/1998/namespace': 'xml:'}


def q(name):
    """'{ns}tag' -> 'prefix:tag'"""
    if name[0] != '{':
        return name
    ns, local = name[1:].split('}', 1)
    return PREFIX.get(ns, '{%s}' % ns) + local


class El(object):
    """A GIR element with prefixed names."""
    __slots__ = ('tag', 'attrib', 'kids', 'text', 'parent')

    def __init__(self, e, parent=None):
        self.tag = q(e.tag)
        self.attrib = {q(k): v for k, v in e.attrib.items()}
        self.text = e.text
        self.parent = parent
        self.kids = [El(k, self) for k in e]

    def get(self, k, d=None):
        return self.attrib.get(k, d)

    def find(self, tag):
        for k in self.kids:
            if k.tag == tag:
                return k
        return None

    def findall(self, tag):
        return [k for k in self.kids if k.tag == tag]

    def iter(self):
        yield self
        for k in self.kids:
            for x in k.iter():
                yield x

    def path(self):
        parts = []
        e = self
        while e is not None:
            n = e.get('name') or e.get('c:identifier') or ''
            parts.append('%s[%s]' % (e.tag, n) if n else e.tag)
            e = e.parent
        return '/'.join(reversed(parts[:-1]))

    def params(self):
        """(instance-parameter or None, [parameters])"""
        ps = self.find('parameters')
        if ps is None:
            return None, []
        return ps.find('instance-parameter'), ps.findall('parameter')

    def type_el(self):
        for k in self.kids:
            if k.tag in ('type', 'array', 'varargs', 'callback'):
                return k
        return None

    def dump(self):
        return [self.tag, dict(self.attrib), (self.text or '').strip() if not self.kids else None,
                [k.dump() for k in self.kids]]


def parse(xml_bytes):
    root = ET.fromstring(xml_bytes)
    return El(root)


def namespace_of(root):
    return root.find('namespace')


def flat(el, skip_tags=('source-position',)):
    """Flatten to {path: attrib-dict-or-text} for attribute-level diffs.  Children with
    the same tag and name are disambiguated by ordinal."""
    out = {}

    def rec(e, path):
        out[path] = dict(e.attrib)
        if e.text and e.text.strip() and not e.kids:
            out[path + '#text'] = e.text
        seen = {}
        for k in e.kids:
            if k.tag in skip_tags:
                continue
            key = '%s[%s]' % (k.tag, k.get('name') or k.get('c:identifier') or '')
            n = seen.get(key, 0)
            seen[key] = n + 1
            rec(k, '%s/%s%s' % (path, key, '#%d' % n if n else ''))
    rec(el, el.tag)
    return out


def diff(a, b):
    """Attribute-level diff of two flattened documents: {path: (a_value, b_value)}"""
    out = {}
    for k in set(a) | set(b):
        va, vb = a.get(k), b.get(k)
        if va != vb:
            if isinstance(va, dict) and isinstance(vb, dict):
                for ak in set(va) | set(vb):
                    if va.get(ak) != vb.get(ak):
                        out['%s@%s' % (k, ak)] = (va.get(ak), vb.get(ak))
            else:
                out[k] = (va, vb)
    return out
