"""C12 helper: conformance of the dumper model (c12_gdump.py) with the real dumper.

The scanner-side exploration of C12 feeds the scanner with dumps printed by a Python
re-implementation of girepository/gdump.c.  This module keeps that model bound to the code:
each registry below is (a) registered as genuine GTypes in a live GObject type system by
vt/c/drv_gdump.c, which then runs /repo's real g_irepository_dump(), and (b) printed by the
model; the two XML documents must be equal element by element (attribute order, white space
and the order of <implements>/<prerequisite>/<property>/<signal> children - which GLib returns
in hash-table order - canonicalised; <param> and <member> order is significant).

A defect in gdump.c (the producer of the format) therefore shows up as a disagreement here.
"""
import os
import subprocess
import xml.etree.ElementTree as ET

from vt.core import ROOT, HarnessBroken
from vt.scan.c12_gdump import (Runtime, normalize, BUILTIN,
                               G_SIGNAL_RUN_FIRST, G_SIGNAL_RUN_LAST, G_SIGNAL_RUN_CLEANUP,
                               G_SIGNAL_NO_RECURSE, G_SIGNAL_DETAILED, G_SIGNAL_ACTION,
                               G_SIGNAL_NO_HOOKS, G_SIGNAL_MUST_COLLECT)

BUILTIN_NAMES = set(t['name'] for t in BUILTIN)
NSLOT, NQ = 48, 8


# ------------------------------------------------------------- registries ---
def _obj(name, parent, **kw):
    d = dict(k='object', name=name, parent=parent)
    d.update(kw)
    return d


def _sig(name, ret, flags, params=()):
    return {'name': name, 'return': ret, 'flags': flags, 'params': list(params)}


def _prop(name, gtype, flags, default):
    return dict(name=name, type=gtype, flags=flags, default=default)


def reg_hierarchy():
    """Parent chains with hidden members, abstract/final, foreign parents, interfaces with no / GObject /
    class / interface prerequisites, classes implementing several interfaces (own and inherited)."""
    types = [
        dict(k='interface', name='FooIfcNone'),
        dict(k='interface', name='FooIfcObj', prereqs=['GObject']),
        dict(k='interface', name='FooIfcClass', prereqs=['FooBase']),
        dict(k='interface', name='FooIfcIface', prereqs=['FooIfcNone']),
        # declared: FooMid + FooIfcObj + GAsyncResult; GLib reports the closure (GAsyncResult requires GObject,
        # FooIfcObj requires GObject) with only the most derived class
        dict(k='interface', name='FooIfcMany', prereqs=['FooMid', 'FooIfcObj', 'GAsyncResult']),
        dict(k='interface', name='FooIfcDeep', prereqs=['FooIfcIface']),          # inherits FooIfcNone
        dict(k='interface', name='FooIfcForeignClass', prereqs=['GCancellable']),
        dict(k='interface', name='FooIfcHiddenClass', prereqs=['FooHidden']),
        _obj('FooBase', 'GObject', abstract=True, ifaces=['FooIfcNone', 'FooIfcObj']),
        _obj('FooMid', 'FooBase', ifaces=['FooIfcClass', 'FooIfcIface']),
        _obj('FooHidden', 'FooMid', ifaces=['GAsyncResult']),
        _obj('FooHidden2', 'FooHidden', abstract=True),
        _obj('FooObj', 'FooHidden2', final=True, ifaces=['FooIfcMany', 'FooIfcDeep', 'FooIfcHiddenClass']),
        _obj('FooUnowned', 'GInitiallyUnowned'),
        _obj('FooCanc', 'GCancellable', final=True, ifaces=['FooIfcForeignClass']),
        _obj('FooPlain', 'GObject'),
        _obj('FooAbsFinal', 'FooPlain', abstract=True, final=True),
    ]
    public = ['FooAbsFinal', 'FooObj', 'FooIfcNone', 'FooIfcObj', 'FooIfcClass', 'FooIfcIface', 'FooIfcMany', 'FooIfcDeep',
              'FooIfcForeignClass', 'FooIfcHiddenClass', 'FooBase', 'FooMid', 'FooUnowned', 'FooCanc', 'FooPlain',
              'GObject', 'FooObj']       # GObject itself (no parents attribute) and a repeated type (printed once)
    return types, public, {}


def reg_kinds():
    """Boxed, pointer, enum, flags, fundamentals, error quarks."""
    types = [
        dict(k='boxed', name='FooBx'),
        dict(k='pointer', name='FooPtr'),
        dict(k='enum', name='FooEn', values=[['FOO_EN_A', 'a', 0], ['FOO_EN_B_C', 'b-c', 1], ['FOO_EN_NEG', 'neg', -1],
                                             ['FOO_EN_BIG', 'big', 0x7fffffff]]),
        dict(k='enum', name='FooEmpty', values=[]),
        dict(k='flags', name='FooFl', values=[['FOO_FL_A', 'a', 1], ['FOO_FL_B', 'b', 2],
                                              ['FOO_FL_HIGH', 'high', 0x80000000]]),
        dict(k='interface', name='FooIfc'),
        dict(k='other', name='FooFund', instantiatable=True, ifaces=['FooIfc']),
        dict(k='other', name='FooFundAbs', parent='FooFund', instantiatable=True, abstract=True),
        dict(k='other', name='FooFundLeaf', parent='FooFundAbs', instantiatable=True, final=True),
        dict(k='other', name='FooFundPlain'),
        dict(k='other', name='FooParamThing', parent='GParam', instantiatable=True),
    ]
    public = ['FooBx', 'FooPtr', 'FooEn', 'FooEmpty', 'FooFl', 'FooIfc', 'FooFund', 'FooFundAbs', 'FooFundLeaf',
              'FooFundPlain', 'FooParamThing']
    quarks = {0: 'foo-error-quark', 1: 'x y<&>"\'', 2: 'café'}
    return types, public, quarks


PROP_KINDS = [
    ('gchar', ['v', '-5']), ('guchar', ['v', '200']), ('gboolean', ['v', 'TRUE']), ('gboolean', ['v', 'FALSE']),
    ('gint', ['v', '0']), ('gint', ['v', '-1']), ('guint', ['v', '4294967295']), ('glong', ['v', '-7']),
    ('gulong', ['v', '7']), ('gint64', ['v', '-9223372036854775807']), ('guint64', ['v', '18446744073709551615']),
    ('gfloat', ['v', '0.000000']), ('gdouble', ['v', '-1.500000']),
    ('gchararray', ['s', None]), ('gchararray', ['s', '']), ('gchararray', ['s', 'a b']),
    ('gchararray', ['s', '<&>"\'']), ('gchararray', ['s', 'tab\there\nnl\\']), ('gchararray', ['s', 'café']),
    ('gchararray', ['s', 'NULL']),
    ('FooEn', ['v', 'FOO_EN_A']), ('FooEn', ['v', 'FOO_EN_B']), ('FooFl', ['v', 'FOO_FL_A | FOO_FL_B']),
    ('FooFl', ['v', 'FOO_FL_A']), ('FooFl', ['v', '0']),
    ('gpointer', None), ('GType', None), ('GStrv', None), ('GHashTable', None), ('GByteArray', None),
    ('GArray', None), ('GPtrArray', None), ('GValue', None), ('GClosure', None), ('GError', None), ('GBytes', None),
    ('FooBx', None), ('GObject', None), ('GInitiallyUnowned', None), ('GCancellable', None), ('GAsyncResult', None),
    ('FooObj', None), ('FooIfc', None), ('GParam', None), ('GVariant', None),
]
# flag words GObject accepts at install time (construct needs writable, not both construct flags)
LEGAL_RW = [1, 2, 3, 2 | 4, 3 | 4, 2 | 8, 3 | 8]
EXTRA = [0, 16, 32, 64, 128, 224, 1 << 30, 1 << 31, (1 << 30) | (1 << 31) | 240]


def reg_properties():
    """Every GParamSpec kind with every default text, and every installable flag word, on a class and
    on an interface."""
    props = [_prop('k%d' % i, t, LEGAL_RW[i % len(LEGAL_RW)] | (224 if i % 2 else 0), d)
             for i, (t, d) in enumerate(PROP_KINDS)]
    words = [_prop('w%d' % i, 'gint', rw | ex, ['v', '0'])
             for i, (rw, ex) in enumerate((rw, ex) for rw in LEGAL_RW for ex in EXTRA)]
    iprops = [_prop('i%d' % i, t, LEGAL_RW[(i + 3) % len(LEGAL_RW)], d) for i, (t, d) in enumerate(PROP_KINDS[:25])]
    types = [
        dict(k='enum', name='FooEn', values=[['FOO_EN_A', 'a', 0], ['FOO_EN_B', 'b', 1]]),
        dict(k='flags', name='FooFl', values=[['FOO_FL_A', 'a', 1], ['FOO_FL_B', 'b', 2]]),
        dict(k='boxed', name='FooBx'),
        dict(k='interface', name='FooIfc', prereqs=['GObject'], props=iprops + words[:20]),
        _obj('FooBase', 'GObject', props=[_prop('inherited', 'gint', 3, ['v', '1'])]),
        _obj('FooObj', 'FooBase', props=props + words),
    ]
    return types, ['FooEn', 'FooFl', 'FooBx', 'FooIfc', 'FooBase', 'FooObj'], {}


SIG_T = ['gint', 'gchararray', 'FooObj', 'GObject', 'FooBx', 'GStrv', 'gboolean', 'gdouble', 'FooEn']
SIG_RET = ['void', 'gboolean', 'gint', 'gchararray', 'FooObj', 'GStrv']


def reg_signals():
    """Every signal flag word over the 9 low bits on a class; every run phase x flag x 0-3 parameters x return
    type on an interface."""
    words = []
    for w in range(512):
        n = w % 4
        words.append(_sig('w%d' % w, SIG_RET[w % len(SIG_RET)], w, [SIG_T[(w + j) % len(SIG_T)] for j in range(n)]))
    isigs = []
    i = 0
    for when in (0, G_SIGNAL_RUN_FIRST, G_SIGNAL_RUN_LAST, G_SIGNAL_RUN_CLEANUP, G_SIGNAL_MUST_COLLECT):
        for fl in (0, G_SIGNAL_NO_RECURSE, G_SIGNAL_DETAILED, G_SIGNAL_ACTION, G_SIGNAL_NO_HOOKS,
                   G_SIGNAL_NO_RECURSE | G_SIGNAL_DETAILED | G_SIGNAL_ACTION | G_SIGNAL_NO_HOOKS):
            for n in range(4):
                isigs.append(_sig('s%d' % i, SIG_RET[i % len(SIG_RET)], when | fl,
                                  [SIG_T[(i + j) % len(SIG_T)] for j in range(n)]))
                i += 1
    types = [
        dict(k='enum', name='FooEn', values=[['FOO_EN_A', 'a', 0]]),
        dict(k='boxed', name='FooBx'),
        dict(k='interface', name='FooIfc', signals=isigs),
        _obj('FooBase', 'GObject', signals=[_sig('inherited', 'void', G_SIGNAL_RUN_LAST)]),
        _obj('FooObj', 'FooBase', signals=words),
    ]
    return types, ['FooEn', 'FooBx', 'FooIfc', 'FooBase', 'FooObj'], {}


REGISTRIES = [('hierarchy', reg_hierarchy), ('kinds', reg_kinds), ('properties', reg_properties),
              ('signals', reg_signals)]


# ------------------------------------------------------------ serialising ---
def _hex(s):
    return s.encode('utf-8').hex() if s else '-'


def registry_text(types, symbols, quarks):
    """The driver's input.  Prerequisite lists are the DECLARED ones (t['prereqs'])."""
    L = []
    for t in types:
        fl = ('a' if t.get('abstract') else '') + ('f' if t.get('final') else '') + \
             ('i' if t.get('instantiatable') else '')
        parent = t.get('parent') or '-'
        L.append('type %s %s %s %s' % (t['k'], t['name'], parent, fl or '-'))
        for vn, nick, v in t.get('values', ()):
            L.append('value %s %s %s %d' % (t['name'], vn, nick, v if v < 0x80000000 else v - (1 << 32)))
    for t in types:
        for p in t.get('prereqs', ()):
            L.append('prereq %s %s' % (t['name'], p))
    for t in types:
        for i in t.get('ifaces', ()):
            L.append('impl %s %s' % (t['name'], i))
        for p in t.get('props', ()):
            d = p.get('default')
            if d is None:
                kind, val = 'n', '-'
            elif d[0] == 's':
                kind, val = ('z', '-') if d[1] is None else ('s', _hex(d[1]))
            else:
                kind, val = 'v', _hex(d[1])
            fl = p['flags'] & 0xffffffff
            L.append('prop %s %s %s %d %s %s' % (t['name'], p['name'], p['type'],
                                                 fl - (1 << 32) if fl & 0x80000000 else fl, kind, val))
        for s in t.get('signals', ()):
            L.append('signal %s %s %s %d %d%s' % (t['name'], s['name'], s['return'], s['flags'], len(s['params']),
                                                  ''.join(' ' + x for x in s['params'])))
    for f, n in symbols.items():
        L.append('sym %s %s' % (f, n))
    for f, d in quarks.items():
        L.append('quark %s %s' % (f, _hex(d)))
    return '\n'.join(L) + '\n'


def effective_prereqs(types):
    """What g_type_interface_prerequisites() returns for declared prerequisites (GObject reference manual +
    gtype.c:type_iface_add_prerequisite_W): an interface inherits the prerequisites of its prerequisite
    interfaces, and of the instantiatable prerequisites only the most derived one is reported."""
    decl = {t['name']: list(t.get('prereqs', ())) for t in types if t['k'] == 'interface'}
    decl.setdefault('GAsyncResult', ['GObject'])
    parent = {t['name']: t.get('parent') for t in list(BUILTIN) + list(types)}
    kind = {}
    for t in list(BUILTIN) + list(normalize(types)):
        kind[t['name']] = t['k']

    def root_kind(n):
        while parent.get(n):
            n = parent[n]
        return kind.get(n)

    def closure(n, seen):
        for p in decl.get(n, ()):
            if p not in seen:
                seen.append(p)
                if p in decl:
                    closure(p, seen)
        return seen

    def depth(n):
        d = 0
        while parent.get(n):
            n = parent[n]
            d += 1
        return d

    out = {}
    for n in decl:
        allp = closure(n, [])
        classes = [p for p in allp if root_kind(p) != 'interface' and p not in decl]
        keep = [p for p in allp if p in decl]
        if classes:
            keep.append(max(classes, key=depth))
        out[n] = keep
    return out


def model_xml(types, symbols, quarks, gt_funcs, q_funcs):
    types = [dict(t) for t in types]
    eff = effective_prereqs(types)
    for t in types:
        if t['k'] == 'interface':
            t['prereqs'] = eff[t['name']]
    rt = Runtime(normalize(types), symbols, quarks)
    return rt.dump(gt_funcs, q_funcs)


# -------------------------------------------------------------- comparing ---
UNORDERED_PARENTS = ('class', 'interface', 'fundamental')


def canon(el):
    kids = [canon(k) for k in el]
    if el.tag in UNORDERED_PARENTS:
        kids.sort(key=lambda k: (k[0], dict(k[1]).get('name', '')))
    text = (el.text or '').strip()
    return (el.tag, sorted(el.attrib.items()), kids, text)


def diff(a, b, path=''):
    """First differences of two canonical trees."""
    here = '%s/%s%s' % (path, a[0], ('[%s]' % (dict(a[1]).get('name') or dict(a[1]).get('function') or ''))
                        if (dict(a[1]).get('name') or dict(a[1]).get('function')) else '')
    if a[0] != b[0]:
        return [(here, 'element <%s>' % a[0], 'element <%s>' % b[0])]
    out = []
    if a[1] != b[1]:
        da, db = dict(a[1]), dict(b[1])
        for k in sorted(set(da) | set(db)):
            if da.get(k) != db.get(k):
                out.append(('%s@%s' % (here, k), da.get(k), db.get(k)))
    if a[3] != b[3]:
        out.append((here + '#text', a[3], b[3]))
    ka, kb = a[2], b[2]
    names = lambda ks: ['%s[%s]' % (k[0], dict(k[1]).get('name', '')) for k in ks]
    if names(ka) != names(kb):
        out.append((here + '#children', names(ka), names(kb)))
        return out
    for x, y in zip(ka, kb):
        out.extend(diff(x, y, here))
    return out


# ---------------------------------------------------------------- running ---
_BUILD = {}


def driver():
    if 'b' not in _BUILD:
        from vt.c import build
        b = build.build()
        _BUILD['b'] = (b, b.driver('drv_gdump'))
    return _BUILD['b']


def run_registry(name):
    """-> dict(name, real, model, problems [(path, real value, model value)], items)"""
    types, public, quarks_by_slot = dict(REGISTRIES)[name]()
    symbols, order = {}, []
    slot_of = {}
    for n in public:
        if n not in slot_of:
            slot_of[n] = 'foo_t%02d_get_type' % len(slot_of)
        order.append(slot_of[n])
    # a second function returning an already dumped type: the dumper prints each GType once
    alias = 'foo_t%02d_get_type' % len(slot_of)
    symbols = {f: n for n, f in slot_of.items()}
    symbols[alias] = public[0]
    order.append(alias)
    if len(symbols) > NSLOT or len(quarks_by_slot) > NQ:
        raise HarnessBroken('registry %s needs more slots than drv_gdump.c has' % name)
    quarks = {'foo_q%d_error_quark' % i: d for i, d in quarks_by_slot.items()}
    qorder = sorted(quarks)
    work = os.path.join(ROOT, '.build', 'c12conf', '%d' % os.getpid())
    os.makedirs(work, exist_ok=True)
    reg, fn, outp = (os.path.join(work, x) for x in (name + '.reg', name + '.functions', name + '.xml'))
    local = [t for t in types]
    with open(reg, 'w', encoding='utf-8') as f:
        f.write(registry_text(local, symbols, quarks))
    with open(fn, 'w', encoding='utf-8') as f:
        for s in order:
            f.write('get-type:%s\n' % s)
        for s in qorder:
            f.write('error-quark:%s\n' % s)
    b, exe = driver()
    p = subprocess.run([exe, reg, fn, outp], stdout=subprocess.PIPE, stderr=subprocess.PIPE, env=b.env())
    res = {'name': name, 'real': p.stdout.decode('utf-8', 'replace'), 'stderr': p.stderr.decode('utf-8', 'replace'),
           'problems': [], 'items': 0}
    res['model'] = model_xml(types, symbols, quarks, order, qorder)
    if p.returncode != 0:
        res['problems'].append(('driver', 'exit %d: %s' % (p.returncode, res['stderr'][-400:]), 'a dump'))
        return res
    try:
        ra = canon(ET.fromstring(res['real']))
    except ET.ParseError as e:
        res['problems'].append(('real dump', 'not well-formed: %s' % e, 'well-formed XML'))
        return res
    ma = canon(ET.fromstring(res['model']))
    res['problems'] = diff(ra, ma)
    res['items'] = sum(1 for _ in ET.fromstring(res['model']).iter()) - 1
    for x in (reg, fn, outp):
        try:
            os.unlink(x)
        except OSError:
            pass
    return res
