"""C01 - reference model.

Written from the property statement, docs/website/annotations/giannotations.rst and
docs/gir-1.2.rnc; never from giscanner.  Two layers:

  validity(name, opts, F)   is annotation `name` valid at a site with facts F ?
                            -> 'V' valid, 'I' invalid at this site (a warning MUST be logged and the
                               attribute MUST keep the value it has without the annotation),
                               'M' malformed (wrong option count / unknown option: warning MUST),
                               'U' the documentation does not decide
  predict(case, where, B)   per GIR attribute of the site: ('M', value) or ('U',) or
                            ('C', annotation, value_if_applied, value_if_not) [coupled to whether
                            the implementation warned, used when validity is 'U'],
                            a pattern for the <type>/<array> child, the <attribute> children,
                            expectations on the parameters named by length/closure/destroy, and
                            per annotation whether a warning MUST / MUST NOT appear.

F (site facts) is built from the *input* (C type kind, callable kind, position) - never from the
implementation's output; B (baseline readings) is the site as emitted for the un-annotated run.
"""
from vt.scan import c01_gen as G

U = ('U',)

# Strictness switches.  True = hold the implementation to the letter of the property statement ("an
# annotation that is not valid at its site is reported as a warning and leaves that attribute
# unchanged"); False = classify that family of cases UNSPECIFIED (still executed, never flagged).
STRICT_ENUM_IS_NOT_POINTER = True          # nullable / allow-none / transfer on an enumeration *value*
STRICT_WARN_IN_CALLBACK_AND_SIGNAL = True  # scope / closure / destroy on non-callback parameters of callback
#                                            typedefs and signals must be reported like in functions
STRICT_INVALID_CLOSURE_UNCHANGED = True    # a (closure) the scanner itself reports as invalid must not be applied
STRICT_VFUNC_VIA_INVOKER_NULLABLE = True   # gpointer + (type T) is not nullable also when the annotation reaches a
#                                            virtual method through its invoker


def M(v):
    return ('M', v)


ABSENT = None

SITE_ATTRS = ['transfer-ownership', 'direction', 'caller-allocates', 'nullable', 'allow-none', 'optional',
              'skip', 'scope', 'closure', 'destroy']

FUNCLIKE = ('function', 'method', 'vfunc', 'vfunc_inv')

TRANSFER_VALUES = ('none', 'container', 'full', 'floating')
SCOPE_VALUES = ('call', 'async', 'notified', 'forever')

# (type T)/(element-type T) menu -> GIR name
TYPE_NAMES = {'gint': 'gint', 'utf8': 'utf8', 'FooRec': 'Rec', 'GObject.Object': 'GObject.Object',
              'guint8': 'guint8', 'gpointer': 'gpointer'}
POINTERISH_ELEM = ('utf8', 'FooRec', 'GObject.Object', 'gpointer')
BYTE_ELEM = ('guint8',)


class Facts(object):
    """Input-side facts about a site."""

    def __init__(self, callable_, part, cat, depth, names=(), cats=None):
        self.callable = callable_      # function|method|callback|vfunc|vfunc_inv|signal
        self.part = part               # 'param' | 'ret' | 'self'
        self.cat = cat                 # type category (c01_gen.KINDS)
        self.depth = depth             # pointer depth of the C spelling
        self.names = list(names)       # parameter names of the callable (incl. instance)
        self.cats = cats or {}         # name -> category of the other parameters

    forced_pointer = False

    @property
    def pointerish(self):
        """Is the value a pointer (function pointers and gpointer included)?"""
        return self.forced_pointer or self.depth >= 1 or self.cat in ('any', 'callback', 'dnotify')

    def overridden(self, cat):
        """The same site after a (type T) override that changes the kind of the value: "override the parsed
        C type with given type" - the overridden type is the value's type for validity purposes."""
        f = Facts(self.callable, self.part, cat, self.depth, self.names, self.cats)
        f.forced_pointer = True          # every category in OVERRIDE_CAT is a pointer-like value
        return f


# (type T) menu entries that change the kind of the value -> category of the overridden value
OVERRIDE_CAT = {'FooRec': 'rec', 'GObject.Object': 'object', 'utf8': 'str', 'GLib.List(utf8)': 'list'}


def facts_of(case):
    cat = G.KINDS[case['kind']][1]
    depth = G.KINDS[case['kind']][2]
    part = {'p': 'param', 'ret': 'ret', 'self': 'self'}[case['site']]
    names = [n for _, n in G.param_list(case)]
    cats = {'n': 'int', 'ctx': 'any', 'user_data': 'any', 'dn': 'dnotify', 'self': 'self'}
    if case['callable'] in ('method', 'vfunc', 'vfunc_inv'):
        names = ['self'] + names
    return Facts(case['callable'], part, cat, depth, names, cats)


def well_formed(name, opts):
    """Option-level validity (what the documentation's vocabulary admits)."""
    if name == 'transfer':
        return len(opts) == 1 and opts[0] in TRANSFER_VALUES
    if name == 'scope':
        return len(opts) == 1 and opts[0] in SCOPE_VALUES
    if name == 'out':
        return len(opts) == 0 or (len(opts) == 1 and opts[0] in ('caller-allocates', 'callee-allocates'))
    if name in ('in', 'inout', 'nullable', 'optional', 'allow-none', 'skip'):
        return len(opts) == 0
    if name == 'not':
        return len(opts) == 1 and opts[0] in ('nullable', 'optional')
    if name == 'array':
        for o in opts:
            k, _, v = o.partition('=')
            if k == 'length':
                if not v:
                    return False
            elif k == 'fixed-size':
                if not v.lstrip('-').isdigit():
                    return False
            elif k == 'zero-terminated':
                if v not in ('', '0', '1'):
                    return False
            else:
                return False
        return True
    if name == 'element-type':
        return 1 <= len(opts) <= 2
    if name == 'type':
        return len(opts) == 1
    if name == 'closure':
        return len(opts) <= 1
    if name == 'destroy':
        return len(opts) == 1
    if name == 'attributes':
        return len(opts) >= 1
    return False            # not a parameter/return annotation at all


def array_opts(opts):
    d = {}
    for o in opts:
        k, _, v = o.partition('=')
        d[k] = v if _ else None
    return d


def validity(name, opts, F, eff_dir, others):
    """others: {annotation name: opts} of the other annotations on the same site."""
    if not well_formed(name, opts):
        return 'M'
    ret = F.part == 'ret'
    out_param = (not ret) and eff_dir in ('out', 'inout')
    type_over = 'type' in others
    if type_over and name in ('transfer', 'nullable', 'allow-none'):
        t = others['type'][0] if len(others['type']) == 1 else None
        if t in OVERRIDE_CAT:
            F = F.overridden(OVERRIDE_CAT[t])
            type_over = False
        elif t == 'gint' and F.cat in ('int', 'enum') and F.depth == 0:
            type_over = False            # an integer stays an integer
    if name == 'transfer':
        mode = opts[0]
        if mode == 'floating':
            if type_over or F.cat in ('unresolved', 'any'):
                return 'U'
            return 'V' if F.cat in ('object', 'variant', 'gclosure') else 'I'
        if mode == 'container':
            if 'array' in others:
                return 'V'
            if type_over:
                return 'U'
            return 'V' if (F.cat in G.CONTAINER_CATS or F.cat == 'carray') else 'I'
        if out_param:
            return 'V'
        if eff_dir == 'U' or type_over:
            return 'U'
        if F.cat in ('callback', 'dnotify'):
            return 'U'
        if F.cat in ('int', 'enum') and F.depth == 0:
            if F.cat == 'enum' and not STRICT_ENUM_IS_NOT_POINTER:
                return 'U'
            return 'U' if 'array' in others else 'I'
        return 'V'
    if name in ('in', 'out', 'inout'):
        return 'I' if ret else 'V'
    if name == 'nullable':
        if out_param:
            return 'V'
        if eff_dir == 'U' or type_over:
            return 'U'
        if 'array' in others and not F.pointerish:
            return 'U'
        if F.cat == 'enum' and F.depth == 0 and not STRICT_ENUM_IS_NOT_POINTER:
            return 'U'
        return 'V' if F.pointerish else 'I'
    if name == 'optional':
        if ret:
            return 'I'
        if eff_dir == 'U':
            return 'U'
        return 'V' if out_param else 'I'
    if name == 'allow-none':
        if out_param:
            return 'V'
        if eff_dir == 'U' or type_over:
            return 'U'
        if 'array' in others and not F.pointerish:
            return 'U'
        if F.cat == 'enum' and F.depth == 0 and not STRICT_ENUM_IS_NOT_POINTER:
            return 'U'
        return 'V' if F.pointerish else 'I'
    if name in ('not', 'skip', 'attributes'):
        return 'V'
    if name == 'array':
        if type_over:
            return 'U'
        if F.cat in ('garray', 'ptrarray', 'bytearray', 'carray'):
            return 'V'
        if F.cat in ('list', 'hash', 'any', 'callback', 'dnotify', 'unresolved'):
            return 'U'
        if F.depth >= 1 or out_param:
            return 'V'
        return 'U'
    if name == 'element-type':
        if type_over:
            return 'U'
        n = len(opts)
        if 'array' in others:
            return 'V' if n == 1 else 'U'
        if F.cat in ('list', 'garray', 'ptrarray', 'bytearray', 'carray'):
            if n != 1:
                return 'I'
            if F.cat == 'ptrarray' and opts[0] not in POINTERISH_ELEM:
                return 'U'
            if F.cat == 'bytearray' and opts[0] not in BYTE_ELEM:
                return 'U'
            return 'V'
        if F.cat == 'hash':
            return 'V' if n == 2 else 'I'
        if F.cat == 'unresolved':
            return 'U'
        return 'I'
    if name == 'type':
        return 'V'
    if name in ('scope', 'closure', 'destroy'):
        if ret or F.part == 'self':
            return 'I'
        if type_over:
            return 'U'
        if F.callable in FUNCLIKE:
            if F.cat == 'dnotify':
                return 'U'
            if F.cat != 'callback':
                return 'I' if F.cat != 'unresolved' else 'U'
            if name == 'scope':
                return 'V'
            if name == 'closure':
                if not opts:
                    return 'U'            # bare (closure) is documented for callback typedefs only
                tgt = F.cats.get(opts[0])
                if tgt is None:
                    return 'U'
                return 'V' if tgt == 'any' else 'I'
            if name == 'destroy':
                tgt = F.cats.get(opts[0])
                return 'V' if tgt == 'dnotify' else 'U'
        if F.callable == 'callback':
            if name == 'closure':
                if opts:
                    return 'I'
                if F.cat == 'any':
                    return 'V'
                return 'I' if F.cat != 'unresolved' else 'U'
            # scope / destroy inside a callback typedef
            if F.cat in ('callback', 'dnotify', 'unresolved'):
                return 'U'
            return 'I' if STRICT_WARN_IN_CALLBACK_AND_SIGNAL else 'U'
        if F.callable == 'signal':
            if F.cat in ('callback', 'dnotify', 'unresolved'):
                return 'U'
            return 'I' if STRICT_WARN_IN_CALLBACK_AND_SIGNAL else 'U'
    return 'U'


# ------------------------------------------------------------------- patterns ---
def pat_of_tree(t):
    """Exact pattern from a dumped element [tag, attrs, text, kids]."""
    return {'tag': t[0], 'attrs': {k: M(v) for k, v in t[1].items()}, 'closed': True,
            'kids': [pat_of_tree(k) for k in t[3]]}


def pat_type(name, ctype=U, kids=()):
    return {'tag': 'type', 'attrs': {'name': M(name), 'c:type': ctype}, 'closed': True, 'kids': list(kids)}


def match(pat, t, path='type'):
    """-> None or description of the first mismatch between pattern and dumped element."""
    if pat is U:
        return None
    if t is None:
        return '%s: element missing' % path
    if pat['tag'] != t[0]:
        return '%s: element <%s>, expected <%s>' % (path, t[0], pat['tag'])
    for k, e in pat['attrs'].items():
        if e is U:
            continue
        if e[0] == 'ZT':
            got = t[1].get('zero-terminated')
            eff = (got == '1') or (got is None and 'length' not in t[1] and 'fixed-size' not in t[1])
            if got not in (None, '0', '1') or eff != e[1]:
                return '%s: zero-terminated=%r (effective %s), expected effective %s' % (path, got, eff, e[1])
            continue
        if t[1].get(k) != e[1]:
            return '%s: attribute %s=%r, expected %r' % (path, k, t[1].get(k), e[1])
    if pat.get('closed'):
        for k in t[1]:
            if k not in pat['attrs']:
                return '%s: unexpected attribute %s=%r' % (path, k, t[1][k])
    if pat['kids'] is U:
        return None
    if len(pat['kids']) != len(t[3]):
        return '%s: %d child type(s), expected %d' % (path, len(t[3]), len(pat['kids']))
    for i, (pk, tk) in enumerate(zip(pat['kids'], t[3])):
        r = match(pk, tk, '%s/%d' % (path, i))
        if r:
            return r
    return None


class Exp(object):
    def __init__(self):
        self.attrs = {}
        self.type = U
        self.attributes = U
        self.warn = {}            # annotation text -> 'M' | 'N' | 'U'
        self.warn_pos = {}        # annotation text -> must the position be the site line?
        self.others = {}          # parameter name -> {attr: expectation}; unlisted attrs = baseline
        self.eff_dir = None
        self.fatal = 'N'          # 'M' the scan must fail with a logged error, 'N' must not, 'U'
        self.nontrivial = False


def elem_name(t):
    return TYPE_NAMES.get(t)


def predict(case, B, index_of, label=None, inherit_dir=None):
    """B: {'attrs': {...}, 'type': dumped type element, 'attributes': [(k, v)...]} of the baseline site.
    index_of(name) -> position of the parameter in the emitted <parameter> list of this callable
    (None if it is not there, e.g. the instance parameter)."""
    case = dict(case, anns=[a for a in case['anns'] if not a.startswith('@')])
    F = facts_of(case)
    e = Exp()
    parsed = [G.parse_ann(a) for a in case['anns']]
    text_of = {}
    byname = {}
    dup = False
    for a, (n, o) in zip(case['anns'], parsed):
        key = n if n != 'not' else 'not ' + (o[0] if o else '')
        if key in byname or (n == 'not' and any(k.startswith('not ') for k in byname)):
            dup = True                # two (not ...) are one annotation name: the parser reports an error
        byname[key] = o
        text_of[key] = a
    if dup:
        # the same annotation twice: nothing is specified
        for k in SITE_ATTRS:
            e.attrs[k] = U
        for a in case['anns']:
            e.warn[a] = 'U'
        e.fatal = 'U'
        for n, o in parsed:
            # parameters named by the annotations may change in unspecified ways as well
            refs = [array_opts(o).get('length')] if n == 'array' and well_formed(n, o) else \
                (o[:1] if n in ('closure', 'destroy') else [])
            for r in refs:
                if r in F.names:
                    e.others.setdefault(r, {}).update({k: U for k in (
                        'direction', 'caller-allocates', 'transfer-ownership', 'scope', 'nullable', 'allow-none')})
        return e
    ba = B['attrs']
    if B['type'] is not None and B['type'][0] == 'array' and F.cat not in G.CONTAINER_CATS:
        F.cat = 'carray'          # e.g. a char** return value is described as a C array by default
    ret = F.part == 'ret'
    param = not ret

    def others_of(key):
        return {k: v for k, v in byname.items() if k != key}

    # ---- effective direction --------------------------------------------------
    b_dir = ba.get('direction', 'in') if param else None
    dir_keys = [k for k in byname if k in ('in', 'out', 'inout')]
    eff_dir = b_dir
    ca = U
    if param and dir_keys:
        if len(dir_keys) > 1:
            eff_dir = 'U'
        else:
            k = dir_keys[0]
            o = byname[k]
            if not well_formed(k, o):
                eff_dir = 'U'
            else:
                eff_dir = k
                if k == 'out':
                    if o == ['caller-allocates']:
                        ca = M('1')
                    elif o == ['callee-allocates']:
                        ca = M('0')
                    elif F.callable == 'signal' and 'type' in byname:
                        pass      # signal parameters have no C spelling whose indirection could be counted
                    elif (F.cat == 'rec' and 'type' not in byname) or byname.get('type') == ['FooRec']:
                        # "(out) automatically infers this from ... double indirection / single
                        # indirection on a structure parameter"; a (type) override to a structure makes it one
                        ca = M('1') if F.depth < 2 else M('0')
    inherited_inout = False
    conflict = False
    if inherit_dir is not None and param:
        # this parameter is the length of an array: "An array length annotation also makes the named length
        # parameter follow the array's direction" - its own annotations are judged with that direction
        if dir_keys and eff_dir != inherit_dir:
            # the length parameter carries its own, different direction.  Declared before the array
            # (layout 3) the array's annotation is the last word: n follows the array.  Declared after it the
            # two annotations contradict each other and the documentation does not say which wins.
            eff_dir = inherit_dir if (case.get('layout') == 3 and eff_dir != 'U') else 'U'
            ca = U
            inherited_inout = True           # (transfer left unspecified as well)
            conflict = True
        elif not dir_keys:
            eff_dir = inherit_dir
        if eff_dir == 'inout':
            inherited_inout = True           # which default transfer an inout length gets is not documented
    e.eff_dir = eff_dir
    dir_changed = param and eff_dir != b_dir

    val = {}
    for key, o in byname.items():
        n = key.split()[0]
        val[key] = validity(n, o, F, eff_dir, others_of(key))
    type_over = 'type' in byname

    # ---- direction / caller-allocates ----------------------------------------
    if param:
        if eff_dir == 'U':
            e.attrs['direction'] = U
            e.attrs['caller-allocates'] = U
        elif eff_dir == 'in':
            e.attrs['direction'] = M(ABSENT)
            e.attrs['caller-allocates'] = M(ABSENT)
        else:
            e.attrs['direction'] = M(eff_dir)
            e.attrs['caller-allocates'] = ca if dir_changed else M(ba.get('caller-allocates'))
    else:
        e.attrs['direction'] = M(ABSENT)
        e.attrs['caller-allocates'] = M(ABSENT)

    # ---- transfer ---------------------------------------------------------------
    ret_dir_ann = ret and any(k in byname for k in ('in', 'out', 'inout'))

    def transfer_without_annotation():
        if ret_dir_ann and type_over:
            return U          # an (invalid) direction on a return value next to a type override
        if conflict:
            return U
        if dir_changed:
            if eff_dir == 'U' or F.cat in ('callback', 'dnotify') or inherited_inout:
                return U
            if eff_dir == 'in':
                return M('none')
            # "(inout) and (out) parameters: (transfer full); if (caller allocates) is set: (transfer none)"
            return ('DEFAULT-OUT',)
        return M(ba.get('transfer-ownership'))

    if 'transfer' in byname:
        v = val['transfer']
        o = byname['transfer']
        applied = None
        if v in ('V', 'U'):
            applied = 'none' if o[0] == 'floating' else o[0]
        if F.cat in ('callback', 'dnotify'):
            e.attrs['transfer-ownership'] = U
        elif v == 'V':
            e.attrs['transfer-ownership'] = M(applied)
        elif v == 'U':
            e.attrs['transfer-ownership'] = ('C', text_of['transfer'], M(applied), transfer_without_annotation())
        else:
            e.attrs['transfer-ownership'] = transfer_without_annotation()
    else:
        e.attrs['transfer-ownership'] = transfer_without_annotation()

    # ---- nullable / optional / allow-none -------------------------------------
    nullable = M(ba.get('nullable') == '1')
    optional = M(ba.get('optional') == '1')
    if type_over:
        if F.cat == 'any' and byname['type'] != ['gpointer']:
            # "gpointer parameters and return types [are nullable] unless also annotated with (type)"
            nullable = M(False)
        if byname['type'] == ['gpointer'] or not well_formed('type', byname['type']) or \
                byname['type'][0] not in TYPE_NAMES and byname['type'][0] != 'GLib.List(utf8)':
            nullable = U
    if F.cat == 'any' and 'array' in byname:
        nullable = U              # no longer a plain gpointer; the convention does not say
    if F.callable == 'callback' and 'closure' in byname and val['closure'] == 'V':
        # "(closure) parameters and their corresponding user data parameters" are nullable by convention
        nullable = M(True)
    elif F.callable == 'callback' and 'closure' in byname and val['closure'] == 'U':
        nullable = U
    if 'nullable' in byname:
        v = val['nullable']
        if v == 'V':
            nullable = M(True)
        elif v == 'U':
            nullable = ('C', text_of['nullable'], M(True), nullable)
    if 'optional' in byname:
        v = val['optional']
        if v == 'V':
            optional = M(True)
        elif v == 'U':
            optional = ('C', text_of['optional'], M(True), optional)
    if 'allow-none' in byname:
        v = val['allow-none']
        if v == 'V':
            if param and eff_dir == 'out':
                optional = M(True)
            elif param and eff_dir == 'inout':
                nullable = U
                optional = U
            else:
                nullable = M(True)
        elif v == 'U':
            nullable = U
            optional = U
    if 'not nullable' in byname:
        nullable = M(False)
    if 'not optional' in byname:
        optional = M(False)
    if ret:
        optional = M(False)

    def flag(x):
        if x is U or x[0] == 'C':
            if x is U:
                return U
            return ('C', x[1], flag(x[2]), flag(x[3]))
        return M('1' if x[1] else ABSENT)

    e.attrs['nullable'] = flag(nullable)
    e.attrs['optional'] = flag(optional)
    # allow-none is the deprecated spelling "replaced by nullable and optional": for in parameters
    # it meant nullable, for out parameters it meant optional
    if param and eff_dir == 'in' and nullable is not U and nullable[0] == 'M':
        e.attrs['allow-none'] = M('1' if nullable[1] else ABSENT)
    elif param and eff_dir == 'out' and optional is not U and optional[0] == 'M':
        e.attrs['allow-none'] = M('1' if optional[1] else ABSENT)
    else:
        e.attrs['allow-none'] = U
    if (nullable is not U and nullable[0] == 'M' and not nullable[1] and
            optional is not U and optional[0] == 'M' and not optional[1]):
        e.attrs['allow-none'] = M(ABSENT)

    # ---- skip ---------------------------------------------------------------------
    e.attrs['skip'] = M('1') if 'skip' in byname else M(ba.get('skip'))

    # ---- scope / closure / destroy ------------------------------------------------
    for k in ('scope', 'closure', 'destroy'):
        e.attrs[k] = M(ba.get(k))
    cbsite = F.part == 'param' and F.cat == 'callback' and F.callable in FUNCLIKE and not type_over
    if any(k in byname for k in ('scope', 'closure', 'destroy')) and (F.cat == 'dnotify' or type_over
                                                                       or F.cat == 'unresolved'):
        for k in ('scope', 'closure', 'destroy'):
            e.attrs[k] = U
        for k in ('closure', 'destroy'):
            if k in byname and byname[k] and byname[k][0] in F.names:
                e.others.setdefault(byname[k][0], {}).update({'scope': U, 'nullable': U, 'allow-none': U})
    elif cbsite:
        destroy_in_effect = ba.get('destroy') is not None
        if 'destroy' in byname:
            if val['destroy'] == 'V':
                e.attrs['destroy'] = M(str(index_of(byname['destroy'][0])))
                destroy_in_effect = True
                e.others[byname['destroy'][0]] = {'scope': U}
            else:
                e.attrs['destroy'] = U
                e.attrs['scope'] = U
                destroy_in_effect = True
                if byname['destroy'] and well_formed('destroy', byname['destroy']):
                    e.others[byname['destroy'][0]] = {'scope': U}
        if 'closure' in byname:
            v = val['closure']
            o = byname['closure']
            if v == 'V':
                e.attrs['closure'] = M(str(index_of(o[0])))
            elif v == 'I' and o:
                pass        # unchanged (set above), warning MUST
            else:
                e.attrs['closure'] = U
            if o and well_formed('closure', o):
                # "(closure) parameters and their corresponding user data parameters" are nullable
                e.others.setdefault(o[0], {}).update({'nullable': U, 'allow-none': U})
        if 'scope' in byname and val['scope'] != 'M':
            v = val['scope']
            if v == 'V' and not destroy_in_effect:
                e.attrs['scope'] = M(byname['scope'][0])
            else:
                e.attrs['scope'] = U
        elif destroy_in_effect and e.attrs['scope'] is not U and 'destroy' in byname and val['destroy'] == 'V':
            # "notified - valid until the GDestroyNotify argument is called"
            e.attrs['scope'] = M('notified')
    elif F.callable == 'callback' and F.part == 'param' and 'closure' in byname:
        v = val['closure']
        if v == 'V':
            e.attrs['closure'] = M(str(index_of('p')))
        elif v == 'U':
            e.attrs['closure'] = U
    for k in ('scope', 'closure', 'destroy'):
        if k in byname and val[k] == 'U':
            e.attrs[k] = U
    if F.cat in ('callback', 'dnotify') and (dir_changed or 'array' in byname or type_over):
        # the value is no longer (known to be) a callback: pairing heuristics are C02's subject
        for k in ('scope', 'closure', 'destroy'):
            e.attrs[k] = U

    # ---- <attribute> children -------------------------------------------------------
    attrs = list(B['attributes'])
    if 'attributes' in byname:
        for o in byname['attributes']:
            k, _, v = o.partition('=')
            if v:
                attrs = [x for x in attrs if x[0] != k] + [(k, v)]
    e.attributes = M(attrs)

    # ---- type ---------------------------------------------------------------------------
    bt = B['type']
    b_is_array = bt[0] == 'array'
    e.type = pat_of_tree(bt)
    tkeys = [k for k in ('type', 'array', 'element-type') if k in byname]
    length_name = None
    if len(tkeys) > 1 and 'type' in tkeys:
        e.type = U
        if 'array' in byname and well_formed('array', byname['array']):
            ln = array_opts(byname['array']).get('length')
            if ln:
                e.fatal = 'U'
                if ln in F.names:
                    e.others.setdefault(ln, {}).update(
                        {'direction': U, 'caller-allocates': U, 'transfer-ownership': U})
    elif 'type' in tkeys:
        t = byname['type'][0] if byname['type'] else None
        if t in TYPE_NAMES:
            e.type = pat_type(TYPE_NAMES[t])
        elif t == 'GLib.List(utf8)':
            e.type = pat_type('GLib.List', kids=[pat_type('utf8')])
        else:
            e.type = U
    elif 'array' in tkeys:
        v = val['array']
        ao = array_opts(byname['array']) if v != 'M' else {}
        if v == 'V':
            attrs_p = {'c:type': M(bt[1].get('c:type')),
                       'name': M(bt[1].get('name')) if b_is_array else M(ABSENT),
                       'length': M(ABSENT), 'fixed-size': M(ABSENT)}
            if 'length' in ao:
                idx = index_of(ao['length'])
                if ao['length'] not in F.names:
                    e.fatal = 'M'
                    attrs_p['length'] = U
                elif idx is None:
                    e.fatal = 'U'           # names the instance parameter
                    attrs_p['length'] = U
                else:
                    attrs_p['length'] = M(str(idx))
                    length_name = ao['length']
            if 'fixed-size' in ao:
                attrs_p['fixed-size'] = M(str(int(ao['fixed-size'])))
            if 'zero-terminated' in ao:
                z = ao['zero-terminated']
                # the value-less spelling (array zero-terminated) means true
                attrs_p['zero-terminated'] = ('ZT', z != '0') if z in ('0', '1', None) else U
            elif 'length' in ao or 'fixed-size' in ao:
                attrs_p['zero-terminated'] = ('ZT', False)
            else:
                attrs_p['zero-terminated'] = U
            if 'element-type' in byname:
                o = byname['element-type']
                kid = pat_type(TYPE_NAMES[o[0]]) if (len(o) == 1 and o[0] in TYPE_NAMES and
                                                     val['element-type'] == 'V') else U
            elif b_is_array:
                kid = pat_of_tree(bt[3][0]) if bt[3] else U
            else:
                kid = pat_type(bt[1].get('name')) if bt[1].get('name') else U
            e.type = {'tag': 'array', 'attrs': attrs_p, 'closed': True, 'kids': [kid]}
        else:
            e.type = U
            if 'length' in ao:
                e.fatal = 'U'
                length_name = ao['length'] if ao['length'] in F.names else None
        if length_name:
            if v == 'V':
                d = eff_dir if param else 'out'
                o = {}
                if d == 'U' or ret_dir_ann:
                    o = {'direction': U, 'caller-allocates': U, 'transfer-ownership': U}
                elif d == 'in':
                    o = {}
                else:
                    o = {'direction': M(d), 'caller-allocates': U,
                         'transfer-ownership': M('full') if d == 'out' else U}
                e.others.setdefault(length_name, {}).update(o)
            else:
                e.others.setdefault(length_name, {}).update(
                    {'direction': U, 'caller-allocates': U, 'transfer-ownership': U})
    elif 'element-type' in tkeys:
        v = val['element-type']
        o = byname['element-type']
        if v == 'V':
            kids = [pat_type(TYPE_NAMES[x]) if x in TYPE_NAMES else U for x in o]
            p = pat_of_tree(bt)
            p['kids'] = kids
            e.type = p
        elif v == 'I':
            pass                  # unchanged
        else:
            e.type = U

    # ---- warnings -------------------------------------------------------------------------
    for key, o in byname.items():
        a = text_of[key]
        v = val[key]
        if v in ('I', 'M'):
            e.warn[a] = 'M'
        elif v == 'V':
            e.warn[a] = 'N'
        else:
            e.warn[a] = 'U'
        e.warn_pos[a] = True
    if 'type' in byname and byname['type'] == ['FooNoSuch']:
        e.warn[text_of['type']] = 'M'
        e.warn_pos[text_of['type']] = False
    if 'not nullable' in byname and ('nullable' in byname or 'allow-none' in byname):
        pass
    if not STRICT_INVALID_CLOSURE_UNCHANGED and 'closure' in byname and val['closure'] == 'I' and \
            F.part == 'param' and (F.callable == 'callback' or F.cat == 'callback'):
        for k in ('closure', 'nullable', 'allow-none'):
            e.attrs[k] = U
    if not STRICT_VFUNC_VIA_INVOKER_NULLABLE and label in ('vfunc', 'vfunc-field') and \
            case['callable'] == 'vfunc_inv' and F.cat == 'any':
        e.attrs['nullable'] = U
        e.attrs['allow-none'] = U
    base_pat = pat_of_tree(bt)
    e.nontrivial = (any(x == 'M' for x in e.warn.values()) or bool(e.others) or e.fatal == 'M' or
                    (e.type is not U and e.type != base_pat) or
                    (e.attributes is not U and e.attributes[1] != list(B['attributes'])) or
                    any(x is not U and (x[0] != 'M' or x[1] != ba.get(k)) for k, x in e.attrs.items()))
    return e


# ------------------------------------------------------- warnings recognition ---
def names_annotation(ann, text):
    """Does a diagnostic text name this annotation (by name or by an option value)?"""
    n, opts = G.parse_ann(ann)
    if n == 'not':
        n = 'not'
    t = text
    if ('"%s"' % n) in t or ('(%s)' % n) in t or ('annotation: %s' % n) in t or ('%s annotation' % n) in t:
        return True
    if n == 'type' and opts and ("'%s'" % opts[0]) in t:
        return True
    if n == 'array' and 'length' in ann and "can't find parameter" in t:
        return True
    return False
