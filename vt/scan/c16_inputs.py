"""Inputs of the C16 check: small namespaces chosen so that every set the pipeline
creates gets >= 2 elements somewhere (node positions of typedef/struct pairs and of
class / class-struct pairs, doc-vs-declared parameter sets, exported packages,
c:includes, includes of dependencies), plus three generated dependency GIRs whose
include sets have more than one element.

An input is a plain dict (so that a replay file can name it):
    name, decls [Decl], files [index -> '/src/a.h' | '/src/b.h'], blocks [(text, lineno)],
    opts {includes, packages, c_includes, ...}, dump {get_type function -> xml}, quarks {...}
"""
import os

from vt.core import ROOT
from vt.scan import fake, run
from vt.scan.fake import (Func, Callback, Typedef, Struct, TypedefAnon, Enum, Const, Macro, Field,
                          FieldCb, FieldAnon, CTYPE_TYPEDEF, CSYMBOL_TYPE_TYPEDEF)

BUILD = os.path.join(ROOT, '.build', 'c16')
DEPDIR = os.path.join(BUILD, 'deps')

_HDR = ('<?xml version="1.0"?>\n<repository version="1.2" xmlns="http://www.gtk.org/introspection/core/1.0" '
        'xmlns:c="http://www.gtk.org/introspection/c/1.0" xmlns:glib="http://www.gtk.org/introspection/glib/1.0">\n')


def dep_text(name, variant=0):
    """Text of a generated dependency GIR.  variant 1 is a later edition of the same file
    (used by the cache-history part: serving the old parse after the file changed is
    visible in the output)."""
    if name == 'Top-1.0':
        rec = 'Item' if variant == 0 else 'Entry'
        return _HDR + (
            '  <include name="Aa" version="1.0"/>\n  <include name="Bb" version="1.0"/>\n'
            '  <include name="GObject" version="2.0"/>\n'
            '  <package name="top-1.0"/>\n  <package name="top-extra-1.0"/>\n'
            '  <c:include name="top.h"/>\n  <c:include name="top-extra.h"/>\n'
            '  <namespace name="Top" version="1.0" shared-library="libtop.so.1" c:identifier-prefixes="Top" '
            'c:symbol-prefixes="top">\n'
            '    <record name="%s" c:type="TopItem">\n      <field name="n" writable="1"><type name="gint" c:type="gint"/></field>\n'
            '    </record>\n'
            '    <callback name="Notify" c:type="TopNotify">\n      <return-value transfer-ownership="none"><type name="none" c:type="void"/></return-value>\n'
            '      <parameters><parameter name="data" transfer-ownership="none" nullable="1" allow-none="1">'
            '<type name="gpointer" c:type="gpointer"/></parameter></parameters>\n    </callback>\n'
            '  </namespace>\n</repository>\n') % rec
    if name in ('Aa-1.0', 'Bb-1.0'):
        ns = name[:2]
        own = 'Alpha' if ns == 'Aa' else 'Beta'
        if variant:
            own += 'Two'
        return _HDR + (
            '  <include name="GLib" version="2.0"/>\n'
            '  <package name="%(l)s-1.0"/>\n  <package name="%(l)s-common"/>\n  <c:include name="%(l)s.h"/>\n'
            '  <namespace name="%(ns)s" version="1.0" shared-library="lib%(l)s.so.1" c:identifier-prefixes="Xy" '
            'c:symbol-prefixes="xy_%(l)s">\n'
            '    <record name="Thing" c:type="XyThing">\n      <field name="v" writable="1"><type name="gint" c:type="gint"/></field>\n    </record>\n'
            '    <record name="%(own)s" c:type="Xy%(o)s">\n      <field name="v" writable="1"><type name="gint" c:type="gint"/></field>\n    </record>\n'
            '    <enumeration name="Mode%(ns)s" c:type="XyMode%(ns)s"><member name="on" value="1" c:identifier="XY_MODE_%(u)s_ON"/></enumeration>\n'
            '  </namespace>\n</repository>\n') % {'ns': ns, 'l': ns.lower(), 'u': ns.upper(), 'own': own,
                                                 'o': 'Alpha' if ns == 'Aa' else 'Beta'}
    if name in ('High-1.0', 'Low-1.0'):
        # two namespaces with the same identifier prefix, one including the other, both describing the
        # same C type (like GIOCondition in GLib and GObject)
        ns = name[:-4]
        inc = '  <include name="Low" version="1.0"/>\n' if ns == 'High' else ''
        return _HDR + inc + (
            '  <package name="%(l)s-1.0"/>\n  <c:include name="%(l)s.h"/>\n'
            '  <namespace name="%(ns)s" version="1.0" shared-library="lib%(l)s.so.1" c:identifier-prefixes="Hl" '
            'c:symbol-prefixes="hl_%(l)s">\n'
            '    <bitfield name="Cond" c:type="HlCond"><member name="in" value="1" c:identifier="HL_COND_IN"/>'
            '<member name="out" value="2" c:identifier="HL_COND_OUT"/></bitfield>\n'
            '    <record name="Only%(ns)s" c:type="HlOnly%(ns)s">\n      <field name="v" writable="1"><type name="gint" c:type="gint"/></field>\n    </record>\n'
            '  </namespace>\n</repository>\n') % {'ns': ns, 'l': ns.lower()}
    raise KeyError(name)


GENERATED = ('Top-1.0', 'Aa-1.0', 'Bb-1.0', 'High-1.0', 'Low-1.0')
INCDIRS = {'inc_a': 'Thing', 'inc_b': 'Item'}     # two directories holding a different Dep-1.0.gir


def incdep_text(recname):
    return _HDR + (
        '  <package name="dep-1.0"/>\n  <c:include name="dep.h"/>\n'
        '  <namespace name="Dep" version="1.0" shared-library="libdep.so.1" c:identifier-prefixes="Dep" '
        'c:symbol-prefixes="dep">\n'
        '    <record name="%s" c:type="DepThing">\n      <field name="v" writable="1"><type name="gint" c:type="gint"/></field>\n'
        '    </record>\n  </namespace>\n</repository>\n') % recname


def write_atomic(path, data, mtime_ns=None):
    """mtime_ns: integer nanoseconds (sub-second timestamps are set exactly)."""
    tmp = '%s.%d.tmp' % (path, os.getpid())
    with open(tmp, 'w' if isinstance(data, str) else 'wb') as f:
        f.write(data)
    if mtime_ns is not None:
        os.utime(tmp, ns=(mtime_ns, mtime_ns))
    os.replace(tmp, path)


def ensure_deps(dirname=DEPDIR, copy_mini=False):
    """Write the generated dependency GIRs (idempotent; same bytes every time)."""
    os.makedirs(dirname, exist_ok=True)
    for n in GENERATED:
        p = os.path.join(dirname, n + '.gir')
        text = dep_text(n)
        try:
            with open(p) as f:
                if f.read() == text:
                    continue
        except OSError:
            pass
        write_atomic(p, text)
    for d, rec in sorted(INCDIRS.items()):
        dd = os.path.join(os.path.dirname(dirname), d) if dirname == DEPDIR else os.path.join(dirname, d)
        os.makedirs(dd, exist_ok=True)
        p = os.path.join(dd, 'Dep-1.0.gir')
        text = incdep_text(rec)
        try:
            with open(p) as f:
                if f.read() == text:
                    continue
        except OSError:
            pass
        write_atomic(p, text)
    if copy_mini:
        for n in ('GLib-2.0', 'GObject-2.0', 'Gio-2.0'):
            with open(os.path.join(run.DEPS, n + '.gir')) as f:
                text = f.read()
            p = os.path.join(dirname, n + '.gir')
            try:
                with open(p) as f:
                    if f.read() == text:
                        continue
            except OSError:
                pass
            write_atomic(p, text)
    return dirname


# ------------------------------------------------------------------ inputs ---
A, B = '/src/a.h', '/src/b.h'


def _dumpxml(kind, name, get_type, body='', **attrs):
    """One element of the runtime dump, kept structured so that the order of its children
    (properties, signals, implemented interfaces, prerequisites) can be permuted."""
    import xml.etree.ElementTree as ET
    a = ''.join(' %s="%s"' % (k.replace('_', '-'), v) for k, v in attrs.items())
    kids = [ET.tostring(k, encoding='unicode') for k in ET.fromstring('<x>%s</x>' % body)]
    return {'open': '<%s name="%s" get-type="%s"%s>' % (kind, name, get_type, a), 'close': '</%s>' % kind,
            'kids': kids, 'kind': kind}


def dump_text(el, order=None):
    kids = el['kids']
    if order is not None:
        kids = [kids[i] for i in order]
    return el['open'] + ''.join(kids) + el['close']


def permutable_kids(el):
    """Enum members are the declaration order of the enumerators and are not permuted."""
    return el['kind'] in ('class', 'interface') and len(el['kids']) >= 2


def _inp(name, decls, files=None, blocks=(), dump=None, quarks=None, **opts):
    n = len(decls)
    return {'name': name, 'decls': decls, 'files': list(files) if files else [A] * n,
            'blocks': list(blocks), 'dump': dump, 'quarks': quarks or {}, 'opts': opts}


def _paren(a):
    return '(%s)' % a if a and not a.startswith('(') else a


def B_(name, params=(), ret=None, ident_ann='', tags=(), desc=None):
    """run.block with annotation strings given without the outer parentheses."""
    params = [(p[0], _paren(p[1])) + tuple(p[2:]) for p in params]
    if ret is not None:
        ret = (_paren(ret[0]),) + tuple(ret[1:])
    return run.block(name, params, ret, ident_ann, tags, desc)


def inputs():
    out = []

    # 1 - records: typedef first / struct first / opaque / anonymous; ctor, methods, function
    out.append(_inp('records', [
        Typedef('FooRec', 'struct _FooRec'),
        Struct('_FooRec', [Field('a', 'int'), Field('b', 'double'), Field('next', 'FooRec*')]),
        Struct('_FooPt', [Field('x', 'int'), Field('y', 'int')]),
        Typedef('FooPt', 'struct _FooPt'),
        Typedef('FooOpaque', 'struct _FooOpaque'),
        TypedefAnon('FooAnon', [Field('u', 'unsigned int'), Field('v', 'char', array=4)]),
        Func('foo_rec_new', 'FooRec*', [('int', 'a')]),
        Func('foo_rec_copy', 'FooRec*', [('const FooRec*', 'rec')]),
        Func('foo_rec_add', 'void', [('FooRec*', 'rec'), ('FooPt*', 'pt'), ('int', 'n')]),
        Func('foo_pt_length', 'double', [('const FooPt*', 'pt')]),
        Func('foo_init', 'void', [('FooOpaque*', 'o'), ('FooAnon*', 'an')]),
        Func('foo_pt_scale', 'void', [('struct _FooPt*', 'pt'), ('double', 'factor')]),
        Func('foo_rec_peek', 'const struct _FooRec*', [('struct _FooRec*', 'rec')]),
    ], files=[A, B, A, A, B, B, A, B, A, B, A, B, A], blocks=[
        B_('foo_rec_new', [('a', '', 'start')], ret=('transfer full', 'a rec')),
        B_('foo_rec_copy', [('rec', '', 'a rec')], ret=('transfer full', 'copy'), tags=[('Since', '1.2')]),
        B_('foo_rec_add', [('rec', '', 'a rec'), ('pt', 'nullable', 'a point'), ('n', '', 'count')]),
        B_('FooRec', [('a', '', 'field a'), ('b', '', 'field b')], desc='A record.'),
        B_('FooPt', [('x', 'type FooNoSuchType', 'x')], desc='A point.', tags=[('Deprecated', '1.4: use something else')]),
    ], packages=['foo-1.0', 'afoo-1.0', 'foo-1.0'], c_includes=['foo.h', 'bar.h', 'afoo.h']))

    # 2 - GObject class with class struct, vfuncs, properties, signals
    klass = _dumpxml('class', 'FooObj', 'foo_obj_get_type',
                     '<property name="zeta" type="gint" flags="3" default-value="0"/>'
                     '<property name="alpha" type="gchararray" flags="1" default-value="NULL"/>'
                     '<property name="mid" type="gboolean" flags="7" default-value="FALSE"/>'
                     '<signal name="changed" return="void" when="last"><param type="gint"/></signal>'
                     '<signal name="about-to" return="gboolean" when="first"></signal>', parents='GObject')
    sub = _dumpxml('class', 'FooSub', 'foo_sub_get_type', '<property name="k" type="gint" flags="3" default-value="1"/>',
                   parents='FooObj,GObject')
    out.append(_inp('class', [
        Typedef('FooObj', 'struct _FooObj'),
        Typedef('FooObjClass', 'struct _FooObjClass'),
        Struct('_FooObj', [Field('parent_instance', 'GObject'), Field('priv', 'gpointer')]),
        Struct('_FooObjClass', [Field('parent_class', 'GObjectClass'),
                                FieldCb('frob', 'void', [('FooObj*', 'self'), ('int', 'how')]),
                                FieldCb('count', 'int', [('FooObj*', 'self')]),
                                FieldCb('apply', 'gboolean', [('FooObj*', 'self'), ('const char*', 'what')])]),
        Func('foo_obj_get_type', 'GType'),
        Func('foo_obj_new', 'FooObj*'),
        Func('foo_obj_new_with', 'FooObj*', [('int', 'how')]),
        Func('foo_obj_frob', 'void', [('FooObj*', 'self'), ('int', 'how')]),
        Func('foo_obj_count', 'int', [('FooObj*', 'self')]),
        Func('foo_obj_apply', 'gboolean', [('FooObj*', 'self'), ('const char*', 'what')]),
        Func('foo_obj_default', 'FooObj*'),
        Typedef('FooSub', 'struct _FooSub'),
        Struct('_FooSubClass', [Field('parent_class', 'FooObjClass')]),
        Typedef('FooSubClass', 'struct _FooSubClass'),
        Struct('_FooSub', [Field('parent_instance', 'FooObj')]),
        Func('foo_sub_get_type', 'GType'),
        Func('foo_sub_new', 'FooObj*'),
    ], files=[A, A, B, B, A, A, B, A, B, A, B, B, B, A, A, B, B], blocks=[
        B_('foo_obj_frob', [('self', '', 'obj'), ('how', '', 'how')]),
        B_('FooObj::changed', [('self', '', 'obj'), ('n', '', 'value')], desc='Emitted on change.'),
        B_('FooObj:alpha', desc='The alpha.', tags=[('Since', '0.8')]),
        B_('FooObj', desc='An object.', tags=[('Stability', 'Stable')]),
        B_('foo_obj_default', ret=('transfer none', 'the default')),
        B_('FooObjClass', [('frob', '', 'the frob vfunc'), ('count', '', 'the count vfunc')]),
    ], dump={'foo_obj_get_type': klass, 'foo_sub_get_type': sub}, includes=['GObject-2.0'],
        packages=['gobject-2.0', 'foo-2.0'], c_includes=['foo/obj.h', 'foo/foo.h']))

    # 3 - interface with prerequisites, implementing class
    iface = _dumpxml('interface', 'FooIfc', 'foo_ifc_get_type',
                     '<prerequisite name="GObject"/><prerequisite name="FooOther"/>'
                     '<property name="state" type="gint" flags="1" default-value="0"/>'
                     '<property name="level" type="gint" flags="1" default-value="0"/>'
                     '<signal name="ping" return="void" when="last"></signal>'
                     '<signal name="ack" return="void" when="last"></signal>')
    other = _dumpxml('interface', 'FooOther', 'foo_other_get_type', '<prerequisite name="GObject"/>')
    impl = _dumpxml('class', 'FooImpl', 'foo_impl_get_type', '<implements name="FooOther"/><implements name="FooIfc"/>'
                    '<property name="beta" type="gint" flags="3" default-value="0"/>'
                    '<property name="alpha" type="gint" flags="3" default-value="0"/>', parents='GObject')
    out.append(_inp('interface', [
        Typedef('FooIfc', 'struct _FooIfc'),
        Typedef('FooIfcInterface', 'struct _FooIfcInterface'),
        Struct('_FooIfcInterface', [Field('g_iface', 'GTypeInterface'),
                                    FieldCb('ping', 'void', [('FooIfc*', 'self')]),
                                    FieldCb('ack', 'int', [('FooIfc*', 'self'), ('int', 'code')])]),
        Func('foo_ifc_get_type', 'GType'),
        Func('foo_ifc_ping', 'void', [('FooIfc*', 'self')]),
        Func('foo_ifc_ack', 'int', [('FooIfc*', 'self'), ('int', 'code')]),
        Typedef('FooImpl', 'struct _FooImpl'),
        Struct('_FooImpl', [Field('parent', 'GObject')]),
        Struct('_FooImplClass', [Field('parent_class', 'GObjectClass')]),
        Typedef('FooImplClass', 'struct _FooImplClass'),
        Func('foo_impl_get_type', 'GType'),
        Func('foo_impl_new', 'FooIfc*'),
        Typedef('FooOther', 'struct _FooOther'),
        Struct('_FooOtherInterface', [Field('g_iface', 'GTypeInterface')]),
        Typedef('FooOtherInterface', 'struct _FooOtherInterface'),
        Func('foo_other_get_type', 'GType'),
    ], files=[A, A, B, A, B, A, B, A, A, B, B, A, B, A, A, B], blocks=[
        B_('foo_ifc_ack', [('self', '', 'ifc'), ('code', '', 'code')], ret=('', 'result')),
        B_('FooIfc', desc='An interface.'),
        B_('FooIfc::ping', desc='Ping.'),
        B_('foo_impl_new', ret=('transfer full', 'new')),
    ], dump={'foo_ifc_get_type': iface, 'foo_impl_get_type': impl, 'foo_other_get_type': other},
        includes=['Gio-2.0'], packages=['gio-2.0', 'foo-ifc']))

    # 4 - enums, flags, constants, aliases, error domain
    en = _dumpxml('enum', 'FooKind', 'foo_kind_get_type',
                  '<member name="FOO_KIND_B" nick="b" value="1"/><member name="FOO_KIND_A" nick="a" value="0"/>'
                  '<member name="FOO_KIND_C" nick="c" value="2"/>')
    fl = _dumpxml('flags', 'FooFlags', 'foo_flags_get_type',
                  '<member name="FOO_FLAGS_Y" nick="y" value="2"/><member name="FOO_FLAGS_X" nick="x" value="1"/>')
    out.append(_inp('enums', [
        Enum('FooKind', [('FOO_KIND_B', 1), ('FOO_KIND_A', 0), ('FOO_KIND_C', 2)]),
        Enum('FooFlags', [('FOO_FLAGS_Y', 2), ('FOO_FLAGS_X', 1)], bitfield=True),
        Enum('FooError', [('FOO_ERROR_IO', 0), ('FOO_ERROR_BAD', 1)]),
        Enum('FooPlain', [('FOO_PLAIN_Z', 26), ('FOO_PLAIN_M', 13)], tag='_FooPlain'),
        Func('foo_kind_get_type', 'GType'),
        Func('foo_flags_get_type', 'GType'),
        Func('foo_error_quark', 'GQuark'),
        Func('foo_kind_to_string', 'const char*', [('FooKind', 'kind')]),
        Const('FOO_ZED', 26),
        Const('FOO_ALPHA', 'alpha'),
        Const('FOO_MID', 1.5),
        Typedef('FooCount', 'int'),
        Typedef('FooAlso', 'FooCount'),
        Func('foo_count', 'FooCount', [('FooAlso', 'c'), ('FooPlain', 'p')]),
    ], files=[A, B, A, B, A, B, A, B, A, B, A, B, A, B], blocks=[
        B_('FooKind', [('FOO_KIND_A', '', 'first'), ('FOO_KIND_C', '', 'third')], desc='Kinds.'),
        B_('FOO_ZED', desc='Last letter.', tags=[('Since', '2.0')]),
        B_('FooCount', desc='A count.'),
        B_('foo_kind_to_string', [('kind', '', 'a kind')], ret=('', 'text')),
    ], dump={'foo_kind_get_type': en, 'foo_flags_get_type': fl},
        quarks={'foo_error_quark': 'foo-error-quark'}, includes=['GObject-2.0'],
        packages=['gobject-2.0', 'foo-enums', 'bar'], c_includes=['foo-enums.h', 'foo.h']))

    # 5 - callbacks, closures, blocks with unknown and unused parameters
    out.append(_inp('callbacks', [
        Callback('FooEach', 'void', [('int', 'item'), ('gpointer', 'user_data')]),
        Callback('FooCmp', 'int', [('gconstpointer', 'a'), ('gconstpointer', 'b')]),
        Func('foo_each', 'void', [('FooEach', 'func'), ('gpointer', 'user_data'), ('GDestroyNotify', 'notify')]),
        Func('foo_sort', 'void', [('int*', 'items'), ('int', 'n_items'), ('FooCmp', 'cmp')]),
        Func('foo_later', 'void', [('FooEach', 'func'), ('gpointer', 'user_data')]),
        Func('foo_many', 'int', [('int', 'alpha'), ('int', 'beta'), ('int', 'gamma'), ('int', 'delta')]),
    ], files=[A, B, A, B, A, B], blocks=[
        B_('foo_each', [('func', 'scope notified', 'fn'), ('user_data', '', 'data'), ('notify', '', 'destroy')]),
        B_('foo_sort', [('items', 'array length=n_items', 'items'), ('n_items', '', 'count'),
                        ('cmp', 'scope call', 'compare')]),
        B_('foo_later', [('func', 'scope async', 'fn'), ('user_data', '', 'data')]),
        B_('foo_many', [('alpha', '', 'a'), ('bogus', '', 'b'), ('wrong', '', 'c'), ('extra', '', 'd'),
                        ('delta', '', 'e')], ret=('', 'sum')),
        B_('FooEach', [('item', '', 'item'), ('user_data', '', 'data')]),
    ], includes=['GLib-2.0']))

    # 6 - unions, boxed, nested anonymous members
    bx = _dumpxml('boxed', 'FooBox', 'foo_box_get_type')
    out.append(_inp('boxed', [
        Struct('_FooBox', [Field('refs', 'int'), FieldAnon('u', [Field('i', 'int'), Field('d', 'double')], union=True),
                           Field('flags', 'unsigned int', bits=3)]),
        Typedef('FooBox', 'struct _FooBox'),
        Func('foo_box_get_type', 'GType'),
        Func('foo_box_new', 'FooBox*'),
        Func('foo_box_ref', 'FooBox*', [('FooBox*', 'box')]),
        Func('foo_box_unref', 'void', [('FooBox*', 'box')]),
        Typedef('FooVal', 'union _FooVal'),
        Struct('_FooVal', [Field('i', 'int'), Field('p', 'gpointer'), Field('f', 'float')], union=True),
        Func('foo_val_get_int', 'int', [('FooVal*', 'val')]),
        Func('foo_val_new', 'FooVal*'),
        TypedefAnon('FooPair', [Field('first', 'FooBox*'), Field('second', 'FooVal')]),
    ], files=[A, A, B, B, A, B, A, B, A, B, A], blocks=[
        B_('foo_box_ref', [('box', '', 'a box')], ret=('transfer full', 'box')),
        B_('FooBox', ident_ann='(ref-func foo_box_ref) (unref-func foo_box_unref)', desc='Boxed.'),
        B_('foo_val_new', ident_ann='(constructor)', ret=('transfer full', 'val')),
    ], dump={'foo_box_get_type': bx}, includes=['GObject-2.0']))

    # 7 - generated dependencies: Top includes {Aa, Bb, GObject}; well-formed uses only
    out.append(_inp('deps', [
        Func('foo_use_alpha', 'void', [('XyAlpha*', 'a'), ('TopItem*', 'item')]),
        Func('foo_use_beta', 'XyBeta*', [('XyModeAa', 'ma'), ('XyModeBb', 'mb')]),
        Func('foo_notify', 'void', [('TopNotify', 'cb'), ('gpointer', 'data')]),
        Typedef('FooHolder', 'struct _FooHolder'),
        Struct('_FooHolder', [Field('alpha', 'XyAlpha*'), Field('beta', 'XyBeta'), Field('obj', 'GObject*')]),
    ], files=[A, B, A, B, A], blocks=[
        B_('foo_use_alpha', [('a', '', 'alpha'), ('item', 'out caller-allocates', 'item')]),
        B_('foo_notify', [('cb', 'scope call', 'cb'), ('data', '', 'data')]),
    ], includes=['Top-1.0'], packages=['top-1.0', 'foo-1.0'], c_includes=['top.h', 'foo.h']))

    # 8 - the same C type defined by two included namespaces with the same prefix (see report)
    out.append(_inp('deps-tie', [
        Func('foo_use_thing', 'void', [('XyThing*', 'thing')]),
        Func('foo_get_thing', 'XyThing*'),
    ], files=[A, B], blocks=[
        B_('foo_use_thing', [('thing', '', 'thing')]),
    ], includes=['Top-1.0']))

    # 9 - SECTION blocks, tags, attributes, two includes registered by the user
    out.append(_inp('sections', [
        Func('foo_zz_last', 'void'),
        Func('foo_aa_first', 'void'),
        Func('foo_mm_mid', 'int', [('GList*', 'list'), ('GObject*', 'obj')]),
        Const('FOO_VERSION', '1.0'),
        Macro('FOO_CHECK', ['a', 'b']),
    ], files=[A, B, A, B, A], blocks=[
        B_('SECTION:zulu', desc='Last section.'),
        B_('SECTION:alpha', desc='First section.'),
        B_('foo_mm_mid', [('list', 'element-type utf8', 'list'), ('obj', 'nullable', 'object')],
           ident_ann='(attributes k1=v1 k0=v0)', ret=('', 'n'), tags=[('Since', '1.0'), ('Deprecated', '1.1: no')]),
        B_('foo_aa_first', ident_ann='(rename-to foo_zz_last)'),
        B_('FOO_CHECK', [('a', '', 'first'), ('b', '', 'second')]),
    ], includes=['GObject-2.0', 'GLib-2.0'], c_includes=['b.h', 'a.h', 'c.h', 'a.h']))

    # 10 - kinds interleaved by name: alias / record / function / callback / constant / enum
    out.append(_inp('kinds', [
        Typedef('FooM', 'int'),
        Typedef('FooZalias', 'unsigned long'),
        Typedef('FooB', 'struct _FooB'),
        Struct('_FooB', [Field('m', 'FooM'), Field('z', 'FooZalias')]),
        Callback('FooC', 'void', [('FooB*', 'b')]),
        Const('FOO_A', 1),
        Enum('FooD', [('FOO_D_ONE', 1), ('FOO_D_TWO', 2)]),
        Func('foo_a', 'void', [('FooC', 'c')]),
        Func('foo_y', 'FooM'),
        Func('foo_b_z', 'void', [('FooB*', 'b')]),
        Func('foo_b_a', 'void', [('FooB*', 'b'), ('FooD', 'd')]),
        Func('foo_b_new_z', 'FooB*'),
        Func('foo_b_new_a', 'FooB*'),
        Func('foo_b_static_q', 'int', [('int', 'x')]),
        Func('foo_b_static_c', 'int', [('int', 'x')]),
    ], files=[A, B, A, B, A, B, A, B, A, B, A, B, A, B, A], blocks=[
        B_('foo_b_z', [('b', '', 'b')]),
        B_('foo_a', [('c', 'scope call', 'c')]),
        B_('FooZalias', desc='alias'),
    ]))

    # 11 - function-like macros, inline and variadic functions, skipped and renamed symbols
    out.append(_inp('misc', [
        Macro('FOO_MAX', ['a', 'b']),
        Macro('FOO_ABS', ['x']),
        Func('foo_printf', 'void', [('const char*', 'format')], varargs=True),
        Func('foo_inline', 'int', [('int', 'x')], inline=True),
        Func('foo_hidden', 'void'),
        Func('foo_old_name', 'void', [('int', 'x')]),
        Func('foo_new_name', 'void', [('int', 'x')], varargs=True),
        Func('foo_out', 'gboolean', [('int*', 'result'), ('char**', 'text')]),
        Func('_foo_private', 'void'),
    ], files=[B, A, B, A, B, A, A, B, A], blocks=[
        B_('foo_hidden', ident_ann='(skip)'),
        B_('foo_old_name', [('x', '', 'x')], ident_ann='(rename-to foo_new_name)'),
        B_('foo_out', [('result', 'out', 'result'), ('text', 'out) (transfer full', 'text')], ret=('', 'ok')),
        B_('foo_printf', [('format', '', 'format'), ('...', '', 'args')]),
    ], includes=['GLib-2.0'], packages=['zfoo', 'foo', 'afoo', 'mfoo', 'bfoo'],
        c_includes=['z.h', 'a.h', 'm.h', 'b.h', 'y.h']))

    # 12 - methods moved between records by annotation, accessors, static methods on a class
    k2 = _dumpxml('class', 'FooWidget', 'foo_widget_get_type',
                  '<property name="label" type="gchararray" flags="3" default-value="NULL"/>'
                  '<property name="size" type="gint" flags="3" default-value="0"/>'
                  '<signal name="zapped" return="void" when="last"></signal>'
                  '<signal name="armed" return="void" when="last"></signal>', parents='GInitiallyUnowned,GObject')
    out.append(_inp('widget', [
        Struct('_FooWidget', [Field('parent', 'GInitiallyUnowned')]),
        Struct('_FooWidgetClass', [Field('parent_class', 'GInitiallyUnownedClass'),
                                   FieldCb('zapped', 'void', [('FooWidget*', 'w')]),
                                   FieldCb('armed', 'void', [('FooWidget*', 'w')])]),
        Typedef('FooWidget', 'struct _FooWidget'),
        Typedef('FooWidgetClass', 'struct _FooWidgetClass'),
        Func('foo_widget_get_type', 'GType'),
        Func('foo_widget_new', 'FooWidget*'),
        Func('foo_widget_set_label', 'void', [('FooWidget*', 'w'), ('const char*', 'label')]),
        Func('foo_widget_get_label', 'const char*', [('FooWidget*', 'w')]),
        Func('foo_widget_set_size', 'void', [('FooWidget*', 'w'), ('int', 'size')]),
        Func('foo_widget_get_size', 'int', [('FooWidget*', 'w')]),
        Func('foo_widget_get_default_size', 'int'),
        Func('foo_widget_class_install', 'void', [('FooWidgetClass*', 'klass'), ('int', 'id')]),
        Func('foo_widget_class_find', 'int', [('FooWidgetClass*', 'klass')]),
    ], files=[A, B, A, B, A, B, A, B, A, B, A, B, A], blocks=[
        B_('foo_widget_set_label', [('w', '', 'w'), ('label', 'nullable', 'label')], ident_ann='(set-property label)'),
        B_('foo_widget_get_label', [('w', '', 'w')], ident_ann='(get-property label)', ret=('nullable', 'label')),
        B_('FooWidget:size', ident_ann='(setter set_size) (getter get_size)', desc='Size.'),
        B_('FooWidget::armed', [('w', '', 'w')], desc='Armed.'),
        B_('FooWidget', desc='A widget.'),
    ], dump={'foo_widget_get_type': k2}, includes=['GObject-2.0']))
    # 13 - two typedef names for one struct tag (the GObject / GInitiallyUnowned pattern); the body
    #      may come first, between or last
    out.append(_inp('typedef2', [
        Typedef('FooA', 'struct _FooT'),
        Typedef('FooB', 'struct _FooT'),
        Struct('_FooT', [Field('x', 'int'), Field('y', 'double'), Field('name', 'const char*')]),
        Func('foo_b_get_x', 'int', [('FooB*', 'b')]),
    ], files=[A, B, A, B], blocks=[
        B_('FooB', [('x', '', 'the x')], desc='Second name.'),
        B_('foo_b_get_x', [('b', '', 'b')], ret=('', 'x')),
    ]))

    # 14 - three typedef names for one union tag
    out.append(_inp('typedef3', [
        Typedef('FooU1', 'union _FooU'),
        Typedef('FooU2', 'union _FooU'),
        Typedef('FooU3', 'union _FooU'),
        Struct('_FooU', [Field('i', 'int'), Field('d', 'double'), Field('p', 'gpointer')], union=True),
        Func('foo_u2_peek', 'int', [('FooU2*', 'u'), ('FooU3*', 'other')]),
    ], files=[A, A, B, B, A], blocks=[
        B_('FooU3', desc='Third name.'),
    ]))

    # 15.. - every container kind with >= 3 methods, >= 2 constructors, >= 2 static functions declared in
    #        non-alphabetical order and spread over two headers
    def members(pfx, T, ctors=True):
        fs = [Func('foo_%s_zap' % pfx, 'void', [(T + '*', 'self')]),
              Func('foo_%s_new_z' % pfx, T + '*'),
              Func('foo_%s_static_q' % pfx, 'int', [('int', 'x')]),
              Func('foo_%s_mid' % pfx, 'int', [(T + '*', 'self'), ('int', 'n')]),
              Func('foo_%s_new_a' % pfx, T + '*', [('int', 'n')]),
              Func('foo_%s_add' % pfx, 'void', [(T + '*', 'self')]),
              Func('foo_%s_static_b' % pfx, 'int', [('int', 'x')]),
              Func('foo_%s_static_m' % pfx, 'int', [('int', 'x'), ('int', 'y')])]
        return [f for f in fs if ctors or '_new_' not in f.name]

    def alt(n):
        return [A if i % 2 == 0 else B for i in range(n)]

    d = [Typedef('FooUn', 'union _FooUn'), Struct('_FooUn', [Field('i', 'int'), Field('d', 'double')], union=True),
         Func('foo_un_get_type', 'GType')] + members('un', 'FooUn')
    out.append(_inp('c-union', d, files=alt(len(d)), blocks=[
        B_('foo_un_mid', [('self', '', 'u'), ('n', '', 'n')], ret=('', 'r')), B_('FooUn', desc='A boxed union.')],
        dump={'foo_un_get_type': _dumpxml('boxed', 'FooUn', 'foo_un_get_type')}, includes=['GObject-2.0']))
    d = [Struct('_FooPu', [Field('i', 'int'), Field('p', 'gpointer')], union=True), Typedef('FooPu', 'union _FooPu')] \
        + members('pu', 'FooPu')
    out.append(_inp('c-punion', d, files=alt(len(d)), blocks=[B_('foo_pu_zap', [('self', '', 'u')])]))
    d = [Typedef('FooRc', 'struct _FooRc'), Struct('_FooRc', [Field('i', 'int'), Field('j', 'int')])] + members('rc', 'FooRc')
    out.append(_inp('c-record', d, files=alt(len(d)), blocks=[B_('foo_rc_add', [('self', '', 'r')])]))
    d = [Struct('_FooBx', [Field('i', 'int')]), Typedef('FooBx', 'struct _FooBx'), Func('foo_bx_get_type', 'GType')] \
        + members('bx', 'FooBx')
    out.append(_inp('c-boxed', d, files=alt(len(d)), blocks=[B_('foo_bx_new_z', ret=('transfer full', 'new'))],
                    dump={'foo_bx_get_type': _dumpxml('boxed', 'FooBx', 'foo_bx_get_type')}, includes=['GObject-2.0']))
    d = [Typedef('FooKl', 'struct _FooKl'), Typedef('FooKlClass', 'struct _FooKlClass'),
         Struct('_FooKl', [Field('parent', 'GObject')]), Struct('_FooKlClass', [Field('parent_class', 'GObjectClass')]),
         Func('foo_kl_get_type', 'GType')] + members('kl', 'FooKl')
    out.append(_inp('c-class', d, files=alt(len(d)), blocks=[B_('foo_kl_mid', [('self', '', 'k'), ('n', '', 'n')], ret=('', 'r'))],
                    dump={'foo_kl_get_type': _dumpxml('class', 'FooKl', 'foo_kl_get_type', parents='GObject')},
                    includes=['GObject-2.0']))
    d = [Typedef('FooIf', 'struct _FooIf'), Typedef('FooIfInterface', 'struct _FooIfInterface'),
         Struct('_FooIfInterface', [Field('g_iface', 'GTypeInterface')]), Func('foo_if_get_type', 'GType')] \
        + members('if', 'FooIf', ctors=False)
    out.append(_inp('c-iface', d, files=alt(len(d)), blocks=[B_('foo_if_zap', [('self', '', 'i')])],
                    dump={'foo_if_get_type': _dumpxml('interface', 'FooIf', 'foo_if_get_type', '<prerequisite name="GObject"/>')},
                    includes=['GObject-2.0']))
    d = [Enum('FooEn', [('FOO_EN_B', 1), ('FOO_EN_A', 0)]), Enum('FooFl', [('FOO_FL_Y', 2), ('FOO_FL_X', 1)], bitfield=True),
         Func('foo_en_zed', 'int', [('FooEn', 'e')]), Func('foo_fl_zed', 'int', [('FooFl', 'f')]),
         Func('foo_en_mid', 'int', [('FooEn', 'e')]), Func('foo_fl_mid', 'int', [('FooFl', 'f')]),
         Func('foo_en_abc', 'FooEn', [('int', 'x')]), Func('foo_fl_abc', 'FooFl', [('int', 'x')]),
         Func('foo_en_get_type', 'GType'), Func('foo_fl_get_type', 'GType')]
    out.append(_inp('c-enum', d, files=alt(len(d)), blocks=[B_('foo_en_mid', [('e', '', 'e')], ret=('', 'r'))], dump={
        'foo_en_get_type': _dumpxml('enum', 'FooEn', 'foo_en_get_type',
                                    '<member name="FOO_EN_B" nick="b" value="1"/><member name="FOO_EN_A" nick="a" value="0"/>'),
        'foo_fl_get_type': _dumpxml('flags', 'FooFl', 'foo_fl_get_type',
                                    '<member name="FOO_FL_Y" nick="y" value="2"/><member name="FOO_FL_X" nick="x" value="1"/>')},
        includes=['GObject-2.0']))

    # two include directories that both hold Dep-1.0.gir with different content: the first one given wins
    for nm, dirs, want, never in (('incpaths-ab', ['inc_a', 'inc_b'], 'Dep.Thing', 'Dep.Item'),
                                  ('incpaths-ba', ['inc_b', 'inc_a'], 'Dep.Item', 'Dep.Thing')):
        i = _inp(nm, [Func('foo_use_dep', 'void', [('DepThing*', 'thing'), ('int', 'n')]),
                      Func('foo_get_dep', 'const DepThing*')], files=[A, B],
                 blocks=[B_('foo_use_dep', [('thing', '', 'thing'), ('n', '', 'n')])], includes=['Dep-1.0'],
                 include_dirs=dirs)
        i['expect'] = ['<type name="%s"' % want]
        i['reject'] = ['<type name="%s"' % never]
        out.append(i)

    # a boolean property with two getter candidates (get_X has priority over is_X) declared in
    # different headers; a read-only boolean with three candidates
    sw = _dumpxml('class', 'FooSw', 'foo_sw_get_type',
                  '<property name="active" type="gboolean" flags="3" default-value="FALSE"/>'
                  '<property name="enabled" type="gboolean" flags="1" default-value="FALSE"/>'
                  '<property name="level" type="gint" flags="3" default-value="0"/>', parents='GObject')
    out.append(_inp('accessors', [
        Typedef('FooSw', 'struct _FooSw'),
        Typedef('FooSwClass', 'struct _FooSwClass'),
        Struct('_FooSw', [Field('parent', 'GObject')]),
        Struct('_FooSwClass', [Field('parent_class', 'GObjectClass')]),
        Func('foo_sw_get_type', 'GType'),
        Func('foo_sw_is_active', 'gboolean', [('FooSw*', 'sw')]),
        Func('foo_sw_get_active', 'gboolean', [('FooSw*', 'sw')]),
        Func('foo_sw_set_active', 'void', [('FooSw*', 'sw'), ('gboolean', 'active')]),
        Func('foo_sw_enabled', 'gboolean', [('FooSw*', 'sw')]),
        Func('foo_sw_is_enabled', 'gboolean', [('FooSw*', 'sw')]),
        Func('foo_sw_get_enabled', 'gboolean', [('FooSw*', 'sw')]),
        Func('foo_sw_set_level', 'void', [('FooSw*', 'sw'), ('int', 'level')]),
        Func('foo_sw_get_level', 'int', [('FooSw*', 'sw')]),
    ], files=[A, A, A, B, A, A, B, A, B, A, B, A, B], blocks=[
        B_('foo_sw_set_active', [('sw', '', 'sw'), ('active', '', 'state')]),
        B_('FooSw:active', desc='Whether it is on.'),
    ], dump={'foo_sw_get_type': sw}, includes=['GObject-2.0']))

    # a C type described by two dependency namespaces with the same prefix, one including the other
    out.append(_inp('hilo', [
        Func('foo_watch', 'void', [('HlCond', 'cond'), ('HlOnlyHigh*', 'h'), ('HlOnlyLow*', 'l')]),
        Func('foo_cond', 'HlCond'),
    ], files=[A, B], blocks=[B_('foo_watch', [('cond', '', 'c'), ('h', '', 'h'), ('l', '', 'l')])],
        includes=['High-1.0']))

    # SECTION ids that differ only in case: sections are looked up by exact key, so exactly
    # SECTION:foobar documents FooBar and the others stay standalone <docsection>s, in any block order
    out.append(_inp('sections-case', [
        Typedef('FooBar', 'struct _FooBar'),
        Struct('_FooBar', [Field('n', 'int')]),
        Func('foo_bar_do', 'void', [('FooBar*', 'bar')]),
        Const('FOO_BAR_MAX', 3),
    ], files=[A, B, A, B], blocks=[
        B_('SECTION:FooBar', desc='Mixed case section.'),
        B_('SECTION:foobar', desc='Lower case section: documents the record.'),
        B_('foo_bar_do', [('bar', '', 'a bar')], desc='Does it.'),
        B_('SECTION:FOOBAR', desc='Upper case section.'),
        B_('FooBar', [('n', '', 'the n')], desc='The record block.'),
    ]))

    # the same #define in two headers (first definition wins, documented in transformer.py)
    out.append(_inp('dup-const', [
        Const('FOO_DUP', 7),
        Const('FOO_OTHER', 1),
        Const('FOO_DUP', 7),
        Const('FOO_NAME', 'foo'),
        Const('FOO_NAME', 'foo'),
        Func('foo_dup_user', 'int', [('int', 'x')]),
    ], files=[A, B, B, B, A, A], blocks=[B_('FOO_DUP', desc='Defined twice.')]))
    # the same function / typedef declared in two headers: the scanner refuses ("Namespace conflict");
    # it must refuse in every order
    i = _inp('dup-func', [Func('foo_twice', 'void', [('int', 'x')]), Func('foo_once', 'void'),
                          Func('foo_twice', 'void', [('int', 'x')])], files=[A, A, B])
    i['expect_error'] = True
    out.append(i)
    i = _inp('dup-typedef', [Typedef('FooInt', 'int'), Typedef('FooInt', 'int'), Func('foo_int', 'FooInt')],
             files=[A, B, A])
    i['expect_error'] = True
    out.append(i)

    # typedef to a pointer to a struct tag, before / after the definition of the struct
    out.append(_inp('pointer-typedef-order', [
        Typedef('FooPtr', 'struct _FooP*'),
        Struct('_FooP', [Field('x', 'int'), Field('y', 'int')]),
        Func('foo_ptr_use', 'void', [('FooPtr', 'p')]),
        Typedef('FooP', 'struct _FooP'),
    ], files=[A, B, A, B]))
    return out


def tag_typedef_groups(decls):
    """[[declaration indices]] of typedefs that name the same struct/union tag.  The scanner lets
    the FIRST typedef of a tag own the structure ("the first typedef for a struct clobbers its
    name and ctype", transformer.py), so the relative order of such typedefs is part of the
    input; the position of the body among them is not."""
    from vt.scan.fake import CTYPE_STRUCT, CTYPE_UNION
    groups = {}
    for i, d in enumerate(decls):
        for sym in d.symbols():
            t = sym.base_type
            if sym.type == CSYMBOL_TYPE_TYPEDEF and t is not None and t.type in (CTYPE_STRUCT, CTYPE_UNION) \
                    and t.name and not t.child_list:
                groups.setdefault((t.type, t.name), []).append(i)
    # the same identifier defined twice (e.g. one #define in two headers): the first definition wins
    # (documented in Transformer._append_new_node), so which one arrives first is input as well
    for i, d in enumerate(decls):
        for sym in d.symbols():
            groups.setdefault(('dup', sym.type, sym.ident), []).append(i)
    return [g for k, g in sorted(groups.items(), key=repr) if len(g) > 1]


def by_name(name):
    for i in inputs():
        if i['name'] == name:
            return i
    raise KeyError(name)


# ----------------------------------------------------------- running one ---
def dump_callable(inp, kid_orders=None, top_order=None):
    """kid_orders: {get_type function: permutation of that element's children};
    top_order: permutation of the dump's top-level elements."""
    if inp['dump'] is None and not inp['quarks']:
        return None
    dump = inp['dump'] or {}
    quarks = inp['quarks']
    kid_orders = kid_orders or {}

    def gen(get_types, quark_funcs):
        # like the real dumper: one element per function, in the order the scanner asks
        parts = [dump_text(dump[g], kid_orders.get(g)) for g in get_types if g in dump]
        if top_order is not None:
            if len(top_order) != len(parts):
                raise ValueError('top_order does not fit %d dump elements' % len(parts))
            parts = [parts[i] for i in top_order]
        parts += ['<error-quark function="%s" domain="%s"/>' % (q, quarks[q]) for q in quark_funcs if q in quarks]
        return '<?xml version="1.0"?><dump>%s</dump>' % ''.join(parts)
    return gen


def typedef_deps(decl):
    """(defined typedef names, used typedef names) of a declaration - a declaration that
    uses a typedef name is valid C only after the declaration defining it."""
    defined, used = set(), set()

    def walk(t):
        if t is None:
            return
        if t.type == CTYPE_TYPEDEF and t.name:
            used.add(t.name)
        walk(t.base_type)
        for ch in t.child_list:
            walk(getattr(ch, 'base_type', None))
    for s in decl.symbols():
        if s.type == CSYMBOL_TYPE_TYPEDEF:
            defined.add(s.ident)
        walk(s.base_type)
    return defined, used - defined


def admissible(decls, order):
    """Is the sequence decls[order[0]], decls[order[1]], ... valid C (every typedef name
    defined in this input is defined before it is used)?"""
    deps = [typedef_deps(d) for d in decls]
    definer = {}
    for i, (df, _) in enumerate(deps):
        for n in df:
            definer.setdefault(n, i)
    pos = {d: k for k, d in enumerate(order)}
    for i, (_, used) in enumerate(deps):
        for n in used:
            j = definer.get(n)
            if j is not None and j != i and pos[j] > pos[i]:
                return False
    return True


def execute(inp, decl_order=None, renumber=False, block_order=None, block_files=None, deps_dir=None,
            use_cache=False, keep=False, include_paths=None, kid_orders=None, top_order=None):
    """Run the real pipeline on one input.
    decl_order: permutation of declaration indices (order in which the symbols arrive);
    renumber: give the declarations line numbers following decl_order (as if the text had
              been reordered) instead of keeping each declaration's own line;
    block_order: permutation of comment-block indices (arrival order of the comments);
    block_files: per block '/src/a.c' or '/src/b.c' (part of the input, not of the order);
    kid_orders / top_order: order of the elements inside the runtime dump (see dump_callable)."""
    decls = inp['decls']
    n = len(decls)
    order = list(decl_order) if decl_order is not None else list(range(n))
    lines = {}
    if renumber:
        cnt = {}
        for i in order:
            f = inp['files'][i]
            cnt[f] = cnt.get(f, 0) + 1
            lines[i] = cnt[f] * 20
    else:
        cnt = {}
        for i in range(n):
            f = inp['files'][i]
            cnt[f] = cnt.get(f, 0) + 1
            lines[i] = cnt[f] * 20
    symbols = []
    for i in order:
        d = decls[i]
        d.file = inp['files'][i]
        d.line = lines[i]
        symbols.extend(d.symbols())
    nb = len(inp['blocks'])
    border = list(block_order) if block_order is not None else list(range(nb))
    bfiles = list(block_files) if block_files is not None else ['/src/a.c'] * nb
    comments = [(inp['blocks'][i], bfiles[i], 100 + 40 * i) for i in border]
    o = dict(inp['opts'])
    incdirs = [os.path.join(BUILD, d) for d in o.pop('include_dirs', [])]
    paths = include_paths if include_paths is not None else incdirs + [deps_dir or DEPDIR, run.DEPS]
    return run.scan(symbols=symbols, comments=comments, dump=dump_callable(inp, kid_orders, top_order), include_paths=paths,
                    use_cache=use_cache, keep=keep, **o)
