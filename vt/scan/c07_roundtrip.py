"""C07 - a GIR document survives GIRParser -> GIRWriter unchanged.

    roundtrip(xml_bytes, include_dirs=(), identical=True) -> None | description

mirrors giscanner/scannermain.py:passthrough_gir (GIRParser(types_only=False) on the
document, GIRWriter on the namespace read):

    b0 --read--> ns1 --write--> b1 --read--> ns2 --write--> b2

  identical=True  (scanner-written input): b1 == b0 and b2 == b1
  identical=False (hand-written input):    b2 == b1, and b1 carries the same model as b0
                                           up to the writer's documented defaults
  always: the independent reader's view of b1 and b2 is the same, and the API-relevant
  view (ast_view) of ns1 and ns2 is the same.

`include_dirs` is accepted for interface symmetry with Transformer.parse_from_gir; the
passthrough path of the scanner does not load includes, and neither does this function.

    model_agree(ns_written, ns_read, sources_roots=()) -> None | description

compares the model that was handed to GIRWriter with the model GIRParser read back, on
the API-relevant fields named by the property statement (names, types, flags, ownership,
indices, documentation, positions, attributes).  The projection is the explicit
allow-list below (ast_view); everything not listed is scanner-internal (parent_chain,
origin_symbol, gtype_name of types, is_const, not_nullable when nullable is false,
namespace back pointers, symbol tables, c_symbol_prefix of enums, tag_name,
internal_skipped functions, is_method/is_constructor which are implied by the container
list, file positions other than the main one ...).

Pure and importable without side effects (giscanner is imported through vt.scan.fake,
which only installs the stub extension module).
"""
import os
import xml.etree.ElementTree as ET

from vt.scan import fake  # noqa: F401  (installs the stub C module, puts the repo on sys.path)
from vt.scan import girread

from giscanner import ast
from giscanner.girparser import GIRParser
from giscanner.girwriter import GIRWriter


def read_ns(xml_bytes):
    p = GIRParser()
    p.parse_tree(ET.ElementTree(ET.fromstring(xml_bytes)))
    return p.get_namespace()


def write_ns(ns, sources_roots=()):
    return GIRWriter(ns, list(sources_roots)).get_encoded_xml()


# ------------------------------------------------------------------ ast view --
def _s(v):
    return None if v is None else str(v)


def _pos(p, roots):
    if p is None:
        return None
    fn = p.filename
    if fn is not None:
        res = fn
        for r in roots:
            try:
                rel = os.path.relpath(fn, r)
            except ValueError:
                rel = fn
            if len(rel) < len(res):
                res = rel
        fn = res
    return (fn, _s(p.line), _s(p.column) if p.column else None)


def _generic(n, roots, node_level=True):
    d = {
        'version': n.version or None,
        'version_doc': n.version_doc or None,
        'stability': n.stability or None,
        'stability_doc': n.stability_doc or None,
        'deprecated': n.deprecated or None,
        'deprecated_doc': n.deprecated_doc or None,
        'doc': n.doc or None,
        'doc_position': _pos(n.doc_position, roots) if n.doc else None,
        'attributes': [(k, v) for k, v in n.attributes.items()],
    }
    if node_level:
        d['introspectable'] = bool(n.introspectable) and not n.skip
    gm = getattr(n, 'get_main_position', None)
    if gm is not None:
        d['position'] = _pos(gm(), roots)
    return d


def _type(t, full=True):
    """full=False: the type is written as a bare reference (GIRWriter._write_type_ref, alias targets):
    only a name and a c:type can be carried, no element types / array details."""
    if t is None:
        return None
    ctype = (t.complete_ctype or t.ctype) if t.ctype else (t.complete_ctype if full else None)
    if not full:
        if isinstance(t, ast.Array):
            name = t.array_type if t.array_type != ast.Array.C else None
        elif isinstance(t, ast.List):
            name = t.name or None
        elif isinstance(t, ast.Map):
            name = 'GLib.HashTable'
        else:
            name = t.target_giname or t.target_fundamental or None
        return ('ref', name, ctype)
    if isinstance(t, ast.Varargs):
        return ('varargs',)
    if isinstance(t, ast.Array):
        return ('array', t.array_type, ctype, _type(t.element_type), bool(t.zeroterminated), _s(t.size),
                t.length_param_name)
    if isinstance(t, ast.List):
        return ('list', t.name, ctype, _type(t.element_type))
    if isinstance(t, ast.Map):
        return ('map', ctype, _type(t.key_type), _type(t.value_type))
    if isinstance(t, ast.TypeUnknown):
        return ('unknown',)
    if t.target_giname:
        return ('name', t.target_giname, ctype)
    if t.target_fundamental:
        return ('fundamental', t.target_fundamental, ctype)
    if t.target_foreign:
        return ('foreign', ctype)
    if ctype is None:
        return ('unknown',)            # only a GType name (scanner-internal) is known: written as <type/>
    return ('unresolved', ctype)


def _tref(t, nsname):
    """what GIRWriter._type_to_name keeps of a reference (parent, implements, type-struct ...)"""
    if t is None:
        return None
    return t.target_giname


def _param(p, roots, typed=True):
    d = _generic(p, roots, node_level=False)
    d['name'] = p.argname
    if not typed:
        return d
    nullable = bool(p.nullable and not p.not_nullable)
    d.update({
        'type': _type(p.type),
        'direction': p.direction or 'in',
        'caller_allocates': bool(p.caller_allocates) if (p.direction or 'in') != 'in' else None,
        'transfer': p.transfer or None,
        'nullable': nullable,
        'optional': bool(p.optional),
        'scope': p.scope or None,
        'closure': p.closure_name,
        'destroy': p.destroy_name,
        'skip': bool(p.skip),
    })
    return d


def _ret(r, roots):
    if not r:
        return None
    d = _generic(r, roots, node_level=False)
    d.update({'type': _type(r.type), 'transfer': r.transfer or None, 'skip': bool(r.skip),
              'nullable': bool(r.nullable and not r.not_nullable)})
    return d


def _callable(c, roots):
    d = _generic(c, roots)
    d.update({
        'kind': type(c).__name__ if not isinstance(c, ast.Function) else 'Function',
        'name': c.name, 'throws': bool(c.throws),
        'retval': _ret(c.retval, roots),
        'instance': _param(c.instance_parameter, roots) if c.instance_parameter else None,
        'params': [_param(p, roots) for p in c.parameters],
        'finish_func': c.finish_func, 'sync_func': c.sync_func, 'async_func': c.async_func,
    })
    if isinstance(c, ast.Function):
        d.update({'symbol': c.symbol,
                  'shadowed_by': c.shadowed_by or None,
                  'shadows': (c.shadows or None) if not c.shadowed_by else None,
                  'moved_to': c.moved_to, 'set_property': c.set_property, 'get_property': c.get_property,
                  'inline': bool(c.is_inline)})
    elif isinstance(c, ast.VFunction):
        d['invoker'] = c.invoker or None
    elif isinstance(c, ast.Callback):
        d['ctype'] = c.ctype if c.ctype != c.name else None
    elif isinstance(c, ast.Signal):
        d.update({'when': c.when or None, 'no_recurse': bool(c.no_recurse), 'detailed': bool(c.detailed),
                  'action': bool(c.action), 'no_hooks': bool(c.no_hooks), 'emitter': c.emitter or None})
    return d


def _funcs(lst, roots):
    out = [_callable(f, roots) for f in lst if not getattr(f, 'internal_skipped', False)]
    out.sort(key=lambda d: (d['name'] or '', d.get('symbol') or ''))
    return out


def _field(f, roots):
    if f.anonymous_node is not None and not isinstance(f.anonymous_node, ast.Callback):
        # written as the bare anonymous record/union: the field's own attributes are not in the file
        return {'anonymous': _node(f.anonymous_node, roots)}
    d = _generic(f, roots)
    d['name'] = f.name
    if f.anonymous_node is not None:
        d['callback'] = _callable(f.anonymous_node, roots)
        return d
    d.update({'type': _type(f.type), 'readable': bool(f.readable), 'writable': bool(f.writable),
              'bits': _s(f.bits) if f.bits else None, 'private': bool(f.private)})
    return d


def _registered(n):
    if n.get_type:
        return (n.gtype_name, n.get_type)
    return None


def _node(n, roots):
    nsname = n.namespace.name if n.namespace is not None else None
    if isinstance(n, ast.Callable):
        return _callable(n, roots)
    d = _generic(n, roots)
    d['kind'] = type(n).__name__
    d['name'] = n.name
    if isinstance(n, ast.FunctionMacro):
        d.update({'symbol': n.symbol, 'params': [_param(p, roots, typed=False) for p in n.parameters]})
    elif isinstance(n, ast.Alias):
        d.update({'ctype': n.ctype, 'target': _type(n.target, full=False)})
    elif isinstance(n, ast.Constant):
        d.update({'ctype': n.ctype, 'value': n.value, 'type': _type(n.value_type)})
    elif isinstance(n, (ast.Enum, ast.Bitfield)):
        d.update({'ctype': n.ctype, 'registered': _registered(n),
                  'error_domain': (n.error_domain or None) if isinstance(n, ast.Enum) else None,
                  'members': [dict(_generic(m, roots), name=m.name, value=_s(m.value), symbol=m.symbol,
                                   nick=m.nick, dump_name=m.dump_name) for m in n.members],
                  'static_methods': _funcs(n.static_methods, roots)})
    elif isinstance(n, (ast.Class, ast.Interface)):
        d.update({'ctype': n.ctype, 'c_symbol_prefix': n.c_symbol_prefix, 'gtype_name': n.gtype_name,
                  'get_type': n.get_type, 'type_struct': _tref(n.glib_type_struct, nsname),
                  'static_methods': _funcs(n.static_methods, roots),
                  'virtual_methods': _funcs(n.virtual_methods, roots),
                  'methods': _funcs(n.methods, roots),
                  'properties': sorted([_property(p, roots) for p in n.properties], key=lambda x: x['name']),
                  'fields': [_field(f, roots) for f in n.fields],
                  'signals': _funcs(n.signals, roots)})
        if isinstance(n, ast.Class):
            d.update({'parent': _tref(n.parent_type, nsname), 'abstract': bool(n.is_abstract),
                      'final': bool(n.is_final), 'fundamental': bool(n.fundamental),
                      'ref_func': n.ref_func or None, 'unref_func': n.unref_func or None,
                      'set_value_func': n.set_value_func or None, 'get_value_func': n.get_value_func or None,
                      'interfaces': sorted(_tref(t, nsname) for t in n.interfaces),
                      'constructors': _funcs(n.constructors, roots)})
        else:
            d['prerequisites'] = sorted(_tref(t, nsname) for t in n.prerequisites)
    elif isinstance(n, (ast.Record, ast.Union)):
        d.update({'ctype': n.ctype, 'registered': _registered(n), 'c_symbol_prefix': n.c_symbol_prefix or None,
                  'copy_func': n.copy_func or None, 'free_func': n.free_func or None,
                  'fields': [_field(f, roots) for f in n.fields],
                  'constructors': _funcs(n.constructors, roots), 'methods': _funcs(n.methods, roots),
                  'static_methods': _funcs(n.static_methods, roots)})
        if isinstance(n, ast.Record):
            d.update({'disguised': bool(n.disguised), 'opaque': bool(n.opaque), 'pointer': bool(n.pointer),
                      'foreign': bool(n.foreign), 'gtype_struct_for': _tref(n.is_gtype_struct_for, nsname)})
    elif isinstance(n, ast.Boxed):
        d.update({'registered': _registered(n), 'c_symbol_prefix': n.c_symbol_prefix,
                  'constructors': _funcs(n.constructors, roots), 'methods': _funcs(n.methods, roots),
                  'static_methods': _funcs(n.static_methods, roots)})
    elif isinstance(n, ast.DocSection):
        pass
    return d


def _property(p, roots):
    d = _generic(p, roots)
    d.update({'name': p.name, 'type': _type(p.type), 'readable': bool(p.readable), 'writable': bool(p.writable),
              'construct': bool(p.construct), 'construct_only': bool(p.construct_only),
              'transfer': p.transfer or None, 'setter': p.setter or None, 'getter': p.getter or None,
              'default_value': p.default_value})      # '' (present, empty) is not None (absent)
    return d


def ast_view(ns, sources_roots=()):
    """API-relevant projection of a giscanner.ast.Namespace (see module docstring)."""
    roots = list(sources_roots)
    nodes = {}
    for name, n in ns.names.items():
        if isinstance(n, ast.Member):
            continue                       # never written (girwriter: "FIXME: atk_misc_instance singleton")
        if isinstance(n, ast.Function) and n.internal_skipped:
            continue
        nodes[name] = _node(n, roots)
    return {
        'name': ns.name, 'version': ns.version,
        'identifier_prefixes': list(ns.identifier_prefixes), 'symbol_prefixes': list(ns.symbol_prefixes),
        'includes': sorted((i.name, i.version) for i in ns.includes),
        # no library is written as shared-library="" and read back as ['']
        'shared_libraries': [] if list(ns.shared_libraries) == [''] else list(ns.shared_libraries),
        'c_includes': sorted(set(ns.c_includes)), 'packages': sorted(set(ns.exported_packages)),
        'doc_format': ns.doc_format,
        'nodes': nodes,
    }


def first_diff(a, b, path=''):
    """first difference of two nested views, as text; None if equal"""
    if type(a) is not type(b) and not (isinstance(a, (list, tuple)) and isinstance(b, (list, tuple))):
        return '%s: %r != %r' % (path, a, b)
    if isinstance(a, dict):
        for k in sorted(set(a) | set(b), key=str):
            if k not in a:
                return '%s/%s: missing in written model, read %r' % (path, k, _short(b[k]))
            if k not in b:
                return '%s/%s: written %r, missing in model read back' % (path, k, _short(a[k]))
            r = first_diff(a[k], b[k], '%s/%s' % (path, k))
            if r:
                return r
        return None
    if isinstance(a, (list, tuple)):
        if len(a) != len(b):
            return '%s: %d items written, %d read back (%r vs %r)' % (path, len(a), len(b), _short(a), _short(b))
        for i, (x, y) in enumerate(zip(a, b)):
            r = first_diff(x, y, '%s[%d]' % (path, i))
            if r:
                return r
        return None
    if a != b:
        return '%s: written %r, read back %r' % (path, a, b)
    return None


def _short(v):
    s = repr(v)
    return s if len(s) < 160 else s[:157] + '...'


def model_agree(ns_written, ns_read, sources_roots=()):
    return first_diff(ast_view(ns_written, sources_roots), ast_view(ns_read, ()))


# ------------------------------------------------- independent-reader models --
def _doc_model(xml_bytes):
    return girread.flat(girread.parse(xml_bytes), skip_tags=())


def handwritten_diff(b0, b1):
    """Differences between a hand-written GIR and its rewrite that are NOT the writer's
    defaults.  Allowed: the writer always states doc:format, shared-library and both prefix
    lists; it drops attributes that are not part of the format's namespace element
    (legacy c:prefix; c:*-prefixes on <repository>) and empty <parameters/> elements."""
    r0, r1 = girread.parse(b0), girread.parse(b1)
    d = girread.diff(girread.flat(r0, skip_tags=()), girread.flat(r1, skip_tags=()))
    ns = r0.find('namespace')
    nsname = ns.get('name') if ns is not None else ''
    nspath = 'repository/namespace[%s]' % nsname
    out = {}
    for k, (va, vb) in d.items():
        if k == 'repository/doc:format[unknown]' and va is None:
            continue
        if k == nspath + '@shared-library' and va is None and vb == '':
            continue
        if k in (nspath + '@c:identifier-prefixes', nspath + '@c:symbol-prefixes') and va is None:
            continue
        if k == nspath + '@c:prefix' and vb is None:
            continue
        if k in ('repository@c:identifier-prefixes', 'repository@c:symbol-prefixes', 'repository@c:prefix') and vb is None:
            continue
        if k.endswith('/parameters[]') and va == {} and vb is None and not any(
                x.startswith(k + '/') for x in d):
            continue
        out[k] = (va, vb)
    return out


def roundtrip(xml_bytes, include_dirs=(), identical=True):
    """None if the document survives the read/write cycle, else a description."""
    try:
        ns1 = read_ns(xml_bytes)
        b1 = write_ns(ns1)
    except Exception as e:     # noqa
        return 'first read/write raised %s: %s' % (type(e).__name__, e)
    if identical and b1 != xml_bytes:
        return 'rewrite differs from the input: %s' % _bytes_diff(xml_bytes, b1)
    try:
        ns2 = read_ns(b1)
        b2 = write_ns(ns2)
    except Exception as e:     # noqa
        return 'second read/write raised %s: %s' % (type(e).__name__, e)
    if b2 != b1:
        return 'a written file is not a fixed point of read/write: %s' % _bytes_diff(b1, b2)
    if not identical:
        d = handwritten_diff(xml_bytes, b1)
        if d:
            k = sorted(d)[0]
            return 'rewrite loses or changes %d item(s) of the original, e.g. %s: %r -> %r' % (len(d), k, d[k][0], d[k][1])
    # b1 == b2 here, so the independent reader trivially sees the same document twice; what is left
    # to compare is the model read from the input with the model read from the rewrite (only
    # informative when the rewrite is not byte-identical to the input)
    if b1 != xml_bytes:
        r = first_diff(ast_view(ns1), ast_view(ns2))
        if r:
            return 'models of first and second read differ: ' + r
    return None


def _bytes_diff(a, b):
    la, lb = a.split(b'\n'), b.split(b'\n')
    for i, (x, y) in enumerate(zip(la, lb)):
        if x != y:
            return 'line %d: %r -> %r' % (i + 1, x[:160], y[:160])
    return 'length %d -> %d lines' % (len(la), len(lb))
