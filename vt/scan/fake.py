"""Stub for giscanner._giscanner plus a small C declaration DSL.

The C lexer/parser extension cannot be built in this sandbox.  Everything the
Python side of the scanner consumes from it is plain data: a list of symbols
(ident, type, base_type tree, constants, file, line) and a list of comments.
This module provides that data from a declaration DSL; each declaration also
renders itself as C text (for evidence samples and for gcc in C08).
"""
import builtins
import os
import sys
import types

from vt.core import ROOT, REPO

SCRATCH = os.path.join(ROOT, '.build', 'xdg')


def install():
    """Idempotent: make `import giscanner.transformer` work without the C module."""
    if 'giscanner._giscanner' not in sys.modules:
        m = types.ModuleType('giscanner._giscanner')

        class SourceScanner(object):
            pass
        m.SourceScanner = SourceScanner
        sys.modules['giscanner._giscanner'] = m
    if REPO not in sys.path:
        sys.path.insert(0, REPO)
    builtins.GIR_DIR = '/nonexistent-verif/gir-1.0'
    builtins.DATADIR = '/nonexistent-verif'
    os.environ['XDG_DATA_HOME'] = os.path.join(SCRATCH, 'data')
    os.environ['XDG_DATA_DIRS'] = '/nonexistent-verif/share'
    os.environ['XDG_CACHE_HOME'] = os.path.join(SCRATCH, 'cache')
    os.environ.pop('GI_GIR_PATH', None)
    os.environ.pop('GI_SCANNER_DEBUG', None)
    os.environ.setdefault('GI_SCANNER_DISABLE_CACHE', '1')


install()

from giscanner.sourcescanner import (  # noqa: E402
    CSYMBOL_TYPE_INVALID, CSYMBOL_TYPE_ELLIPSIS, CSYMBOL_TYPE_CONST, CSYMBOL_TYPE_OBJECT,
    CSYMBOL_TYPE_FUNCTION, CSYMBOL_TYPE_FUNCTION_MACRO, CSYMBOL_TYPE_STRUCT, CSYMBOL_TYPE_UNION,
    CSYMBOL_TYPE_ENUM, CSYMBOL_TYPE_TYPEDEF, CSYMBOL_TYPE_MEMBER,
    CTYPE_INVALID, CTYPE_VOID, CTYPE_BASIC_TYPE, CTYPE_TYPEDEF, CTYPE_STRUCT, CTYPE_UNION,
    CTYPE_ENUM, CTYPE_POINTER, CTYPE_ARRAY, CTYPE_FUNCTION,
    TYPE_QUALIFIER_CONST, TYPE_QUALIFIER_VOLATILE, FUNCTION_INLINE, SourceSymbol)


class CT(object):
    """What the C module exposes as a GISourceType."""
    __slots__ = ('type', 'name', 'base_type', 'type_qualifier', 'child_list', 'is_bitfield',
                 'function_specifier')

    def __init__(self, type, name=None, base_type=None, type_qualifier=0, child_list=(),
                 is_bitfield=False, function_specifier=0):
        self.type = type
        self.name = name
        self.base_type = base_type
        self.type_qualifier = type_qualifier
        self.child_list = list(child_list)
        self.is_bitfield = is_bitfield
        self.function_specifier = function_specifier


class CS(object):
    """What the C module exposes as a GISourceSymbol."""
    __slots__ = ('type', 'ident', 'base_type', 'const_int', 'const_double', 'const_string',
                 'const_boolean', 'source_filename', 'line', 'private')

    def __init__(self, type, ident, base_type=None, const_int=None, const_double=None,
                 const_string=None, const_boolean=None, source_filename='/src/foo.h', line=1,
                 private=False):
        self.type = type
        self.ident = ident
        self.base_type = base_type
        self.const_int = const_int
        self.const_double = const_double
        self.const_string = const_string
        self.const_boolean = const_boolean
        self.source_filename = source_filename
        self.line = line
        self.private = private


def wrap(cs):
    return SourceSymbol(None, cs)


BASIC_WORDS = {'char', 'short', 'int', 'long', 'float', 'double', 'signed', 'unsigned', '_Bool',
               'bool', '__int128', 'size_t', 'ssize_t', 'int8_t', 'int16_t', 'int32_t', 'int64_t',
               'uint8_t', 'uint16_t', 'uint32_t', 'uint64_t', 'intptr_t', 'uintptr_t', 'wchar_t',
               'time_t', 'off_t', 'pid_t', 'uid_t', 'dev_t', 'gid_t', 'socklen_t', 'va_list',
               '__builtin_va_list'}
# the lexer (scannerlexer.l) returns BASIC_TYPE tokens only for C keywords and the
# names check_identifier() classifies; everything else declared by typedef is a TYPEDEF name.
LEX_BASIC = {'char', 'short', 'int', 'long', 'float', 'double', 'signed', 'unsigned', '_Bool', 'bool',
             '__int128', '__int64', '_Float128', '__float128', '_Complex'}


def T(spec):
    """Parse a C type spelling ('const char*', 'FooBar **', 'char * const', 'struct _X*')
    into the CT tree the C parser would produce."""
    if isinstance(spec, CT):
        return spec
    parts = spec.split('*')
    base = parts[0].split()
    qual = 0
    words = []
    for w in base:
        if w == 'const':
            qual |= TYPE_QUALIFIER_CONST
        elif w == 'volatile':
            qual |= TYPE_QUALIFIER_VOLATILE
        else:
            words.append(w)
    if words == ['void']:
        t = CT(CTYPE_VOID, type_qualifier=qual)
    elif words and words[0] in ('struct', 'union', 'enum'):
        k = {'struct': CTYPE_STRUCT, 'union': CTYPE_UNION, 'enum': CTYPE_ENUM}[words[0]]
        t = CT(k, words[1] if len(words) > 1 else None, type_qualifier=qual)
    elif all(w in LEX_BASIC for w in words) and words:
        t = CT(CTYPE_BASIC_TYPE, ' '.join(words), type_qualifier=qual)
    else:
        assert len(words) == 1, spec
        t = CT(CTYPE_TYPEDEF, words[0], type_qualifier=qual)
    for p in parts[1:]:
        q = 0
        for w in p.split():
            if w == 'const':
                q |= TYPE_QUALIFIER_CONST
            elif w == 'volatile':
                q |= TYPE_QUALIFIER_VOLATILE
            else:
                raise ValueError(spec)
        t = CT(CTYPE_POINTER, base_type=t, type_qualifier=q)
    return t


def ctext(t, declarator=''):
    """Render a CT tree back to C."""
    if t.type == CTYPE_POINTER:
        q = ''
        if t.type_qualifier & TYPE_QUALIFIER_CONST:
            q += ' const'
        if t.type_qualifier & TYPE_QUALIFIER_VOLATILE:
            q += ' volatile'
        inner = '*' + q + ((' ' + declarator) if (q and declarator) else declarator)
        if t.base_type.type == CTYPE_FUNCTION:
            return ctext(t.base_type, '(' + inner + ')')
        return ctext(t.base_type, inner)
    if t.type == CTYPE_ARRAY:
        n = t.child_list[0].const_int if t.child_list else ''
        return ctext(t.base_type, '%s[%s]' % (declarator, n))
    if t.type == CTYPE_FUNCTION:
        ps = ', '.join(param_text(p) for p in t.child_list) or 'void'
        return ctext(t.base_type, '%s (%s)' % (declarator, ps))
    q = ''
    if t.type_qualifier & TYPE_QUALIFIER_CONST:
        q += 'const '
    if t.type_qualifier & TYPE_QUALIFIER_VOLATILE:
        q += 'volatile '
    if t.type == CTYPE_VOID:
        base = 'void'
    elif t.type == CTYPE_STRUCT:
        base = 'struct %s' % t.name if t.name else 'struct'
    elif t.type == CTYPE_UNION:
        base = 'union %s' % t.name if t.name else 'union'
    elif t.type == CTYPE_ENUM:
        base = 'enum %s' % t.name if t.name else 'enum'
    else:
        base = t.name
    if t.type in (CTYPE_STRUCT, CTYPE_UNION) and t.child_list:
        base += ' { ' + ' '.join(member_text(m) for m in t.child_list) + ' }'
    return (q + base + (' ' + declarator if declarator else '')).strip()


def param_text(p):
    if p.type == CSYMBOL_TYPE_ELLIPSIS:
        return '...'
    return ctext(p.base_type, p.ident or '')


def member_text(m):
    s = ctext(m.base_type, m.ident or '')
    if m.const_int is not None and m.base_type.type != CTYPE_ARRAY:
        s += ' : %d' % m.const_int
    return s + ';'


# ------------------------------------------------------------ declarations ---
class Decl(object):
    file = '/src/foo.h'
    line = 1

    def at(self, file=None, line=None):
        if file is not None:
            self.file = file
        if line is not None:
            self.line = line
        return self

    def symbols(self):
        raise NotImplementedError

    def c(self):
        raise NotImplementedError


def _params(params, varargs=False):
    out = []
    for p in params:
        if isinstance(p, CS):
            out.append(p)
            continue
        t, n = p
        out.append(CS(CSYMBOL_TYPE_INVALID, n, T(t)))
    if varargs:
        out.append(CS(CSYMBOL_TYPE_ELLIPSIS, None, None))
    return out


class Func(Decl):
    def __init__(self, name, ret, params=(), varargs=False, inline=False):
        self.name, self.ret, self.params, self.varargs, self.inline = name, ret, list(params), varargs, inline

    def ftype(self):
        ret = T(self.ret)
        if self.inline:
            ret.function_specifier = FUNCTION_INLINE
        return CT(CTYPE_FUNCTION, base_type=ret, child_list=_params(self.params, self.varargs))

    def symbols(self):
        return [CS(CSYMBOL_TYPE_FUNCTION, self.name, self.ftype(), source_filename=self.file, line=self.line)]

    def c(self):
        return ('static inline ' if self.inline else '') + ctext(self.ftype(), self.name) + ';'


class Callback(Decl):
    """typedef ret (*Name) (params);"""

    def __init__(self, name, ret, params=(), varargs=False):
        self.name, self.ret, self.params, self.varargs = name, ret, list(params), varargs

    def ptype(self):
        return CT(CTYPE_POINTER, base_type=CT(CTYPE_FUNCTION, base_type=T(self.ret),
                                              child_list=_params(self.params, self.varargs)))

    def symbols(self):
        return [CS(CSYMBOL_TYPE_TYPEDEF, self.name, self.ptype(), source_filename=self.file, line=self.line)]

    def c(self):
        return 'typedef ' + ctext(self.ptype(), self.name) + ';'


class Typedef(Decl):
    """typedef <type> Name;   (alias, or typedef struct _Tag Name / typedef struct _Tag *Name)"""

    def __init__(self, name, target):
        self.name, self.target = name, target

    def symbols(self):
        return [CS(CSYMBOL_TYPE_TYPEDEF, self.name, T(self.target), source_filename=self.file, line=self.line)]

    def c(self):
        return 'typedef ' + ctext(T(self.target), self.name) + ';'


class Field(object):
    def __init__(self, name, type, bits=None, private=False, array=None):
        self.name, self.type, self.bits, self.private, self.array = name, type, bits, private, array

    def symbol(self, file, line):
        t = T(self.type)
        if self.array is not None:
            for n in reversed(self.array if isinstance(self.array, (list, tuple)) else [self.array]):
                kids = [] if n is None else [CS(CSYMBOL_TYPE_CONST, None, None, const_int=n)]
                t = CT(CTYPE_ARRAY, base_type=t, child_list=kids)
        return CS(CSYMBOL_TYPE_MEMBER, self.name, t, const_int=self.bits, source_filename=file, line=line,
                  private=self.private)


class FieldCb(object):
    """ret (*name) (params);   a function-pointer member"""

    def __init__(self, name, ret, params=(), varargs=False, private=False):
        self.name, self.ret, self.params, self.varargs, self.private = name, ret, list(params), varargs, private

    def symbol(self, file, line):
        t = CT(CTYPE_POINTER, base_type=CT(CTYPE_FUNCTION, base_type=T(self.ret),
                                           child_list=_params(self.params, self.varargs)))
        return CS(CSYMBOL_TYPE_MEMBER, self.name, t, source_filename=file, line=line, private=self.private)


class FieldAnon(object):
    """struct { ... } name;  or union { ... } name; as a member"""

    def __init__(self, name, fields, union=False):
        self.name, self.fields, self.union = name, fields, union

    def symbol(self, file, line):
        t = CT(CTYPE_UNION if self.union else CTYPE_STRUCT, None,
               child_list=[f.symbol(file, line + 1 + i) for i, f in enumerate(self.fields)])
        return CS(CSYMBOL_TYPE_MEMBER, self.name, t, source_filename=file, line=line)


class Struct(Decl):
    """struct _Tag { fields };   (union=True for unions)"""

    def __init__(self, tag, fields=(), union=False):
        self.tag, self.fields, self.union = tag, list(fields), union

    def stype(self):
        return CT(CTYPE_UNION if self.union else CTYPE_STRUCT, self.tag,
                  child_list=[f.symbol(self.file, self.line + 1 + i) for i, f in enumerate(self.fields)])

    def symbols(self):
        return [CS(CSYMBOL_TYPE_UNION if self.union else CSYMBOL_TYPE_STRUCT, self.tag, self.stype(),
                   source_filename=self.file, line=self.line)]

    def c(self):
        return ctext(self.stype()) + ';'


class TypedefAnon(Decl):
    """typedef struct { fields } Name;"""

    def __init__(self, name, fields=(), union=False):
        self.name, self.fields, self.union = name, list(fields), union

    def stype(self):
        return CT(CTYPE_UNION if self.union else CTYPE_STRUCT, None,
                  child_list=[f.symbol(self.file, self.line + 1 + i) for i, f in enumerate(self.fields)])

    def symbols(self):
        return [CS(CSYMBOL_TYPE_TYPEDEF, self.name, self.stype(), source_filename=self.file, line=self.line)]

    def c(self):
        return 'typedef ' + ctext(self.stype(), self.name) + ';'


class Enum(Decl):
    """typedef enum [tag] { A = v, ... } Name;   members: (ident, value[, private])"""

    def __init__(self, name, members, bitfield=False, tag=None, typedef=True):
        self.name, self.members, self.bitfield, self.tag, self.typedef = name, list(members), bitfield, tag, typedef

    def etype(self):
        kids = []
        for i, m in enumerate(self.members):
            ident, value = m[0], m[1]
            private = m[2] if len(m) > 2 else False
            kids.append(CS(CSYMBOL_TYPE_OBJECT, ident, None, const_int=value, source_filename=self.file,
                           line=self.line + 1 + i, private=private))
        return CT(CTYPE_ENUM, self.tag, child_list=kids, is_bitfield=self.bitfield)

    def symbols(self):
        if self.typedef:
            return [CS(CSYMBOL_TYPE_TYPEDEF, self.name, self.etype(), source_filename=self.file, line=self.line)]
        return [CS(CSYMBOL_TYPE_ENUM, self.tag or self.name, self.etype(), source_filename=self.file, line=self.line)]

    def c(self):
        body = ', '.join('%s = %d' % (m[0], m[1]) for m in self.members)
        if self.typedef:
            return 'typedef enum %s{ %s } %s;' % ((self.tag + ' ') if self.tag else '', body, self.name)
        return 'enum %s { %s };' % (self.tag or self.name, body)


class Const(Decl):
    """#define NAME value   /   #define NAME ((type) value)"""

    def __init__(self, name, value, ctype=None):
        self.name, self.value, self.ctype = name, value, ctype

    def symbols(self):
        kw = {}
        v = self.value
        if isinstance(v, bool):
            kw['const_boolean'] = v
        elif isinstance(v, int):
            kw['const_int'] = v
        elif isinstance(v, float):
            kw['const_double'] = v
        else:
            kw['const_string'] = v
        return [CS(CSYMBOL_TYPE_CONST, self.name, T(self.ctype) if self.ctype else None,
                   source_filename=self.file, line=self.line, **kw)]

    def c(self):
        v = self.value
        if isinstance(v, bool):
            lit = 'TRUE' if v else 'FALSE'
        elif isinstance(v, str):
            lit = '"%s"' % v.replace('\\', '\\\\').replace('"', '\\"')
        else:
            lit = repr(v)
        if self.ctype:
            lit = '((%s) %s)' % (self.ctype, lit)
        return '#define %s %s' % (self.name, lit)


class Macro(Decl):
    """#define NAME(a, b) ...   (function-like macro)"""

    def __init__(self, name, args=()):
        self.name, self.args = name, list(args)

    def symbols(self):
        t = CT(CTYPE_FUNCTION, base_type=None,
               child_list=[CS(CSYMBOL_TYPE_INVALID, a, None) for a in self.args])
        return [CS(CSYMBOL_TYPE_FUNCTION_MACRO, self.name, t, source_filename=self.file, line=self.line)]

    def c(self):
        return '#define %s(%s) 0' % (self.name, ', '.join(self.args))


def number(decls, file='/src/foo.h', start=10, step=10):
    """Assign file/line positions in order; returns decls."""
    line = start
    for d in decls:
        d.file = file if d.file == Decl.file else d.file
        d.line = line
        line += step
    return decls


def symbols_of(decls):
    out = []
    for d in decls:
        out.extend(d.symbols())
    return out


def c_of(decls):
    return '\n'.join(d.c() for d in decls)
