"""C03 - fixed namespace skeleton, element table and the id-keyed GIR view.

The skeleton contains one of each documentable element.  Everything in the
tables below is written from the C declarations / the runtime dump of the
skeleton and the documented GIR naming (namespace prefix stripped, members
lower-cased); nothing is read from giscanner.  `check_tables()` verifies that
every element the tables name exists in the baseline GIR, so a wrong table is a
broken harness and never a verdict.
"""
from vt.scan import fake, run, girread
from vt.scan.fake import Func, Callback, Typedef, Struct, Enum, Const, Macro, Field, FieldCb

INCLUDES = ['GObject-2.0', 'Gio-2.0']


def decls():
    d = [
        # ---- class FooObj (+ class struct with virtual slots) --------------------
        Typedef('FooObj', 'struct _FooObj'), Typedef('FooObjClass', 'struct _FooObjClass'),
        Struct('_FooObj', [Field('parent_instance', 'GObject'), Field('pub', 'int')]),
        Struct('_FooObjClass', [Field('parent_class', 'GObjectClass'),
                                FieldCb('vmeth', 'void', [('FooObj*', 'self'), ('int', 'x')]),
                                FieldCb('do_thing', 'int', [('FooObj*', 'self'), ('int', 'x')]),
                                FieldCb('vplain', 'void', [('FooObj*', 'self')])]),
        Func('foo_obj_get_type', 'GType'),
        Func('foo_obj_new', 'FooObj*'),
        Func('foo_obj_create', 'FooObj*', [('int', 'x')]),
        Func('foo_obj_dup', 'FooObj*', [('FooObj*', 'self')]),
        Func('foo_obj_do_thing', 'int', [('FooObj*', 'self'), ('int', 'x')]),
        Func('foo_obj_invoke', 'void', [('FooObj*', 'self'), ('int', 'x')]),
        Func('foo_obj_meth', 'void', [('FooObj*', 'self')]),
        Func('foo_obj_set_prop', 'void', [('FooObj*', 'self'), ('int', 'v')]),
        Func('foo_obj_get_prop', 'int', [('FooObj*', 'self')]),
        Func('foo_obj_emit_sig', 'void', [('FooObj*', 'self'), ('int', 'v')]),
        # ---- async families: class methods (heuristic pairing applies), with and without a sync sibling
        Func('foo_obj_load_async', 'void', [('FooObj*', 'self'), ('GAsyncReadyCallback', 'callback'), ('gpointer', 'user_data')]),
        Func('foo_obj_load_finish', 'gboolean', [('FooObj*', 'self'), ('GAsyncResult*', 'res'), ('GError**', 'error')]),
        Func('foo_obj_load', 'gboolean', [('FooObj*', 'self'), ('GError**', 'error')]),
        Func('foo_obj_load_alt', 'gboolean', [('FooObj*', 'self'), ('GError**', 'error')]),
        Func('foo_obj_save_async', 'void', [('FooObj*', 'self'), ('GAsyncReadyCallback', 'callback'), ('gpointer', 'user_data')]),
        Func('foo_obj_save_finish', 'gboolean', [('FooObj*', 'self'), ('GAsyncResult*', 'res'), ('GError**', 'error')]),
        # ---- subclass with the same property / signal / slot names ----------------
        Typedef('FooSub', 'struct _FooSub'), Typedef('FooSubClass', 'struct _FooSubClass'),
        Struct('_FooSub', [Field('parent_instance', 'FooObj')]),
        Struct('_FooSubClass', [Field('parent_class', 'FooObjClass'),
                                FieldCb('vmeth', 'void', [('FooSub*', 'self'), ('int', 'x')])]),
        Func('foo_sub_get_type', 'GType'),
        # ---- class known only through its GType (no C struct) ---------------------
        Func('foo_hidden_get_type', 'GType'),
        # ---- interface --------------------------------------------------------------
        Typedef('FooIface', 'struct _FooIface'), Typedef('FooIfaceInterface', 'struct _FooIfaceInterface'),
        Struct('_FooIfaceInterface', [Field('g_iface', 'GTypeInterface'),
                                      FieldCb('ivirt', 'void', [('FooIface*', 'self')])]),
        Func('foo_iface_get_type', 'GType'),
        Func('foo_iface_ivirt', 'void', [('FooIface*', 'self')]),
        # ---- boxed record -----------------------------------------------------------
        Typedef('FooRec', 'struct _FooRec'),
        Struct('_FooRec', [Field('x', 'int'), Field('y', 'int'), FieldCb('cb', 'void', [('int', 'a')])]),
        Func('foo_rec_get_type', 'GType'),
        Func('foo_rec_new', 'FooRec*'),
        Func('foo_rec_make', 'FooRec*', [('int', 'x')]),
        Func('foo_rec_get_x', 'int', [('FooRec*', 'rec')]),
        Func('foo_frob_rec', 'void', [('FooRec*', 'rec'), ('int', 'n')]),
        Func('foo_rec_read_async', 'void', [('FooRec*', 'rec'), ('GAsyncReadyCallback', 'callback'), ('gpointer', 'user_data')]),
        Func('foo_rec_read_finish', 'gboolean', [('FooRec*', 'rec'), ('GAsyncResult*', 'res'), ('GError**', 'error')]),
        Func('foo_rec_read', 'gboolean', [('FooRec*', 'rec'), ('GError**', 'error')]),
        # ---- plain record, union ------------------------------------------------------
        Typedef('FooPlain', 'struct _FooPlain'),
        Struct('_FooPlain', [Field('a', 'int')]),
        Func('foo_make_plain', 'FooPlain*', [('int', 'x')]),
        Func('foo_make_obj', 'FooObj*', [('int', 'x')]),
        Typedef('FooUni', 'union _FooUni'),
        Struct('_FooUni', [Field('i', 'int'), Field('d', 'double')], union=True),
        Func('foo_uni_peek', 'int', [('FooUni*', 'u')]),
        # ---- enum, bitfield, constants, alias, callback -------------------------------
        Enum('FooEnum', [('FOO_ENUM_A', 0), ('FOO_ENUM_B', 1)]),
        Enum('FooFlags', [('FOO_FLAGS_X', 1), ('FOO_FLAGS_Y', 2)], bitfield=True),
        Const('FOO_CONST', 42), Const('FOO_STR', 'hello'),
        Typedef('FooAlias', 'int'),
        Callback('FooCallback', 'void', [('int', 'x'), ('gpointer', 'user_data')]),
        # ---- plain functions ------------------------------------------------------------
        Func('foo_func', 'void', [('int', 'x')]),
        Func('foo_func_full', 'void', [('int', 'x'), ('int', 'y')]),
        Func('foo_other', 'int'),
        Func('foo_fetch_async', 'void', [('GAsyncReadyCallback', 'callback'), ('gpointer', 'user_data')]),
        Func('foo_fetch_finish', 'gboolean', [('GAsyncResult*', 'res'), ('GError**', 'error')]),
        Func('foo_fetch', 'gboolean', [('GError**', 'error')]),
        Func('foo_use_types', 'void', [('FooEnum', 'e'), ('FooFlags', 'f'), ('FooAlias', 'a'),
                                       ('FooPlain*', 'p'), ('FooUni*', 'u')]),
        Macro('FOO_MACRO', ['a']),
    ]
    return fake.number(d)


DUMP = '''<?xml version="1.0"?><repository>
<class name="FooObj" get-type="foo_obj_get_type" parents="GObject"><implements name="FooIface"/>
<property name="prop" type="gint" flags="3" default-value="0"/>
<property name="prop-two" type="gchararray" flags="3"/>
<signal name="sig" return="void" when="last"><param type="gint"/></signal>
<signal name="sig-two" return="void" when="last"></signal>
</class>
<class name="FooSub" get-type="foo_sub_get_type" parents="FooObj,GObject">
<property name="prop" type="gint" flags="3" default-value="0"/>
<signal name="sig" return="void" when="last"><param type="gint"/></signal>
</class>
<class name="FooHidden" get-type="foo_hidden_get_type" parents="GObject">
<property name="prop" type="gint" flags="3"/>
<signal name="sig" return="void" when="last"></signal>
</class>
<interface name="FooIface" get-type="foo_iface_get_type"><prerequisite name="GObject"/>
<property name="prop" type="gint" flags="1"/>
<signal name="sig" return="void" when="last"></signal>
</interface>
<boxed name="FooRec" get-type="foo_rec_get_type"/>
</repository>'''

# ---------------------------------------------------------------- element table ---
# kinds.  FN = callables that carry a C symbol.
FN = ('function', 'method', 'ctor', 'static')
TYPES = ('class', 'interface', 'record', 'gtstruct', 'boxed', 'union', 'enum', 'bitfield', 'alias', 'callback')

# C type name -> (element id, category, GI name)
TYPEINFO = {
    'FooObj': ('class[Obj]', 'class', 'Obj'),
    'FooSub': ('class[Sub]', 'class', 'Sub'),
    'FooIface': ('interface[Iface]', 'interface', 'Iface'),
    'FooRec': ('record[Rec]', 'boxed', 'Rec'),
    'FooPlain': ('record[Plain]', 'plain', 'Plain'),
    'FooUni': ('union[Uni]', 'plain', 'Uni'),
}


def _fn(kind, cls=None, ret=None, first=None, vf=None, accessor=False, fam=None):
    # fam: async family (foo_async / foo_finish / foo / foo_alt share one)
    return {'kind': kind, 'cls': cls, 'ret': ret, 'first': first, 'vf_by_name': vf, 'accessor': accessor,
            'fam': fam}


ELEMENTS = {
    # block name: facts.  id is filled below ('fn:<symbol>' for FN kinds)
    'foo_func': _fn('function'),
    'foo_func_full': _fn('function'),
    'foo_other': _fn('function'),
    'foo_use_types': _fn('function'),
    'foo_frob_rec': _fn('function', first='FooRec'),
    'foo_obj_new': _fn('ctor', 'class[Obj]', ret='FooObj'),
    'foo_obj_create': _fn('static', 'class[Obj]', ret='FooObj'),
    'foo_obj_dup': _fn('method', 'class[Obj]', ret='FooObj', first='FooObj'),
    'foo_obj_do_thing': _fn('method', 'class[Obj]', first='FooObj', vf='FooObjClass::do_thing'),
    'foo_obj_invoke': _fn('method', 'class[Obj]', first='FooObj'),
    'foo_obj_meth': _fn('method', 'class[Obj]', first='FooObj'),
    'foo_obj_set_prop': _fn('method', 'class[Obj]', first='FooObj', accessor=True),
    'foo_obj_get_prop': _fn('method', 'class[Obj]', first='FooObj', accessor=True),
    'foo_obj_emit_sig': _fn('method', 'class[Obj]', first='FooObj'),
    'foo_obj_load_async': _fn('method', 'class[Obj]', first='FooObj', fam='obj_load'),
    'foo_obj_load_finish': _fn('method', 'class[Obj]', first='FooObj', fam='obj_load'),
    'foo_obj_load': _fn('method', 'class[Obj]', first='FooObj', fam='obj_load'),
    'foo_obj_load_alt': _fn('method', 'class[Obj]', first='FooObj', fam='obj_load'),
    'foo_obj_save_async': _fn('method', 'class[Obj]', first='FooObj', fam='obj_save'),
    'foo_obj_save_finish': _fn('method', 'class[Obj]', first='FooObj', fam='obj_save'),
    'foo_rec_read_async': _fn('method', 'record[Rec]', first='FooRec', fam='rec_read'),
    'foo_rec_read_finish': _fn('method', 'record[Rec]', first='FooRec', fam='rec_read'),
    'foo_rec_read': _fn('method', 'record[Rec]', first='FooRec', fam='rec_read'),
    'foo_fetch_async': _fn('function', fam='fetch'),
    'foo_fetch_finish': _fn('function', fam='fetch'),
    'foo_fetch': _fn('function', fam='fetch'),
    'foo_iface_ivirt': _fn('method', 'interface[Iface]', first='FooIface', vf='FooIfaceInterface::ivirt'),
    'foo_rec_new': _fn('ctor', 'record[Rec]', ret='FooRec'),
    'foo_rec_make': _fn('static', 'record[Rec]', ret='FooRec'),
    'foo_rec_get_x': _fn('method', 'record[Rec]', first='FooRec'),
    'foo_make_plain': _fn('function', ret='FooPlain'),
    'foo_make_obj': _fn('function', ret='FooObj'),
    'foo_uni_peek': _fn('method', 'union[Uni]', first='FooUni'),
    'FOO_MACRO': {'kind': 'macro', 'id': 'function-macro[MACRO]'},
    'FooObj': {'kind': 'class', 'id': 'class[Obj]', 'gi': 'Obj'},
    'FooSub': {'kind': 'class', 'id': 'class[Sub]', 'gi': 'Sub'},
    'FooHidden': {'kind': 'class', 'id': 'class[Hidden]', 'gi': 'Hidden'},
    'FooIface': {'kind': 'interface', 'id': 'interface[Iface]', 'gi': 'Iface'},
    'FooObjClass': {'kind': 'gtstruct', 'id': 'record[ObjClass]', 'gi': 'ObjClass'},
    'FooIfaceInterface': {'kind': 'gtstruct', 'id': 'record[IfaceInterface]', 'gi': 'IfaceInterface'},
    'FooRec': {'kind': 'boxed', 'id': 'record[Rec]', 'gi': 'Rec'},
    'FooPlain': {'kind': 'record', 'id': 'record[Plain]', 'gi': 'Plain'},
    'FooUni': {'kind': 'union', 'id': 'union[Uni]', 'gi': 'Uni'},
    'FooEnum': {'kind': 'enum', 'id': 'enumeration[Enum]', 'gi': 'Enum'},
    'FooFlags': {'kind': 'bitfield', 'id': 'bitfield[Flags]', 'gi': 'Flags'},
    'FooAlias': {'kind': 'alias', 'id': 'alias[Alias]', 'gi': 'Alias'},
    'FooCallback': {'kind': 'callback', 'id': 'callback[Callback]', 'gi': 'Callback'},
    'FOO_CONST': {'kind': 'constant', 'id': 'constant[CONST]'},
    'FOO_STR': {'kind': 'constant', 'id': 'constant[STR]'},
    'FOO_ENUM_A': {'kind': 'member', 'id': 'enumeration[Enum]/member[a]'},
    'FOO_ENUM_B': {'kind': 'member', 'id': 'enumeration[Enum]/member[b]'},
    'FOO_FLAGS_X': {'kind': 'member', 'id': 'bitfield[Flags]/member[x]'},
    'FooObj:prop': {'kind': 'property', 'id': 'class[Obj]/property[prop]', 'cls': 'class[Obj]'},
    'FooObj:prop-two': {'kind': 'property', 'id': 'class[Obj]/property[prop-two]', 'cls': 'class[Obj]'},
    'FooSub:prop': {'kind': 'property', 'id': 'class[Sub]/property[prop]', 'cls': 'class[Sub]'},
    'FooIface:prop': {'kind': 'property', 'id': 'interface[Iface]/property[prop]', 'cls': 'interface[Iface]'},
    'FooHidden:prop': {'kind': 'property', 'id': 'class[Hidden]/property[prop]', 'cls': 'class[Hidden]'},
    'FooObj::sig': {'kind': 'signal', 'id': 'class[Obj]/glib:signal[sig]', 'cls': 'class[Obj]', 'nparams': 1},
    'FooObj::sig-two': {'kind': 'signal', 'id': 'class[Obj]/glib:signal[sig-two]', 'cls': 'class[Obj]', 'nparams': 0},
    'FooSub::sig': {'kind': 'signal', 'id': 'class[Sub]/glib:signal[sig]', 'cls': 'class[Sub]', 'nparams': 1},
    'FooIface::sig': {'kind': 'signal', 'id': 'interface[Iface]/glib:signal[sig]', 'cls': 'interface[Iface]', 'nparams': 0},
    'FooHidden::sig': {'kind': 'signal', 'id': 'class[Hidden]/glib:signal[sig]', 'cls': 'class[Hidden]', 'nparams': 0},
    'FooRec.x': {'kind': 'field', 'id': 'record[Rec]/field[x]'},
    'FooRec.cb': {'kind': 'cbfield', 'id': 'record[Rec]/field[cb]'},
    'FooObj.pub': {'kind': 'field', 'id': 'class[Obj]/field[pub]'},
    'FooObjClass.vmeth': {'kind': 'cbfield', 'id': 'record[ObjClass]/field[vmeth]'},
    'FooUni.i': {'kind': 'field', 'id': 'union[Uni]/field[i]'},
    'FooPlain.a': {'kind': 'field', 'id': 'record[Plain]/field[a]'},
    'FooObjClass::vmeth': {'kind': 'vfunc', 'id': 'class[Obj]/virtual-method[vmeth]', 'cls': 'class[Obj]',
                           'slot': 'vmeth', 'invoker_fn': None},
    'FooObjClass::do_thing': {'kind': 'vfunc', 'id': 'class[Obj]/virtual-method[do_thing]', 'cls': 'class[Obj]',
                              'slot': 'do_thing', 'invoker_fn': 'foo_obj_do_thing'},
    'FooObjClass::vplain': {'kind': 'vfunc', 'id': 'class[Obj]/virtual-method[vplain]', 'cls': 'class[Obj]',
                            'slot': 'vplain', 'invoker_fn': None},
    'FooSubClass::vmeth': {'kind': 'vfunc', 'id': 'class[Sub]/virtual-method[vmeth]', 'cls': 'class[Sub]',
                           'slot': 'vmeth', 'invoker_fn': None},
    'FooIfaceInterface::ivirt': {'kind': 'vfunc', 'id': 'interface[Iface]/virtual-method[ivirt]',
                                 'cls': 'interface[Iface]', 'slot': 'ivirt', 'invoker_fn': 'foo_iface_ivirt'},
}
for _n, _e in ELEMENTS.items():
    _e['block'] = _n
    if _e['kind'] in FN:
        _e['id'] = 'fn:' + _n

# methods of a class that exist / match a signal's signature (for setter/getter/emitter targets)
METHOD_NAMES = {'class[Obj]': {'dup', 'do_thing', 'invoke', 'meth', 'set_prop', 'get_prop', 'emit_sig', 'load_async',
                               'load_finish', 'load', 'load_alt', 'save_async', 'save_finish'},
                'interface[Iface]': {'ivirt'}}
# emitter candidates: (class id, signal nparams) -> methods with that many non-instance parameters (all
# signal parameters of the skeleton are gint) that return what the signal returns (void)
EMITTER_OK = {('class[Obj]', 0): {'meth'}, ('class[Obj]', 1): {'emit_sig', 'invoke', 'set_prop'}}


def vfunc_of(cls, slot):
    for e in ELEMENTS.values():
        if e['kind'] == 'vfunc' and e['cls'] == cls and e['slot'] == slot:
            return e
    return None


# ---------------------------------------------------------------- near-miss names ---
# (block name, [ids the effect may be confined to]); [] = the diff MUST be empty
NEAR_MISS = [
    # properties
    ('FooObj:pro', []), ('FooObj:propx', []), ('FooObj:prop-', []), ('FooObj:prop-t', []), ('Obj:prop', []),
    ('FooObj::prop', []), ('FooObj.prop', []), ('FooObjClass:prop', []), ('fooobj:prop', []),
    ('FooSub:prop-two', []), ('FooObj:prop_two', ['class[Obj]/property[prop-two]']), ('Hidden:prop', []),
    ('foo_hidden:prop', []),
    # signals
    ('FooObj::si', []), ('FooObj::sigx', []), ('FooObj::sig-', []), ('FooSub::sig-two', []), ('Obj::sig', []),
    ('FooObj:sig', []), ('FooObj.sig', []), ('FooObjClass::sig', []), ('FooObj::sig_two', ['class[Obj]/glib:signal[sig-two]']),
    # fields
    ('FooRec.z', []), ('FooRec.xx', []), ('Rec.x', []), ('FooRec::x', []), ('FooRec:x', []), ('FooPlain.x', []),
    ('_FooRec.x', ['record[Rec]/field[x]']), ('FooObjClass.vmet', []), ('FooSub.pub', []),
    # virtual functions
    ('FooObj::vmeth', []), ('FooObjClass::vmet', []), ('FooObjClass::vmethx', []), ('FooSubClass::do_thing', []),
    ('FooObjClass:vmeth', []), ('ObjClass::vmeth', []), ('FooIface::ivirt', []), ('FooIfaceInterface::vmeth', []),
    # functions / methods
    ('foo_fun', []), ('foo_func_', []), ('foo_func_ful', []), ('func', []), ('Foo.func', []), ('foo_funcx', []),
    ('FOO_FUNC', []), ('foo_obj_met', []), ('foo_obj_meth_', []), ('obj_meth', []), ('meth', []),
    ('FooObj.meth', []), ('FooObj::meth', []), ('foo_obj', []), ('foo_rec', []), ('foo_macro', []),
    # types
    ('Rec', []), ('FooRe', []), ('FooRecx', []), ('Foo.Rec', []), ('_FooRec', ['record[Rec]']), ('Obj', []),
    ('FooObj_', []), ('_FooObj', ['class[Obj]']), ('fooobj', []), ('Hidden', []), ('FooEnu', []), ('Enum', []),
    ('FooAlia', []), ('Alias', []), ('FooCallbac', []), ('Callback', []), ('FooUn', []), ('Iface', []),
    # members / constants
    ('FOO_ENUM_', []), ('FOO_ENUM_AA', []), ('ENUM_A', []), ('a', []), ('FooEnum.a', []), ('FooEnum.FOO_ENUM_A', []),
    ('FooEnum::FOO_ENUM_A', []), ('CONST', []), ('FOO_CONS', []), ('FOO_CONST_', []), ('foo_const', []),
    # sections: documented only as documentation carriers -> confined to the type / a new docsection
    ('SECTION:fooobj', ['class[Obj]', 'docsection[fooobj]']), ('SECTION:foorec', ['record[Rec]', 'docsection[foorec]']),
    ('SECTION:misc', ['docsection[misc]']), ('SECTION:FooObj', ['class[Obj]', 'docsection[FooObj]']),
    # sections of every type kind (a section documents Class/Interface/Record/Union; elsewhere it is a docsection)
    ('SECTION:foosub', ['class[Sub]', 'docsection[foosub]']), ('SECTION:foohidden', ['class[Hidden]', 'docsection[foohidden]']),
    ('SECTION:fooiface', ['interface[Iface]', 'docsection[fooiface]']),
    ('SECTION:fooobjclass', ['record[ObjClass]', 'docsection[fooobjclass]']),
    ('SECTION:fooifaceinterface', ['record[IfaceInterface]', 'docsection[fooifaceinterface]']),
    ('SECTION:fooplain', ['record[Plain]', 'docsection[fooplain]']), ('SECTION:foouni', ['union[Uni]', 'docsection[foouni]']),
    ('SECTION:fooenum', ['docsection[fooenum]']), ('SECTION:fooflags', ['docsection[fooflags]']),
    ('SECTION:foocallback', ['docsection[foocallback]']), ('SECTION:fooalias', ['docsection[fooalias]']),
]

# ------------------------------------------------------------------- GIR view ---
IDENT_TAGS = {'alias', 'constant', 'callback', 'enumeration', 'bitfield', 'interface', 'class', 'record', 'union',
              'function', 'function-inline', 'function-macro', 'constructor', 'method', 'method-inline',
              'virtual-method', 'property', 'field', 'glib:signal', 'member', 'glib:boxed', 'docsection'}
FN_TAGS = {'function', 'function-inline', 'constructor', 'method', 'method-inline'}
INFO_TEXT = ('doc', 'doc-version', 'doc-deprecated', 'doc-stability')


def _sigdump(e):
    """Canonical dump of the non-identified, non-info part of an element (signature, type, implements...)"""
    out = []
    for k in e.kids:
        if k.tag in IDENT_TAGS or k.tag in INFO_TEXT or k.tag in ('attribute', 'source-position'):
            continue
        out.append(_full(k))
    return out


def _full(e):
    kids = []
    for k in e.kids:
        if k.tag == 'source-position':
            continue
        if k.tag in IDENT_TAGS:      # e.g. callback inside a parameter never happens; keep a marker only
            kids.append(['#ident', k.tag, k.get('name')])
            continue
        kids.append(_full(k))
    text = (e.text or '').strip() if not e.kids else ''
    return [e.tag, sorted(e.attrib.items()), text, kids]


def _typerefs(e, acc):
    for k in e.kids:
        if k.tag in IDENT_TAGS:
            continue
        if k.tag == 'type' and k.get('name'):
            acc.add(k.get('name'))
        _typerefs(k, acc)


def view(xml_bytes, root=None):
    """{id: [record, ...]} ; record = dict(tag, owner, name, attrs, info, sig, typename, refs)"""
    if root is None:
        root = girread.parse(xml_bytes)
    ns = girread.namespace_of(root)
    out = {}

    def rec(e, owner):
        seen = {}
        for k in e.kids:
            if k.tag not in IDENT_TAGS:
                continue
            cid = k.get('c:identifier')
            if k.tag in FN_TAGS and cid:
                kid_id = 'fn:' + cid
            else:
                key = '%s[%s]' % (k.tag, k.get('name') or '')
                n = seen.get(key, 0)
                seen[key] = n + 1
                kid_id = (owner + '/' if owner else '') + key + ('#%d' % n if n else '')
            info = {}
            for c in k.kids:
                if c.tag in INFO_TEXT:
                    info['info:' + c.tag] = c.text or ''
                    if c.tag == 'doc':
                        info['info:doc@pos'] = tuple(sorted((a, v) for a, v in c.attrib.items() if a != 'xml:space'))
                elif c.tag == 'attribute':
                    info['attribute:' + (c.get('name') or '')] = c.get('value')
            tn = None
            for c in k.kids:
                if c.tag in ('type', 'array'):
                    tn = c.get('name') if c.tag == 'type' else 'array'
                    break
            refs = set()
            _typerefs(k, refs)
            shape = None
            ps = k.find('parameters')
            if k.tag in FN_TAGS or k.tag in ('virtual-method', 'callback', 'glib:signal'):
                shape = (ps is not None and ps.find('instance-parameter') is not None,
                         len(ps.findall('parameter')) if ps is not None else 0)
            r = {'tag': k.tag, 'owner': owner, 'attrs': dict(k.attrib), 'info': info,
                 'sig': repr(_sigdump(k)), 'typename': tn, 'refs': refs, 'shape': shape}
            out.setdefault(kid_id, []).append(r)
            rec(k, kid_id)
    rec(ns, '')
    # namespace-level attributes and the repository prologue take part in the frame as one pseudo element
    pro = [[k.tag, sorted(k.attrib.items())] for k in root.kids if k.tag != 'namespace']
    out['#namespace'] = [{'tag': 'namespace', 'owner': '', 'attrs': dict(ns.attrib), 'info': {},
                          'sig': repr(pro), 'typename': None, 'refs': set(), 'shape': None}]
    return out


def fields(records):
    """Flatten the record group of one id to {field: value}; a value is a tuple over the group's
    members (sorted by owner) only when they differ."""
    recs = sorted(records, key=lambda r: (r['owner'], r['tag']))
    per = []
    for r in recs:
        f = {'tag': r['tag'], 'owner': r['owner'], 'sig': r['sig'], 'typename': r['typename'], 'shape': r.get('shape')}
        for a, v in r['attrs'].items():
            f['@' + a] = v
        f.update(r['info'])
        per.append(f)
    out = {'count': len(per)}
    for k in sorted(set().union(*[set(p) for p in per])):
        vals = tuple(p.get(k) for p in per)
        out[k] = vals[0] if all(v == vals[0] for v in vals) else vals
    return out


def all_fields(v):
    return {i: fields(r) for i, r in v.items()}


def delta(fvb, fva):
    """{(id, field): (baseline value, annotated value)} for every difference; arguments are
    all_fields() of the two views"""
    out = {}
    for i in sorted(set(fvb) | set(fva)):
        fb = fvb.get(i) or {'count': 0}
        fa = fva.get(i) or {'count': 0}
        for k in sorted(set(fb) | set(fa)):
            if fb.get(k) != fa.get(k):
                out[(i, k)] = (fb.get(k), fa.get(k))
    return out


_BASE = {}


def baseline():
    """(xml bytes, view, flat) of the un-annotated skeleton - computed once per process"""
    if 'b' not in _BASE:
        r = run.scan(decls(), [], includes=INCLUDES, dump=DUMP)
        if r.error or not r.xml:
            from vt.core import HarnessBroken
            raise HarnessBroken('baseline scan failed: %s' % r.error)
        v = view(r.xml)
        _BASE['b'] = (r.xml, v, girread.flat(girread.parse(r.xml)))
        _BASE['f'] = all_fields(v)
        _BASE['w'] = set(w['text'] for w in r.warnings())
    return _BASE['b']


def baseline_fields():
    baseline()
    return _BASE['f']


def baseline_warnings():
    baseline()
    return _BASE['w']


def scan(comments):
    return run.scan(decls(), comments, includes=INCLUDES, dump=DUMP)


def check_tables():
    from vt.core import HarnessBroken
    _, vb, _ = baseline()
    want_tag = {'function': {'function'}, 'method': {'method'}, 'ctor': {'constructor'}, 'static': {'function'},
                'macro': {'function-macro'}, 'class': {'class'}, 'interface': {'interface'}, 'record': {'record'},
                'gtstruct': {'record'}, 'boxed': {'record'}, 'union': {'union'}, 'enum': {'enumeration'},
                'bitfield': {'bitfield'}, 'alias': {'alias'}, 'callback': {'callback'}, 'constant': {'constant'},
                'member': {'member'}, 'property': {'property'}, 'signal': {'glib:signal'}, 'field': {'field'},
                'cbfield': {'field'}, 'vfunc': {'virtual-method'}}
    for name, e in ELEMENTS.items():
        if e['id'] not in vb:
            raise HarnessBroken('skeleton table: %s -> %s not in baseline GIR' % (name, e['id']))
        tags = {r['tag'] for r in vb[e['id']]}
        if not tags <= want_tag[e['kind']]:
            raise HarnessBroken('skeleton table: %s is %s in baseline, table says %s' % (name, tags, e['kind']))
        if e['kind'] in FN and e['kind'] != 'function':
            owners = {r['owner'] for r in vb[e['id']]}
            if e['cls'] not in owners:
                raise HarnessBroken('skeleton table: %s owner %s, table says %s' % (name, owners, e['cls']))
    for e in ELEMENTS.values():
        if e['kind'] == 'vfunc':
            inv = fields(vb[e['id']]).get('@invoker')
            if (inv is not None) != (e['invoker_fn'] is not None):
                raise HarnessBroken('skeleton table: vfunc %s invoker %r' % (e['block'], inv))
    ids = {e['id'] for e in ELEMENTS.values()}
    for n, near in NEAR_MISS:
        if n in ELEMENTS:
            raise HarnessBroken('near-miss name %s is an element' % n)
        for i in near:
            if not i.startswith('docsection') and i not in vb:
                raise HarnessBroken('near-miss %s: id %s not in baseline' % (n, i))
    return len(ids)
