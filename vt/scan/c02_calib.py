"""Calibration of the C02 reference model against upstream's expected scanner outputs
(tests/scanner/*-expected.gir).  These files are data written by upstream, not the code
under test; they are read with the independent reader.

The C sources of the larger libraries (regress.c, utility.c, warnlib.c) are in a git
submodule that is absent from the sandbox, so whether a given site carried an annotation
cannot be read off.  Facts are therefore split into

  hard  - a disagreement cannot be produced by any valid annotation (type name of a
          non-pointer basic type, ownership of a returned basic value / void, a trailing
          GError** that is still a parameter, type name of a non-pointer basic
          type);
          every hard fact must be predicted, otherwise the table is wrong;
  soft  - a disagreement is possible only through an explicit annotation ((transfer),
          (type), (element-type), (closure), (scope), (nullable), (not nullable)); agreements and
          disagreements are counted, and for the libraries whose sources are present
          (barapp, gettype, gtkfrob, sletter, typedefs, headeronly, identfilter,
          symbolfilter) every disagreement must be explained by an annotation in the source.
"""
import glob
import os
import re

from vt.core import REPO
from vt.scan import girread
from vt.scan import c02_model as M

_cache = {}


def _split_ctype(ct):
    """'const gint** const*' -> (base 'gint', depth 3, base const?, [ptr const flags]) ; None if volatile etc."""
    toks = M.ctokens(ct)
    words = []
    ptr = []
    bq = False
    vol = False
    for t in toks:
        if t == '*':
            ptr.append(False)
        elif t == 'const':
            if ptr:
                ptr[-1] = True
            else:
                bq = True
        elif t == 'volatile':
            vol = True
        else:
            if ptr:
                return None
            words.append(t)
    return ' '.join(words), bq, ptr, vol


def _source_annotations():
    """identifier -> {'params': {name: annotation text}, 'ret': text} from the C sources that exist"""
    out = {}
    d = os.path.join(REPO, 'tests', 'scanner')
    for f in sorted(glob.glob(os.path.join(d, '*.c')) + glob.glob(os.path.join(d, '*.h'))):
        try:
            text = open(f, encoding='utf-8', errors='replace').read()
        except OSError:
            continue
        for m in re.finditer(r'/\*\*\s*\n(.*?)\*/', text, re.S):
            lines = [re.sub(r'^\s*\*\s?', '', ln) for ln in m.group(1).split('\n')]
            if not lines:
                continue
            hm = re.match(r'\s*([A-Za-z_][A-Za-z0-9_:\-]*)\s*:(.*)$', lines[0])
            if not hm:
                continue
            ent = out.setdefault(hm.group(1), {'params': {}, 'ret': '', 'ident': hm.group(2)})
            for ln in lines[1:]:
                pm = re.match(r'\s*@([A-Za-z_0-9\.]+)\s*:(.*)$', ln)
                if pm:
                    ent['params'][pm.group(1)] = pm.group(2)
                rm = re.match(r'\s*(Returns|Return value)\s*:(.*)$', ln)
                if rm:
                    ent['ret'] = rm.group(2)
    return out


CALLBACK_NAMES_FOREIGN = {'GLib.SourceFunc', 'GObject.Callback', 'GLib.Func', 'GLib.CompareDataFunc',
                          'GLib.HFunc', 'GLib.CompareFunc', 'GLib.EqualFunc', 'GLib.HashFunc'}


def calibrate():
    if 'r' in _cache:
        return _cache['r']
    files = sorted(glob.glob(os.path.join(REPO, 'tests', 'scanner', '*-expected.gir')))
    ann = _source_annotations()
    res = {
        'files': len(files),
        'type_pairs_checked': 0, 'type_pairs_predicted': 0, 'type_pairs_annotation_override': 0,
        'type_pairs_not_in_table': 0,
        'hard_checked': 0, 'soft_checked': 0, 'soft_agree': 0, 'soft_disagree': 0,
        'soft_disagree_explained_by_source_annotation': 0, 'soft_disagree_source_absent': 0,
        'transfer_in_none': [0, 0], 'transfer_out_full': [0, 0], 'transfer_out_caller_allocates_none': [0, 0],
        'transfer_return_basic_none': [0, 0], 'transfer_return_const_none': [0, 0],
        'transfer_return_string_full': [0, 0], 'nullable_gpointer': [0, 0],
        'returned_char_pp_array_of_utf8': [0, 0],
        'gstrv_signal_parameter_array_of_utf8': [0, 0], 'callback_own_user_data_closure': [0, 0],
        'closure_predicted': [0, 0], 'destroy_notified_predicted': [0, 0], 'async_scope_predicted': [0, 0],
        'throws_callables': 0, 'trailing_gerror_still_parameter': 0,
        'hard_mismatches': [], 'soft_disagreements_sample': [],
    }
    if not files:
        res['hard_mismatches'].append('no expected GIR files found')
        _cache['r'] = res
        return res

    def soft(rule, ok, where, explained):
        res['soft_checked'] += 1
        res[rule][0] += 1
        if ok:
            res['soft_agree'] += 1
            res[rule][1] += 1
        else:
            res['soft_disagree'] += 1
            if explained is True:
                res['soft_disagree_explained_by_source_annotation'] += 1
            elif explained is None:
                res['soft_disagree_source_absent'] += 1
            else:
                res['hard_mismatches'].append('%s: %s (source has no annotation)' % (rule, where))
            if len(res['soft_disagreements_sample']) < 8:
                res['soft_disagreements_sample'].append('%s: %s' % (rule, where))

    def hard(ok, what):
        res['hard_checked'] += 1
        if not ok:
            res['hard_mismatches'].append(what)

    for f in files:
        root = girread.parse(open(f, 'rb').read())
        ns = root.find('namespace')
        local_sources = os.path.basename(f).split('-')[0] in ('Bar', 'GetType', 'GtkFrob', 'Headeronly',
                                                              'Identfilter', 'SLetter', 'Symbolfilter', 'Typedefs')
        local_callbacks = set(e.get('name') for e in ns.iter() if e.tag == 'callback' and e.parent is ns)
        for e in ns.iter():
            # ---------------- (c:type, name) pairs
            if e.tag in ('type', 'array') and e.get('c:type') and e.parent is not None \
                    and e.parent.tag in ('parameter', 'return-value', 'field', 'constant', 'instance-parameter'):
                s = _split_ctype(e.get('c:type'))
                if s is None:
                    continue
                base, bq, ptr, vol = s
                try:
                    M.base_info(base)
                except KeyError:
                    res['type_pairs_not_in_table'] += 1
                    continue
                if base in M.LOCAL or base in M.UNKNOWN:
                    continue
                sp = M.Sp(base, bq, ptr)
                pos = {'return-value': 'ret', 'field': 'field', 'constant': 'const'}.get(e.parent.tag, 'param')
                exp = M.type_expect(sp, pos)
                res['type_pairs_checked'] += 1
                name = e.get('name')
                got_tag = e.tag
                kind = M.base_info(base)[1]
                retypable = (M.is_untyped_pointer(sp) or kind in ('chr', 'ptr', 'void', 'container', 'strv')
                             or (sp.depth >= 1))
                ok = True
                if exp['name'] not in (None, M.ABSENT) and name != exp['name']:
                    ok = False
                if exp['tag'] is not None and got_tag != exp['tag']:
                    ok = False
                if ok:
                    res['type_pairs_predicted'] += 1
                elif retypable:
                    # (type), (array), (element-type) can re-type pointers and strings only
                    res['type_pairs_annotation_override'] += 1
                else:
                    res['hard_mismatches'].append('%s: <%s name=%r c:type=%r> but table says %r' % (
                        os.path.basename(f), got_tag, name, e.get('c:type'), exp['name']))
                if exp['elem_name'] and got_tag == 'array':
                    inner = e.findall('type')
                    res['returned_char_pp_array_of_utf8'][0] += 1
                    if len(inner) == 1 and inner[0].get('name') in ('utf8', 'filename'):
                        res['returned_char_pp_array_of_utf8'][1] += 1
            # ---------------- GStrv-typed parameters (known by GType name: the strv test signals)
            if e.tag == 'glib:signal' and 'strv' in (e.get('name') or ''):
                for p in e.params()[1]:
                    t = p.type_el()
                    res['gstrv_signal_parameter_array_of_utf8'][0] += 1
                    inner = t.findall('type') if t is not None else []
                    ok = t is not None and t.tag == 'array' and t.get('name') is None and len(inner) == 1 \
                        and inner[0].get('name') == 'utf8'
                    res['gstrv_signal_parameter_array_of_utf8'][1] += ok
                    hard(ok, '%s: signal %s: GStrv parameter is not an array of utf8' % (os.path.basename(f), e.get('name')))
            # ---------------- a callback's own user_data parameter
            if e.tag == 'callback':
                for i, p in enumerate(e.params()[1]):
                    t = p.type_el()
                    if t is not None and t.tag == 'type' and t.get('name') == 'gpointer' and p.get('name') == 'user_data':
                        soft('callback_own_user_data_closure', p.get('closure') == str(i),
                             '%s %s(user_data)' % (os.path.basename(f), e.get('name')), None)
            # ---------------- callables
            if e.tag in ('function', 'method', 'constructor', 'callback', 'virtual-method'):
                cid = e.get('c:identifier') or e.get('c:type') or e.get('name')
                src = ann.get(cid) if local_sources else None

                def explained(pname, words):
                    if not local_sources:
                        return None
                    if src is None:
                        return False
                    text = src['ret'] if pname is None else src['params'].get(pname, '')
                    return any(w in text for w in words)
                inst, ps = e.params()
                if e.get('throws') == '1':
                    res['throws_callables'] += 1
                if ps:
                    t = ps[-1].type_el()
                    if t is not None and M.ctokens(t.get('c:type')) == ['GError', '*', '*'] \
                            and ps[-1].get('direction') is None:
                        res['trailing_gerror_still_parameter'] += 1
                        hard(False, '%s: %s keeps a trailing GError** parameter' % (os.path.basename(f), cid))
                    else:
                        hard(True, '')
                roles = []
                for p in ps:
                    t = p.type_el()
                    n = t.get('name') if t is not None else None
                    ct = t.get('c:type') if t is not None else None
                    if n == 'GLib.DestroyNotify':
                        roles.append('D')
                    elif n == 'Gio.AsyncReadyCallback':
                        roles.append('A')
                    elif n in local_callbacks or n in CALLBACK_NAMES_FOREIGN:
                        roles.append('C')
                    elif n == 'gpointer' and ct in ('gpointer', 'void*') and t.tag == 'type' \
                            and p.get('direction') is None:
                        roles.append('U')
                    else:
                        roles.append('O')
                names = [p.get('name') for p in ps]
                exp = M.arrangement_expect(roles, names)
                for i, p in enumerate(ps):
                    where = '%s %s(%s)' % (os.path.basename(f), cid, p.get('name'))
                    t = p.type_el()
                    direction = p.get('direction') or 'in'
                    ca = p.get('caller-allocates') == '1'
                    want = M.transfer_param(direction, ca)
                    rule = ('transfer_in_none' if direction == 'in' else
                            'transfer_out_caller_allocates_none' if ca else 'transfer_out_full')
                    if t is not None and t.tag != 'varargs':
                        soft(rule, p.get('transfer-ownership') == want, where, explained(p.get('name'), ['transfer']))
                    if roles[i] == 'U':
                        soft('nullable_gpointer', p.get('nullable') == '1', where,
                             explained(p.get('name'), ['not nullable']))
                    if roles[i] in 'CA':
                        ce = exp['cb'][i]
                        ex = explained(p.get('name'), ['closure', 'scope', 'destroy'])
                        if ce['closure'] not in (None, M.ABSENT):
                            soft('closure_predicted', p.get('closure') == ce['closure'], where, ex)
                        if ce['destroy'] not in (None, M.ABSENT):
                            soft('destroy_notified_predicted',
                                 p.get('destroy') == ce['destroy'] and p.get('scope') == 'notified', where, ex)
                        if ce['scope'] == 'async':
                            soft('async_scope_predicted', p.get('scope') == 'async', where, ex)
                r = e.find('return-value')
                if r is not None and r.type_el() is not None and r.type_el().get('c:type'):
                    t = r.type_el()
                    s = _split_ctype(t.get('c:type'))
                    where = '%s %s(return)' % (os.path.basename(f), cid)
                    if s is not None:
                        base, bq, ptr, vol = s
                        try:
                            kind = M.base_info(base)[1]
                        except KeyError:
                            kind = None
                        if kind is not None and base not in M.LOCAL and base not in M.UNKNOWN:
                            sp = M.Sp(base, bq, ptr)
                            want = M.transfer_return(sp)
                            got = r.get('transfer-ownership')
                            if want is not None:
                                if sp.depth == 0 and kind in ('int', 'flt', 'void') and t.tag == 'type' \
                                        and t.get('name') == M.type_expect(sp, 'ret')['name']:
                                    res['transfer_return_basic_none'][0] += 1
                                    res['transfer_return_basic_none'][1] += got == want
                                    hard(got == want, '%s: basic return has transfer %r' % (where, got))
                                elif want == 'full':
                                    if t.get('name') in ('utf8', 'filename') and t.tag == 'type':
                                        soft('transfer_return_string_full', got == want, where,
                                             explained(None, ['transfer']))
                                elif sp.depth >= 1 and sp.pointee_const():
                                    soft('transfer_return_const_none', got == want, where,
                                         explained(None, ['transfer']))
                            if M.is_untyped_pointer(sp) and t.tag == 'type' and t.get('name') == 'gpointer':
                                soft('nullable_gpointer', r.get('nullable') == '1', where,
                                     explained(None, ['not nullable']))
    # every rule needs support, and agreement must dominate
    for rule in ('transfer_in_none', 'transfer_out_full', 'transfer_out_caller_allocates_none',
                 'transfer_return_basic_none', 'transfer_return_const_none', 'transfer_return_string_full',
                 'nullable_gpointer', 'closure_predicted', 'destroy_notified_predicted', 'async_scope_predicted',
                 'returned_char_pp_array_of_utf8', 'gstrv_signal_parameter_array_of_utf8',
                 'callback_own_user_data_closure'):
        n, ok = res[rule]
        if n == 0:
            res['hard_mismatches'].append('rule %s has no instance in the expected GIRs' % rule)
        elif ok * 10 < n * 8:
            res['hard_mismatches'].append('rule %s agrees on only %d of %d instances' % (rule, ok, n))
    _cache['r'] = res
    return res
