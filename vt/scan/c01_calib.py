"""C01 - calibration of the validity table against tests/warn/*.h (read as data).

The headers document upstream's expectations: `// EXPECT:<line>: Warning: Test: <text>` names the
line of the comment block on which an invalid annotation sits.  A tiny prototype reader turns each
documented declaration into site facts (type category, pointer depth, direction, callable kind);
c01_model.validity() must then
   * answer I or M (warning MUST) or U for every annotation that has an EXPECT line naming it, and
   * answer V or U ... never I/M ... for an annotation without one.
Nothing of giscanner is executed here.
"""
import glob
import os
import re

from vt.core import REPO
from vt.scan import c01_model as MD

BLOCK_RE = re.compile(r'/\*\*(.*?)\*/', re.S)
ANN_RE = re.compile(r'^\s*((?:\([^()]*\)\s*)+):')

BASIC = {'int', 'char', 'gint', 'guint', 'gchar', 'GType', 'gboolean', 'double', 'gsize', 'TestChar', 'long'}
CATS = {'gpointer': 'any', 'GObject': 'object', 'GDateTime': 'rec', 'GList': 'list', 'GSList': 'list',
        'GHashTable': 'hash', 'GByteArray': 'bytearray', 'GPtrArray': 'ptrarray', 'GArray': 'garray',
        'GCallback': 'callback', 'GDestroyNotify': 'dnotify', 'GVariant': 'variant'}


def classify(ctype, aliases):
    t = ctype.replace('const', ' ').strip()
    depth = t.count('*')
    base = t.replace('*', ' ').split()
    base = base[-1] if base else ''
    while base in aliases:
        base = aliases[base]
    if base in ('char', 'gchar') and depth >= 1:
        return 'str', depth
    if base in BASIC:
        return 'int', depth
    if base in CATS:
        return CATS[base], depth
    return None, depth


def split_anns(s):
    """'(a b) (c)' -> [('a', ['b']), ('c', [])]"""
    out = []
    for g in re.findall(r'\(([^()]*)\)', s):
        w = g.split()
        if w:
            out.append((w[0], w[1:], g.strip()))
    return out


def parse_header(path):
    text = open(path, encoding='utf-8').read()
    lines = text.split('\n')
    expects = []
    for l in lines:
        m = re.match(r'// EXPECT:(\d+): (\w+): Test: (.*)$', l)
        if m:
            expects.append((int(m.group(1)), m.group(3)))
    aliases = {}
    for m in re.finditer(r'^typedef\s+(\w+)\s+(\w+);', text, re.M):
        aliases[m.group(2)] = m.group(1)
    decls = []
    for m in BLOCK_RE.finditer(text):
        start_line = text.count('\n', 0, m.start()) + 1
        body = m.group(1).split('\n')
        name = None
        parts = []            # (site name | 'ret', line, annotation string)
        for i, l in enumerate(body):
            ln = start_line + i
            l2 = re.sub(r'^\s*\*\s?', '', l)
            if name is None:
                mm = re.match(r'([\w:]+):', l2)
                if mm:
                    name = mm.group(1)
                continue
            mm = re.match(r'@(\w+):(.*)$', l2)
            if mm:
                a = ANN_RE.match(mm.group(2))
                parts.append((mm.group(1), ln, a.group(1) if a else ''))
                continue
            mm = re.match(r'(?:Returns|Return value):(.*)$', l2)
            if mm:
                a = ANN_RE.match(mm.group(1))
                parts.append(('ret', ln, a.group(1) if a else ''))
        rest = text[m.end():]
        nxt = rest.find('/**')
        seg = rest[:nxt if nxt >= 0 else len(rest)]
        seg = '\n'.join(x for x in seg.split('\n') if not x.startswith('//') and not x.startswith('#'))
        d = re.search(r'typedef\s+([\w\s\*]+?)\(\s*\*\s*(\w+)\s*\)\s*\(([^;]*)\)\s*;', seg, re.S)
        kind = 'callback'
        if not d:
            d = re.search(r'([\w\s\*]+?)\b(\w+)\s*\(([^;{]*)\)\s*;', seg, re.S)
            kind = 'function'
        if not d or name is None:
            continue
        ret = ' '.join(d.group(1).split())
        params = []
        ptxt = ' '.join(d.group(3).split())
        if ptxt and ptxt != 'void':
            for p in ptxt.split(','):
                p = p.strip()
                mm = re.match(r'(.*?)(\w+)$', p)
                if mm:
                    params.append((mm.group(1).strip(), mm.group(2)))
        decls.append({'name': name, 'kind': kind, 'ret': ret, 'params': params, 'parts': parts})
    return decls, expects, aliases


def calibrate():
    files = sorted(glob.glob(os.path.join(REPO, 'tests', 'warn', '*.h')))
    checked = 0
    agreed_warn = 0
    agreed_silent = 0
    unspec = 0
    skipped = 0
    disagreements = []
    for path in files:
        decls, expects, aliases = parse_header(path)
        fn = os.path.basename(path)
        for d in decls:
            cats = {}
            for t, n in d['params']:
                c, dep = classify(t, aliases)
                cats[n] = c
            for site, line, annstr in d['parts']:
                anns = split_anns(annstr)
                if not anns:
                    continue
                if site == 'ret':
                    ctype = d['ret']
                    part = 'ret'
                else:
                    ctype = dict((n, t) for t, n in d['params']).get(site)
                    part = 'param'
                if ctype is None:
                    skipped += len(anns)
                    continue
                cat, depth = classify(ctype, aliases)
                if cat is None or (ctype.strip() == 'void'):
                    skipped += len(anns)
                    continue
                F = MD.Facts(d['kind'], part, cat, depth, [n for _, n in d['params']], cats)
                names = [a[0] for a in anns]
                eff = 'in' if part == 'param' else None
                for x in ('in', 'out', 'inout'):
                    if x in names and part == 'param':
                        eff = x
                byname = {a[0]: a[1] for a in anns}
                for n, o, raw in anns:
                    v = MD.validity(n, o, F, eff, {k: vv for k, vv in byname.items() if k != n})
                    exp_here = [t for (l, t) in expects if l == line and MD.names_annotation(raw, t)]
                    checked += 1
                    if v == 'U':
                        unspec += 1
                    elif v in ('I', 'M'):
                        if exp_here:
                            agreed_warn += 1
                        else:
                            disagreements.append('%s:%d (%s) on %s %s: model says warning MUST, upstream expects none'
                                                 % (fn, line, raw, part, ctype))
                    else:
                        bad = [t for t in exp_here if ('invalid "%s" annotation' % n) in t or 'Unknown container' in t]
                        if bad:
                            disagreements.append('%s:%d (%s) on %s %s: model says valid, upstream expects: %s'
                                                 % (fn, line, raw, part, ctype, bad[0]))
                        else:
                            agreed_silent += 1
    return {'files': len(files), 'annotations_checked': checked, 'agreed_warning': agreed_warn,
            'agreed_valid': agreed_silent, 'unspecified': unspec, 'skipped_unparsed': skipped,
            'disagreements': disagreements}


if __name__ == '__main__':
    import json
    print(json.dumps(calibrate(), indent=1))
