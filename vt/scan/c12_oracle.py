"""C12 helper: scenario -> (C declarations, runtime) and the reference model of the
property statement.

A scenario is a JSON-able dict
    {'includes': [...], 'decls': [...], 'types': [...], 'symbols': {...}, 'quarks': {...},
     'patch': [[old, new], ...]   (optional textual edits of the printed dump - only used for
                                   out-of-format cases, whose touched facts are UNSPECIFIED),
     'unspec': [key prefixes]     (facts the generator declares outside the quantifier)}
`decls` is a list of
    ['typedef', Name, 'struct _Name']          ['struct'|'union', tag, [members]]
    ['func', name, ret, [[type, name], ...]]   ['enum', Name, [[ident, value], ...], bitfield?]
    ['callback', Name, ret, [[type, name], ...]]
with members  ['f', name, type]  |  ['cb', name, ret, [[type, name], ...]].

The oracle is written from the property statement (properties.jsonl C12), gdump.c (meaning
of each dump attribute) and docs/gir-1.2.rnc (where each fact lives in the GIR).  It never
looks at giscanner.  Every expected fact is (key, level, value) with level 'M' (MUST) or
'U' (UNSPECIFIED: executed and counted, never flagged).
"""
import os
import xml.etree.ElementTree as ET

from vt.core import ROOT
from vt.scan import fake, girread
from vt.scan.c12_gdump import (Runtime, normalize, g_strescape, default_text,
                               G_SIGNAL_RUN_FIRST, G_SIGNAL_RUN_LAST, G_SIGNAL_RUN_CLEANUP,
                               G_SIGNAL_NO_RECURSE, G_SIGNAL_DETAILED, G_SIGNAL_ACTION,
                               G_SIGNAL_NO_HOOKS, G_SIGNAL_MUST_COLLECT)

PREFIX = 'Foo'          # identifier prefix of the scanned namespace
SYMPREFIX = 'foo_'


# ------------------------------------------------------------------ decls ---
def _member(m):
    if m[0] == 'f':
        return fake.Field(m[1], m[2])
    if m[0] == 'cb':
        return fake.FieldCb(m[1], m[2], [tuple(p) for p in m[3]])
    raise ValueError(m)


def build_decls(spec):
    out = []
    for d in spec:
        k = d[0]
        if k == 'typedef':
            out.append(fake.Typedef(d[1], d[2]))
        elif k in ('struct', 'union'):
            out.append(fake.Struct(d[1], [_member(m) for m in d[2]], union=(k == 'union')))
        elif k == 'func':
            out.append(fake.Func(d[1], d[2], [tuple(p) for p in d[3]]))
        elif k == 'enum':
            out.append(fake.Enum(d[1], [tuple(m) for m in d[2]], bitfield=bool(d[3]) if len(d) > 3 else False))
        elif k == 'callback':
            out.append(fake.Callback(d[1], d[2], [tuple(p) for p in d[3]]))
        else:
            raise ValueError(d)
    return fake.number(out)


# ------------------------------------------------- dependency namespaces ---
_DEPCACHE = {}


def _dep(name):
    if name not in _DEPCACHE:
        root = ET.parse(os.path.join(ROOT, 'deps', name + '.gir')).getroot()
        incs = ['%s-%s' % (i.get('name'), i.get('version')) for i in root.findall('{%s}include' % girread.CORE)]
        ns = root.find('{%s}namespace' % girread.CORE)
        names = {}
        for e in ns:
            g = e.get('{%s}type-name' % girread.GLIB)
            if g:
                names[g] = '%s.%s' % (ns.get('name'), e.get('name'))
        _DEPCACHE[name] = (incs, names)
    return _DEPCACHE[name]


def foreign_known(includes):
    """{GType name: 'Namespace.Name'} over the transitive closure of the includes."""
    out = {}
    todo = list(includes)
    seen = set()
    while todo:
        n = todo.pop()
        if n in seen:
            continue
        seen.add(n)
        incs, names = _dep(n)
        out.update(names)
        todo.extend(incs)
    return out


# ----------------------------------------------------------- type mapping ---
BASIC = {'gchar': 'gchar', 'guchar': 'guint8', 'gboolean': 'gboolean', 'gint': 'gint', 'guint': 'guint',
         'glong': 'glong', 'gulong': 'gulong', 'gint64': 'gint64', 'guint64': 'guint64',
         'gfloat': 'gfloat', 'gdouble': 'gdouble', 'gchararray': 'utf8', 'gpointer': 'gpointer',
         'GType': 'GType', 'void': 'none'}
ANY = '*'
CONTAINER = {
    'GStrv': ('array', None, [('type', 'utf8', [])]),
    'GByteArray': ('array', 'GLib.ByteArray', [('type', 'guint8', [])]),
    'GArray': ('array', 'GLib.Array', ANY),
    'GPtrArray': ('array', 'GLib.PtrArray', ANY),
    'GHashTable': ('type', 'GLib.HashTable', ANY),
}


def type_of(el):
    """Observed <type>/<array> element -> nested tuple."""
    if el is None:
        return None
    kids = [type_of(k) for k in el.kids if k.tag in ('type', 'array')]
    return (el.tag, el.get('name'), kids)


def type_matches(exp, obs):
    if exp == ANY:
        return True
    if obs is None:
        return False
    if exp[0] != obs[0] or exp[1] != obs[1]:
        return False
    if exp[2] == ANY:
        return True
    return len(exp[2]) == len(obs[2]) and all(type_matches(a, b) for a, b in zip(exp[2], obs[2]))


class World(object):
    """What the scenario says exists: the model-side view used by every rule."""

    def __init__(self, scn):
        self.scn = scn
        self.types = {t['name']: t for t in normalize(scn['types'])}
        self.rt = Runtime(normalize(scn['types']), scn['symbols'], scn.get('quarks', {}))
        self.decls = scn['decls']
        self.foreign = foreign_known(scn['includes'])
        # C-level facts of the scanned headers
        self.structs = {}      # tag -> (kind, members)
        self.typedefs = {}     # Name -> target
        self.funcs = []        # (name, ret, params)
        self.enums = {}        # Name -> (members, bitfield)
        self.callbacks = {}
        for d in self.decls:
            if d[0] in ('struct', 'union'):
                self.structs[d[1]] = (d[0], d[2])
            elif d[0] == 'typedef':
                self.typedefs[d[1]] = d[2]
            elif d[0] == 'func':
                self.funcs.append((d[1], d[2], d[3]))
            elif d[0] == 'enum':
                self.enums[d[1]] = (d[2], bool(d[3]) if len(d) > 3 else False)
            elif d[0] == 'callback':
                self.callbacks[d[1]] = (d[2], d[3])
        # functions the scanner has to hand to the dumper (statement: get-type / error-quark functions)
        self.get_type_funcs = [f for f, ret, ps in self.funcs
                               if not f.startswith('_') and (f.endswith('_get_type') or f.endswith('_get_gtype'))
                               and not ps and ret == 'GType']
        self.quark_funcs = [f for f, ret, ps in self.funcs
                            if not f.startswith('_') and f.endswith('_error_quark') and ret == 'GQuark']
        # reported types: name -> get-type symbol (first function returning it, in header order)
        self.reported = {}
        for f in self.get_type_funcs:
            n = scn['symbols'].get(f)
            if n is not None and n not in self.reported:
                self.reported[n] = f

    # -- C side --
    def compound(self, cname):
        """('struct'|'union'|None, members or None) for a C type name visible as typedef."""
        tgt = self.typedefs.get(cname)
        if not tgt:
            return None, None
        kind, tag = tgt.split()
        if tag in self.structs:
            return self.structs[tag]
        return kind, None          # opaque typedef

    def kind(self, name):
        t = self.types.get(name) or self.rt.types.get(name)
        return self.rt.types[self.rt.fundamental(name)]['k'] if t else None

    def local_name(self, gname):
        assert gname.startswith(PREFIX), gname
        return gname[len(PREFIX):]

    # -- which GType names denote something the GIR can refer to --
    def known(self, gname):
        """GIR name ('Obj' / 'GObject.Object') of a GType name, or None when nothing known
        carries it (hidden type)."""
        if gname in self.reported and gname.startswith(PREFIX):
            k = self.kind(gname)
            if k in ('object', 'interface', 'enum', 'flags', 'other'):
                return self.local_name(gname)
            if k == 'boxed':
                ck, _ = self.compound(gname)
                if ck or not self.other_node_named(gname):
                    return self.local_name(gname)
                return None
            if k == 'pointer':
                ck, _ = self.compound(gname)
                return self.local_name(gname) if ck else None
        return self.foreign.get(gname)

    def other_node_named(self, cname):
        return cname in self.enums or cname in self.callbacks

    def tyrep(self, gname):
        """Expected GIR type of a reported GType name; None = cannot be expressed (hidden) -> UNSPECIFIED."""
        if gname in BASIC:
            return ('type', BASIC[gname], [])
        if gname in CONTAINER:
            return CONTAINER[gname]
        k = self.known(gname)
        if k is None:
            return None
        return ('type', k, [])


def ctype_rep(world, ctype):
    """GIR type name of the few C spellings used for vfunc parameters/returns."""
    c = ctype.replace('const ', '').strip()
    if c == 'void':
        return 'none'
    if c == 'int':
        return 'gint'
    if c.endswith('*'):
        base = c[:-1].strip()
        if base.startswith(PREFIX):
            return base[len(PREFIX):]
        return world.foreign.get(base)
    return None


# ---------------------------------------------------------------- oracle ---
def expected(scn):
    """-> (facts, world);  facts: list of (key, level, value)."""
    w = World(scn)
    F = []
    unspec = tuple(scn.get('unspec', ()))

    def add(key, value, level='M'):
        if level == 'M' and any(u == '*' or key.startswith(u) for u in unspec):
            level = 'U'
        F.append((key, level, value))

    classes, ifaces = [], []
    gone = []
    for gname, sym in w.reported.items():
        k = w.kind(gname)
        t = w.types[gname]
        if not gname.startswith(PREFIX):
            add('error', 'fatal', 'U')       # name without the namespace prefix: cannot be named in this GIR
            continue
        n = w.local_name(gname)
        if k in ('object', 'other'):
            el = 'class:%s' % n
            classes.append(n)
            add(el, True)
            add(el + '@glib:type-name', gname)
            add(el + '@glib:get-type', sym)
            gone.append(sym)
            # nearest known ancestor of the reported chain
            parent = None
            for a in w.rt.ancestors(gname):
                if a in BASIC:
                    break          # chain below a non-classed fundamental: nothing nameable as a parent
                pk = w.known(a)
                if pk is not None and w.kind(a) in ('object', 'other'):
                    parent = pk
                    break
            lvl = 'M'
            if any(a in BASIC for a in w.rt.ancestors(gname)):
                lvl = 'U'
            add(el + '@parent', parent, lvl)
            add(el + '@abstract', '1' if t.get('abstract') else None)
            add(el + '@final', '1' if t.get('final') else None)
            add(el + '@glib:fundamental', '1' if k == 'other' else None)
            impl = sorted(x for x in (w.known(i) for i in w.rt.interfaces(gname)) if x is not None)
            add(el + '/implements', impl)
            ck, members = w.compound(gname)
            add(el + '@c:type', gname, 'M' if ck else 'U')
            if k == 'object':
                _props_signals(w, add, el, t)
            else:
                add(el + '/props', [])
                add(el + '/signals', [])
            _type_struct(w, add, el, n, gname, ['Class'])
        elif k == 'interface':
            el = 'interface:%s' % n
            ifaces.append(n)
            add(el, True)
            add(el + '@glib:type-name', gname)
            add(el + '@glib:get-type', sym)
            gone.append(sym)
            pre = sorted(x for x in (w.known(i) for i in t.get('prereqs', ()) if i != 'GObject') if x is not None)
            add(el + '/prerequisites', pre)
            ck, members = w.compound(gname)
            add(el + '@c:type', gname, 'M' if ck else 'U')
            _props_signals(w, add, el, t)
            _type_struct(w, add, el, n, gname, ['Iface', 'Interface'])
        elif k in ('boxed', 'pointer'):
            ck, members = w.compound(gname)
            if ck:
                el = ('record:%s' if ck == 'struct' else 'union:%s') % n
                add(el, True)
                add(el + '@glib:type-name', gname)
                add(el + '@glib:get-type', sym)
                add('glib:boxed:%s' % n, None)
                gone.append(sym)
            elif k == 'boxed' and not w.other_node_named(gname):
                el = 'glib:boxed:%s' % n
                add(el, True)
                add(el + '@glib:type-name', gname)
                add(el + '@glib:get-type', sym)
                gone.append(sym)
            else:
                # boxed whose name is taken by something that is neither struct nor union, or a
                # pointer type without structure: the statement only says where a boxed type
                # attaches when the structure exists
                add('glib:boxed:%s' % n, None, 'U')
                add('function:%s' % sym, False, 'U')
        elif k in ('enum', 'flags'):
            tag = 'enumeration' if k == 'enum' else 'bitfield'
            el = '%s:%s' % (tag, n)
            add(el, True)
            add(('bitfield:%s' if k == 'enum' else 'enumeration:%s') % n, None)
            add(el + '@glib:type-name', gname)
            add(el + '@glib:get-type', sym)
            add(el + '@c:type', gname)
            gone.append(sym)
            add(el + '/nicks', [[v[1], v[0]] for v in t.get('values', ())])
    add('classes', sorted(classes))
    add('interfaces', sorted(ifaces))
    # get-type functions disappear, every other declared function stays
    for f, ret, ps in w.funcs:
        if f.startswith('_'):
            continue
        if f in gone:
            add('function:%s' % f, False)
        elif f in w.get_type_funcs:
            pass                                    # decided above (UNSPECIFIED cases)
        elif f in w.quark_funcs:
            add('function:%s' % f, True, 'U')       # the statement is silent about the quark function itself
        else:
            add('function:%s' % f, True)
    # error domains
    domain_of = {}
    for f in w.quark_funcs:
        dom = scn.get('quarks', {}).get(f)
        stem = f[len(SYMPREFIX):-len('_quark')] if f.startswith(SYMPREFIX) else None
        if stem is None:
            continue
        domain_of[stem] = dom
    enum_nodes = {}
    for cname, (members, bitfield) in w.enums.items():
        if cname.startswith(PREFIX):
            enum_nodes[cname] = 'bitfield' if bitfield else 'enumeration'
    for gname in w.reported:
        if w.kind(gname) in ('enum', 'flags') and gname.startswith(PREFIX):
            enum_nodes[gname] = 'enumeration' if w.kind(gname) == 'enum' else 'bitfield'
    for cname, tag in sorted(enum_nodes.items()):
        name = cname[len(PREFIX):]
        el = '%s:%s' % (tag, name)
        # GLib naming convention: the quark function of FooDBusError is foo_dbus_error_quark, i.e.
        # <ns>_<type name in lower snake case>_quark.  strong = the function stem is exactly the
        # conventional snake form; weak = same letters but the words are cut elsewhere
        # (foo_d_bus_error_quark): the convention does not say -> UNSPECIFIED
        strong = [d for s, d in sorted(domain_of.items()) if s == snake(name)]
        weak = [d for s, d in sorted(domain_of.items()) if s != snake(name) and s.replace('_', '') == name.lower()]
        if tag == 'enumeration':
            if len(strong) == 1 and not weak:
                add(el + '@glib:error-domain', strong[0])
            elif strong or weak:
                add(el + '@glib:error-domain', (strong + weak)[0], 'U')
            else:
                add(el + '@glib:error-domain', None)
        else:
            # a flags type named like the quark function: not an "enumeration"; nothing fixed
            add(el + '@glib:error-domain', None, 'U' if (strong or weak) else 'M')
    return F, w


def snake(name):
    """Lower snake case of an un-prefixed CamelCase type name, GLib convention (GDBusError ->
    dbus_error, GIOError -> io_error, GtkIMContext -> im_context, X11Error -> x11_error): a capital
    starts a word when it follows a non-capital, or when it follows at least two capitals and is
    itself followed by a lower-case letter (the last capital of an acronym run belongs to the next word)."""
    out = []
    for i, ch in enumerate(name):
        if ch.isupper() and i:
            prev = name[i - 1]
            if not prev.isupper():
                out.append('_')
            elif i >= 2 and name[i - 2].isupper() and i + 1 < len(name) and name[i + 1].islower():
                out.append('_')
        out.append(ch.lower())
    return ''.join(out)


def uscore(camel):
    """MyError -> my_error (GObject naming convention: a new word at each capital)."""
    out = []
    for i, ch in enumerate(camel):
        if ch.isupper() and i:
            out.append('_')
        out.append(ch.lower())
    return ''.join(out)


def _props_signals(w, add, el, t):
    names = []
    for p in t.get('props', ()):
        names.append(p['name'])
        pe = '%s/prop:%s' % (el, p['name'])
        f = p['flags']
        add(pe + '@readable', bool(f & 1))
        add(pe + '@writable', bool(f & 2))
        add(pe + '@construct', bool(f & 4))
        add(pe + '@construct-only', bool(f & 8))
        ty = w.tyrep(p['type'])
        add(pe + '@type', ty if ty is not None else '?', 'M' if ty is not None else 'U')
        dv = default_text(p.get('default'))
        # gir-1.2.rnc: "if missing, the default value is zero for integer types, and null for pointer types":
        # an empty text reported for a non-string type (flags without a set bit) says the same as no attribute
        add(pe + '@default-value', dv, 'U' if (dv == '' and p['type'] != 'gchararray') else 'M')
    add(el + '/props', sorted(names))
    names = []
    for s in t.get('signals', ()):
        names.append(s['name'])
        se = '%s/signal:%s' % (el, s['name'])
        f = s['flags']
        if f & G_SIGNAL_RUN_FIRST:
            add(se + '@when', 'first')
        elif f & G_SIGNAL_RUN_LAST:
            add(se + '@when', 'last')
        elif f & G_SIGNAL_RUN_CLEANUP:
            add(se + '@when', 'cleanup')
        elif f & G_SIGNAL_MUST_COLLECT:
            # gdump.c prints when="must-collect", which is not a run phase and not a value the
            # GIR schema allows for `when`
            add(se + '@when', 'must-collect', 'U')
        else:
            add(se + '@when', None)
        add(se + '@no-recurse', bool(f & G_SIGNAL_NO_RECURSE))
        add(se + '@detailed', bool(f & G_SIGNAL_DETAILED))
        add(se + '@action', bool(f & G_SIGNAL_ACTION))
        add(se + '@no-hooks', bool(f & G_SIGNAL_NO_HOOKS))
        ty = w.tyrep(s['return'])
        add(se + '@return', ty if ty is not None else '?', 'M' if ty is not None else 'U')
        add(se + '@nparams', len(s.get('params', ())))
        for i, p in enumerate(s.get('params', ())):
            ty = w.tyrep(p)
            add('%s@param%d' % (se, i), ty if ty is not None else '?', 'M' if ty is not None else 'U')
    add(el + '/signals', sorted(names))


def _type_struct(w, add, el, n, gname, suffixes):
    """glib:type-struct <-> glib:is-gtype-struct-for, and the virtual methods."""
    found = None
    for suf in suffixes:
        ck, members = w.compound(gname + suf)
        if ck == 'struct':
            found = (suf, members)
            break
    present = [s for s in suffixes if w.compound(gname + s)[0] == 'struct']
    lvl = 'M' if len(present) <= 1 else 'U'       # both FooIfcIface and FooIfcInterface: which one is not fixed
    if not found:
        add(el + '@glib:type-struct', None)
        add(el + '/vfuncs', [])
        return
    suf, members = found
    add(el + '@glib:type-struct', n + suf, lvl)
    add('record:%s%s@glib:is-gtype-struct-for' % (n, suf), n, lvl)
    vf = []
    for m in members or ():
        if m[0] == 'cb':
            ret, params = m[2], m[3]
        elif m[0] == 'f' and m[2] in w.callbacks:
            ret, params = w.callbacks[m[2]]
        else:
            continue
        if not params:
            continue
        first = params[0][0].replace('const ', '').replace(' ', '')
        if first != gname + '*':
            continue
        vf.append([m[1], True, ctype_rep(w, ret), [ctype_rep(w, p[0]) for p in params[1:]]])
    add(el + '/vfuncs', sorted(vf), lvl)


# ------------------------------------------------------------ observation ---
CLASS_ATTRS = ('parent', 'abstract', 'final', 'glib:type-name', 'glib:get-type', 'glib:type-struct',
               'glib:fundamental', 'c:type')


def _tname(el):
    t = el.type_el()
    return type_of(t)


def observe(xml_bytes):
    """GIR bytes -> {key: value} in the oracle's key scheme (independent ElementTree reader)."""
    root = girread.parse(xml_bytes)
    ns = girread.namespace_of(root)
    O = {}
    funcs = set()
    classes, ifaces = [], []
    for e in ns.iter():
        if e.tag in ('function', 'method', 'constructor') and e.get('c:identifier'):
            funcs.add(e.get('c:identifier'))
    O['#functions'] = funcs
    for e in ns.kids:
        name = e.get('name') if e.tag != 'glib:boxed' else e.get('glib:name')
        el = '%s:%s' % (e.tag, name)
        if e.tag in ('class', 'interface'):
            (classes if e.tag == 'class' else ifaces).append(name)
            O[el] = True
            for a in CLASS_ATTRS:
                O['%s@%s' % (el, a)] = e.get(a)
            O[el + '/implements'] = sorted(k.get('name') for k in e.findall('implements'))
            O[el + '/prerequisites'] = sorted(k.get('name') for k in e.findall('prerequisite'))
            props = []
            for p in e.findall('property'):
                props.append(p.get('name'))
                pe = '%s/prop:%s' % (el, p.get('name'))
                O[pe + '@readable'] = p.get('readable', '1') == '1'
                O[pe + '@writable'] = p.get('writable', '0') == '1'
                O[pe + '@construct'] = p.get('construct', '0') == '1'
                O[pe + '@construct-only'] = p.get('construct-only', '0') == '1'
                O[pe + '@default-value'] = p.get('default-value')
                O[pe + '@type'] = _tname(p)
            O[el + '/props'] = sorted(props)
            sigs = []
            for s in e.findall('glib:signal'):
                sigs.append(s.get('name'))
                se = '%s/signal:%s' % (el, s.get('name'))
                O[se + '@when'] = s.get('when')
                for a in ('no-recurse', 'detailed', 'action', 'no-hooks'):
                    O['%s@%s' % (se, a)] = s.get(a, '0') == '1'
                rv = s.find('return-value')
                O[se + '@return'] = _tname(rv) if rv is not None else None
                inst, ps = s.params()
                O[se + '@nparams'] = len(ps)
                for i, p in enumerate(ps):
                    O['%s@param%d' % (se, i)] = _tname(p)
            O[el + '/signals'] = sorted(sigs)
            vf = []
            for v in e.findall('virtual-method'):
                inst, ps = v.params()
                rv = v.find('return-value')
                rt = _tname(rv) if rv is not None else None
                vf.append([v.get('name'), inst is not None, rt[1] if rt else None,
                           [(_tname(p) or (None, None))[1] for p in ps]])
            O[el + '/vfuncs'] = sorted(vf, key=repr)
        elif e.tag in ('record', 'union', 'glib:boxed'):
            O[el] = True
            for a in ('glib:type-name', 'glib:get-type', 'glib:is-gtype-struct-for', 'c:type'):
                O['%s@%s' % (el, a)] = e.get(a)
        elif e.tag in ('enumeration', 'bitfield'):
            O[el] = True
            for a in ('glib:type-name', 'glib:get-type', 'glib:error-domain', 'c:type'):
                O['%s@%s' % (el, a)] = e.get(a)
            O[el + '/nicks'] = [[m.get('glib:nick'), m.get('glib:name')] for m in e.findall('member')]
    O['classes'] = sorted(classes)
    O['interfaces'] = sorted(ifaces)
    return O


def lookup(O, key):
    if key.startswith('function:'):
        return key[len('function:'):] in O['#functions']
    return O.get(key)


def agrees(key, exp, obs):
    if key.endswith('@type') or key.endswith('@return') or '@param' in key:
        if exp == '?':
            return True
        return type_matches(exp, obs)
    if key.endswith('/vfuncs'):
        return sorted(exp, key=repr) == sorted(obs or [], key=repr)
    return exp == obs


def compare(facts, O):
    """-> (violations [(key, expected, observed)], n_must, n_unspec)"""
    bad = []
    nm = nu = 0
    for key, level, exp in facts:
        obs = lookup(O, key)
        if level == 'U':
            nu += 1
            continue
        nm += 1
        if not agrees(key, exp, obs):
            bad.append((key, exp, obs))
    return bad, nm, nu
