"""C01 - alphabet and case construction.

A *case* is a plain dict (JSON-able, sufficient for replay):

    {'callable': function|method|callback|vfunc|vfunc_inv|signal,
     'layout':   0|1         (site parameter first / site parameter last); 2|3 = same with `guint *n`
     'site':     'p' | 'ret' | 'self',
     'kind':     <type kind id>,
     'anns':     ['transfer full', 'array length=n', ...]}   # text between the parentheses

Every case is one small namespace `Foo` holding fixed supporting declarations (a record,
an enumeration, a callback typedef, a GObject class with class structure, an unrelated
function used as frame witness) plus ONE callable under test.  The annotated run and the
baseline run use the same declarations and the same comment block; the baseline block has
the same parameter descriptions but no annotation, so the only difference between the two
inputs is the annotation text itself.
"""
from vt.scan import fake, run
from vt.scan.fake import Typedef, Struct, Field, FieldCb, Enum, Callback, Func, number

INCLUDES = ['GLib-2.0', 'GObject-2.0', 'Gio-2.0']

# ------------------------------------------------------------------ type kinds ---
# id -> (C spelling, category, pointer depth of the C spelling, GType name usable for a
#        signal parameter or None)
KINDS = {
    'int':        ('int', 'int', 0, 'gint'),
    'intp':       ('int*', 'int', 1, None),
    'str':        ('char*', 'str', 1, None),
    'cstr':       ('const char*', 'str', 1, 'gchararray'),
    'any':        ('gpointer', 'any', 1, 'gpointer'),
    'anyp':       ('gpointer*', 'any', 1, None),
    'rec':        ('FooRec*', 'rec', 1, None),
    'recpp':      ('FooRec**', 'rec', 2, None),
    'enum':       ('FooEnum', 'enum', 0, None),
    'list':       ('GList*', 'list', 1, None),
    'hash':       ('GHashTable*', 'hash', 1, 'GHashTable'),
    'garray':     ('GArray*', 'garray', 1, None),
    'ptrarray':   ('GPtrArray*', 'ptrarray', 1, 'GPtrArray'),
    'bytearray':  ('GByteArray*', 'bytearray', 1, None),
    'strv':       ('char**', 'str', 2, 'GStrv'),
    'cb':         ('FooCb', 'callback', 0, None),
    'dnotify':    ('GDestroyNotify', 'dnotify', 0, None),
    'obj':        ('FooObj*', 'object', 1, 'FooObj'),
    'variant':    ('GVariant*', 'variant', 1, 'GVariant'),
    'unres':      ('FooUnk*', 'unresolved', 1, None),
    # the same values reached through local typedef aliases (typedef FooRec FooRecAlias; typedef FooRecAlias
    # FooRecAlias2; typedef FooCb FooCbAlias; typedef FooEnum FooEnumAlias): same MUST rules as the direct spelling
    'recal':      ('FooRecAlias*', 'rec', 1, None),
    'recal2':     ('FooRecAlias2*', 'rec', 1, None),
    'recalpp':    ('FooRecAlias**', 'rec', 2, None),
    'cbal':       ('FooCbAlias', 'callback', 0, None),
    'enumal':     ('FooEnumAlias', 'enum', 0, None),
    # pointer-to-basic whose OUTERMOST pointer is qualified: same validity as the unqualified pointer
    # (parameter sites only)
    'intpc':      ('gint* const', 'int', 1, None),
    'u8pc':       ('guint8* const', 'int', 1, None),
    'dblpv':      ('gdouble* volatile', 'int', 1, None),
    'cintpc':     ('const gint* const', 'int', 1, None),
    # a boxed record (only as the return value of its constructor)
    'box':        ('FooBox*', 'boxed', 1, None),
}
QUALIFIED_PTR = ('intpc', 'u8pc', 'dblpv', 'cintpc')
# alias kind (or pointer-to variant) -> kind of the direct spelling (violation keys fold an alias kind into its base kind when both fail)
ALIAS_OF = {'intpc': 'intp', 'u8pc': 'intp', 'dblpv': 'intp', 'cintpc': 'intp', 'anyp': 'any', 'recal': 'rec', 'recal2': 'rec', 'recalpp': 'recpp', 'cbal': 'cb', 'enumal': 'enum'}
KIND_ORDER = ['int', 'intp', 'str', 'cstr', 'any', 'anyp', 'rec', 'recpp', 'enum', 'list', 'hash', 'garray',
              'ptrarray', 'bytearray', 'strv', 'cb', 'dnotify', 'obj', 'variant', 'unres',
              'recal', 'recal2', 'recalpp', 'cbal', 'enumal', 'intpc', 'u8pc', 'dblpv', 'cintpc', 'box']
CONTAINER_CATS = ('list', 'hash', 'garray', 'ptrarray', 'bytearray')

CALLABLES = ['function', 'method', 'callback', 'vfunc', 'vfunc_inv', 'signal', 'ctor']

# neighbour parameters present in every callable: (C type, name)
#   n    - an integer, the length candidate
#   ctx  - a gpointer whose name does not end in "data" (no closure auto-detection)
#   user_data - a gpointer that the documented auto-detection pairs with a preceding callback
#   dn   - a GDestroyNotify
NEIGH = [('guint', 'n'), ('gpointer', 'ctx'), ('gpointer', 'user_data'), ('GDestroyNotify', 'dn')]
NEIGH_GTYPES = ['guint', 'gpointer', 'gpointer', 'gpointer']


# ------------------------------------------------------------ annotation menu ---
TRANSFER = ['transfer none', 'transfer container', 'transfer full', 'transfer floating']
DIRECTION = ['in', 'out', 'out caller-allocates', 'out callee-allocates', 'inout']
NULLFAM = ['nullable', 'optional', 'allow-none', 'not nullable', 'not optional']
ARRAY = ['array', 'array length=n', 'array fixed-size=3', 'array zero-terminated=0',
         'array zero-terminated=1', 'array zero-terminated', 'array length=n fixed-size=3',
         'array length=n zero-terminated=1', 'array fixed-size=3 zero-terminated=1',
         # value-less option spelling (the valid form used by tests/warn/invalid-array.h): means true
         'array zero-terminated length=n', 'array fixed-size=3 zero-terminated',
         'array length=nosuch']
ELEMTYPE = ['element-type utf8', 'element-type gint', 'element-type FooRec', 'element-type guint8',
            'element-type utf8 gint', 'element-type GObject.Object']
TYPE = ['type gint', 'type utf8', 'type FooRec', 'type GObject.Object', 'type GLib.List(utf8)',
        'type FooNoSuch']
SCOPE = ['scope call', 'scope async', 'scope notified', 'scope forever']
CLOSURE = ['closure ctx', 'closure', 'closure n']
DESTROY = ['destroy dn', 'destroy n']
OTHER = ['skip', 'attributes my.key=val', 'attributes a.b=c d.e=f',
         # values that contain '=': the value is everything after the first '='
         'attributes x.expr=mode=fast', 'attributes x.b64=dGVzdA==', 'attributes x.url=http://h/p?a=1&b=2 x.t=v=']
MALFORMED = ['transfer bogus', 'transfer', 'scope bogus', 'out bogus', 'array bogus',
             'array fixed-size=x', 'nosuchannotation']

MENU = (TRANSFER + DIRECTION + NULLFAM + OTHER[:1] + ARRAY + ELEMTYPE + TYPE + SCOPE + CLOSURE + DESTROY
        + OTHER[1:] + MALFORMED)

# families whose members interact (thorough tier enumerates all triples drawn from them)
INTERACT_DIR = DIRECTION
INTERACT_NULL = NULLFAM
INTERACT_ARR = ['array', 'array length=n', 'array zero-terminated=1', 'element-type utf8',
                'element-type gint', 'transfer none', 'transfer container', 'transfer full']

# annotations offered on an instance parameter (direction out/inout and type overrides change
# whether the function is a method at all, which is C04's subject)
SELF_MENU = (TRANSFER + ['in'] + NULLFAM + ['skip'] + SCOPE[:1] + CLOSURE[:2] + DESTROY[:1]
             + OTHER[1:] + ['transfer bogus'])


def site_anns(case):
    return [a for a in case['anns'] if not a.startswith('@')]


def n_anns(case):
    """annotations written on the length parameter n ('@n optional' -> 'optional')"""
    return [a[3:] for a in case['anns'] if a.startswith('@n ')]


# kinds on which (array length=n) is valid, used for the length-parameter family
LEN_KINDS = ['intp', 'strv', 'rec', 'ptrarray']
LEN_ARRAYS = [['array length=n'], ['out', 'array length=n'], ['inout', 'array length=n']]
LEN_ANNS = ['@n optional', '@n nullable', '@n not optional', '@n skip', '@n transfer none', '@n out', '@n inout']


# annotations offered on the return value of a constructor (type-changing ones would undo the pairing)
CTOR_MENU = TRANSFER + ['nullable', 'not nullable', 'skip', 'attributes my.key=val', 'transfer bogus', 'optional']


def ann_name(a):
    return a.split()[0]


def parse_ann(a):
    """'array length=n fixed-size=3' -> ('array', ['length=n', 'fixed-size=3'])"""
    w = a.split()
    return w[0], w[1:]


# --------------------------------------------------------------- case builder ---
def site_positions(callable_):
    """[(layout, site)] explored for a callable kind."""
    if callable_ == 'ctor':
        # constructors: foo_<type>_new (layout 0) and foo_obj_new_with_x (layout 1, class only)
        return [(0, 'ret'), (1, 'ret')]
    out = [(0, 'p'), (1, 'p'), (0, 'ret')]
    if callable_ in ('method', 'vfunc', 'vfunc_inv'):
        out.append((0, 'self'))
    return out


def kind_ok(callable_, site, kind):
    if callable_ == 'ctor':
        return site == 'ret' and kind in ('obj', 'box')     # a plain record without GType cannot have one
    if kind == 'box':
        return False
    if kind in QUALIFIED_PTR and site != 'p':
        return False
    if site == 'self':
        return kind == 'rec' if callable_ == 'method' else kind == 'obj'
    if callable_ == 'signal':
        return KINDS[kind][3] is not None
    return True


def param_list(case):
    """[(ctype, name)] of the callable after the instance parameter."""
    site, kind, layout = case['site'], case['kind'], case['layout']
    neigh = list(NEIGH)
    if layout >= 2:
        # layouts 2/3 = layouts 0/1 with the length candidate declared as a pointer (guint *n), used for
        # annotations written on the length parameter itself ('@n ...' entries of case['anns'])
        neigh[0] = ('guint*', 'n')
    if site == 'p':
        sp = (KINDS[kind][0], 'p')
        return [sp] + neigh if layout % 2 == 0 else neigh + [sp]
    return neigh


def ret_type(case):
    if case['site'] == 'ret':
        return KINDS[case['kind']][0]
    return 'gboolean'


SUPPORT_BLOCKS = []


def support_decls():
    return [
        Typedef('FooRec', 'struct _FooRec'),
        Struct('_FooRec', [Field('x', 'int')]),
        Enum('FooEnum', [('FOO_ENUM_A', 0), ('FOO_ENUM_B', 1)]),
        Callback('FooCb', 'void', [('int', 'a'), ('gpointer', 'user_data')]),
        Typedef('FooRecAlias', 'FooRec'),
        Typedef('FooRecAlias2', 'FooRecAlias'),
        Typedef('FooCbAlias', 'FooCb'),
        Typedef('FooEnumAlias', 'FooEnum'),
        Typedef('FooObj', 'struct _FooObj'),
        Typedef('FooObjClass', 'struct _FooObjClass'),
        Struct('_FooObj', [Field('parent_instance', 'GObject')]),
        Func('foo_obj_get_type', 'GType', []),
        # frame witness: same parameter names, never annotated
        Func('foo_witness', 'char*', [('char**', 'p'), ('guint', 'n'), ('gpointer', 'ctx'),
                                     ('GDestroyNotify', 'dn')]),
    ]


def build(case):
    """-> (decls, dump_xml, block_name, block_param_names, has_return_line)"""
    c = case['callable']
    params = param_list(case)
    ret = ret_type(case)
    decls = support_decls()
    class_fields = [Field('parent_class', 'GObjectClass')]
    signals = ''
    names = [n for _, n in params]
    if c == 'function':
        decls.append(Func('foo_fn', ret, params))
        bname = 'foo_fn'
    elif c == 'method':
        decls.append(Func('foo_rec_meth', ret, [('FooRec*', 'self')] + params))
        bname = 'foo_rec_meth'
        names = ['self'] + names
    elif c == 'callback':
        decls.append(Callback('FooHandler', ret, params))
        bname = 'FooHandler'
    elif c == 'ctor':
        kind = case['kind']
        bname = {'rec': 'foo_rec_new', 'box': 'foo_box_new',
                 'obj': 'foo_obj_new_with_x' if case['layout'] == 1 else 'foo_obj_new'}[kind]
        if kind == 'box':
            decls += [Typedef('FooBox', 'struct _FooBox'), Struct('_FooBox', [Field('y', 'int')]),
                      Func('foo_box_get_type', 'GType', [])]
            signals = None
        decls.append(Func(bname, ret, params))
    elif c == 'vfunc':
        class_fields.append(FieldCb('vf', ret, [('FooObj*', 'self')] + params))
        bname = 'FooObjClass::vf'
        names = ['self'] + names
    elif c == 'vfunc_inv':
        class_fields.append(FieldCb('vf', ret, [('FooObj*', 'self')] + params))
        decls.append(Func('foo_obj_vf', ret, [('FooObj*', 'self')] + params))
        bname = 'foo_obj_vf'
        names = ['self'] + names
    elif c == 'signal':
        gts = []
        for t, n in params:
            if n == 'p':
                gts.append(KINDS[case['kind']][3])
            else:
                gts.append(NEIGH_GTYPES[[x[1] for x in NEIGH].index(n)])
        if case['site'] == 'ret':
            rg = KINDS[case['kind']][3]
        else:
            rg = 'gboolean'
        signals = '<signal name="sig" return="%s">%s</signal>' % (
            rg, ''.join('<param type="%s"/>' % g for g in gts))
        bname = 'FooObj::sig'
        names = ['self'] + names
    else:
        raise ValueError(c)
    decls.append(Struct('_FooObjClass', class_fields))
    number(decls)
    boxed = ''
    if signals is None:
        signals = ''
        boxed = '<boxed name="FooBox" get-type="foo_box_get_type"/>'
    dump = ('<?xml version="1.0"?><dump><class name="FooObj" get-type="foo_obj_get_type" '
            'parents="GObject">%s</class>%s</dump>' % (signals, boxed))
    return decls, dump, bname, names


BLOCK_LINE = 100


def render_block(case, annotated):
    """-> (comment text, {site name: line number of its comment line})"""
    decls, dump, bname, names = build(case)
    anns = ' '.join('(%s)' % a for a in site_anns(case)) if annotated else ''
    nanns = ' '.join('(%s)' % a for a in n_anns(case)) if annotated else ''
    lines = ['/**', ' * %s:' % bname]
    where = {}
    for n in names:
        a = anns if n == case['site'] else (nanns if n == 'n' else '')
        where[n] = BLOCK_LINE + len(lines)
        lines.append(' * @%s:%s d_%s' % (n, (' ' + a + ':') if a else '', n))
    lines.append(' *')
    lines.append(' * Description.')
    lines.append(' *')
    a = anns if case['site'] == 'ret' else ''
    where['ret'] = BLOCK_LINE + len(lines)
    lines.append(' * Returns:%s d_ret' % ((' ' + a + ':') if a else ''))
    lines.append(' */')
    return '\n'.join(lines), where


def execute(case, annotated):
    decls, dump, bname, names = build(case)
    text, where = render_block(case, annotated)
    res = run.scan(decls, [run.comment(text, '/src/foo.c', BLOCK_LINE)], includes=INCLUDES, dump=dump)
    return res, where


def c_text(case):
    decls, dump, bname, names = build(case)
    text, _ = render_block(case, True)
    return text + '\n' + fake.c_of(decls[len(support_decls()):]) + '\n/* dump: %s */' % dump[dump.index('<class'):]
