"""Runs the real scanner pipeline (everything behind the C lexer) on symbol trees.

    GtkDocCommentBlockParser -> Transformer.parse -> [GDumpParser] -> MainTransformer
      -> IntrospectablePass -> GIRWriter

mirroring giscanner/scannermain.py:scanner_main.  Nothing of giscanner is modified:
the message logger instance is replaced by a recording subclass through the public
singleton slot, and the runtime dump is injected by overriding the one method that
would execute a binary.
"""
import io
import os
import xml.etree.ElementTree as ET

from vt.core import ROOT
from vt.scan import fake

from giscanner import ast, message
from giscanner.annotationparser import GtkDocCommentBlockParser
from giscanner.gdumpparser import GDumpParser
from giscanner.girwriter import GIRWriter
from giscanner.introspectablepass import IntrospectablePass
from giscanner.maintransformer import MainTransformer
from giscanner.transformer import Transformer

DEPS = os.path.join(ROOT, 'deps')


class RecLogger(message.MessageLogger):
    """Records every log() call; otherwise behaves exactly like the original."""

    def __init__(self, namespace=None, output=None):
        super(RecLogger, self).__init__(namespace, output if output is not None else io.StringIO())
        self.records = []

    def log(self, log_type, text, positions=None, prefix=None, marker_pos=None, marker_line=None):
        pos = positions
        if isinstance(pos, message.Position):
            pos = [pos]
        plist = []
        for p in (pos or []):
            plist.append((p.filename, p.line, p.column))
        self.records.append({'type': log_type, 'text': str(text), 'positions': sorted(plist, key=repr),
                             'prefix': prefix, 'marker_pos': marker_pos, 'marker_line': marker_line})
        return super(RecLogger, self).log(log_type, text, positions, prefix, marker_pos, marker_line)


class FakeDumpParser(GDumpParser):
    def __init__(self, transformer, dump_xml):
        super(FakeDumpParser, self).__init__(transformer)
        self._dump_xml = dump_xml

    def _execute_binary_get_tree(self):
        return ET.ElementTree(ET.fromstring(self._dump_xml))


class Result(object):
    __slots__ = ('xml', 'records', 'namespace', 'error', 'blocks', 'transformer', 'get_types', 'quarks')

    def warnings(self):
        return [r for r in self.records if r['type'] in (message.WARNING, message.ERROR)]


def scan(decls=None, comments=(), symbols=None, ns='Foo', version='1.0', identifier_prefixes=None,
         symbol_prefixes=None, includes=(), dump=None, accept_unprefixed=False, warn_all=True,
         include_paths=None, shared_libraries=(), c_includes=(), packages=(), sources_roots=('/src',),
         use_cache=False, write=True, keep=False):
    """Run the pipeline.  `dump` is either None (header-only mode), an XML string, or a
    callable (get_type_functions, error_quark_functions) -> XML string."""
    message.MessageLogger._instance = None
    namespace = ast.Namespace(ns, version, identifier_prefixes=identifier_prefixes,
                              symbol_prefixes=symbol_prefixes)
    logger = RecLogger(namespace=namespace)
    message.MessageLogger._instance = logger
    logger.enable_warnings(warn_all)
    res = Result()
    res.records = logger.records
    res.namespace = namespace
    res.xml = None
    res.error = None
    res.blocks = None
    res.transformer = None
    res.get_types = res.quarks = None
    try:
        t = Transformer(namespace, accept_unprefixed=accept_unprefixed)
        if not use_cache:
            t.disable_cache()
        t.set_include_paths(list(include_paths) if include_paths is not None else [DEPS])
        for inc in includes:
            t.register_include(ast.Include.from_string(inc))
        blocks = GtkDocCommentBlockParser().parse_comment_blocks(list(comments))
        if symbols is None:
            symbols = fake.symbols_of(decls or [])
        t.parse([fake.wrap(s) for s in symbols])
        if dump is not None:
            gp = FakeDumpParser(t, None)
            gp.init_parse()
            res.get_types = list(gp.get_get_type_functions())
            res.quarks = list(gp.get_error_quark_functions())
            gp._dump_xml = dump(res.get_types, res.quarks) if callable(dump) else dump
            gp.parse()
        namespace.shared_libraries = list(shared_libraries)
        MainTransformer(t, blocks).transform()
        IntrospectablePass(t, blocks).validate()
        namespace.c_includes = list(c_includes)
        namespace.exported_packages = list(packages)
        if write:
            res.xml = GIRWriter(namespace, list(sources_roots)).get_encoded_xml()
        if keep:
            res.blocks = blocks
            res.transformer = t
    except SystemExit as e:
        res.error = 'SystemExit: %s' % (e,)
    except Exception as e:   # noqa - a crash of the pipeline is an observation, not a harness failure
        import traceback
        res.error = '%s: %s\n%s' % (type(e).__name__, e, traceback.format_exc(limit=6))
    finally:
        message.MessageLogger._instance = None
    return res


def block(name, params=(), ret=None, ident_ann='', tags=(), desc=None):
    """Render a GTK-Doc comment block.  params: [(name, annotations-string, description)],
    ret: (annotations-string, description) or None, tags: [(Tag, value/description)]"""
    lines = ['/**']
    lines.append(' * %s:%s' % (name, (' ' + ident_ann) if ident_ann else ''))
    for p in params:
        n, ann = p[0], p[1]
        d = p[2] if len(p) > 2 else 'a parameter'
        lines.append(' * @%s:%s %s' % (n, (' ' + ann + ':') if ann else '', d))
    if desc is not None:
        lines.append(' *')
        lines.append(' * %s' % desc)
    if ret is not None or tags:
        lines.append(' *')
    if ret is not None:
        ann = ret[0]
        d = ret[1] if len(ret) > 1 else 'a value'
        lines.append(' * Returns:%s %s' % ((' ' + ann + ':') if ann else '', d))
    for t, v in tags:
        lines.append(' * %s: %s' % (t, v))
    lines.append(' */')
    return '\n'.join(lines)


def comment(text, file='/src/foo.c', line=100):
    return (text, file, line)
