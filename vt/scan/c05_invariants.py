"""C05 - structural invariants of a GIR document ("everything left introspectable is
bindable and every reference resolves").

    check_gir(xml_bytes, search_dirs) -> Findings        (a list of violations)

Each violation is a tuple (rule_id, element_path, message).  The returned object is a
list subclass, so `if check_gir(...)` is true only when a MUST rule is broken.  What
could not be decided is returned separately:

    .unchecked     (rule 'unchecked', path, message): references into a namespace for
                   which no GIR exists in search_dirs (or into a dependency GIR that
                   declares itself a miniature), never a violation
    .unspecified   number of situations the property statement does not fix
    .musts         number of MUST rules evaluated (vacuity guard for callers)

The function is pure (the only state is a cache of parsed dependency GIRs keyed by
path/mtime/size), does not import giscanner and reads XML through vt.scan.girread
(ElementTree).  Everything here is written from the property statement, docs/gir-1.2.rnc
and the typelib compiler's list of basic type names (girepository/girparser.c), not from
giscanner.

Rules (ids):
  type-unresolved      a <type> without name (and not foreign="1") in a live element
  type-unknown         a name that is no fundamental and is defined neither here nor in
                       a transitively included namespace
  type-not-a-type      the name resolves to something that is not a type definition
  type-target-dead     the definition it resolves to is introspectable="0"
  type-forbidden       varargs, va_list, long long, unsigned long long, long double
  transfer-missing     parameter / instance-parameter / return-value without
                       transfer-ownership
  scope-missing        callback-typed parameter (through aliases) other than
                       GLib.DestroyNotify / Gio.AsyncReadyCallback without scope
  element-type-missing list or array without element type (for parameters and return
                       values also: bare gpointer element)
  index-range          closure / destroy / length index out of range
  shadow-pair          shadows / shadowed-by do not point at each other
  type-struct-pair     glib:type-struct / glib:is-gtype-struct-for do not point at each other
  accessor-pair        property setter/getter vs method glib:set-property/get-property
  accessor-unique      (strict / unique_accessors) two methods of one type claim the same property in the same role
  invoker              virtual-method invoker is not a method of the same type
"live" = the element and all its ancestors are not marked introspectable="0"; the type
rules apply to live callables, fields, properties and aliases only, the cross-reference
rules to every element.
"""
import os

from vt.scan import girread

# girepository/girparser.c: basic_types[] + integer_aliases[]
FUNDAMENTAL = frozenset([
    'none', 'gpointer', 'gboolean', 'gint8', 'guint8', 'gint16', 'guint16', 'gint32', 'guint32',
    'gint64', 'guint64', 'gfloat', 'gdouble', 'GType', 'utf8', 'filename', 'gunichar',
    'gchar', 'guchar', 'gshort', 'gushort', 'gint', 'guint', 'glong', 'gulong', 'gssize', 'gsize',
    'gintptr', 'guintptr', 'off_t', 'time_t', 'dev_t', 'gid_t', 'pid_t', 'socklen_t', 'uid_t'])
FORBIDDEN = frozenset(['va_list', 'long long', 'unsigned long long', 'signed long long', 'long double'])
LISTS = frozenset(['GLib.List', 'GLib.SList'])
MAPS = frozenset(['GLib.HashTable'])
GARRAYS = frozenset(['GLib.Array', 'GLib.PtrArray'])
CALLABLES = frozenset(['function', 'method', 'constructor', 'virtual-method', 'callback', 'glib:signal',
                       'function-inline', 'method-inline'])
CONTAINERS = frozenset(['class', 'interface', 'record', 'union', 'enumeration', 'bitfield', 'glib:boxed'])
TYPE_DEFS = frozenset(['alias', 'class', 'interface', 'record', 'union', 'enumeration', 'bitfield', 'callback',
                       'glib:boxed'])
FIELDLIKE = ('field', 'record', 'union')       # what a 'length' index of a field counts
NO_SCOPE_NEEDED = frozenset(['GLib.DestroyNotify', 'Gio.AsyncReadyCallback'])
MINIATURE_MARK = b'Miniature hand-written dependency GIR'


class Findings(list):
    """list of violations + what could not be decided"""

    def __init__(self):
        list.__init__(self)
        self.unchecked = []
        self.unspecified = 0
        self.musts = 0
        self.live = 0        # live callables/fields/properties/aliases looked at


class NsIndex(object):
    __slots__ = ('name', 'version', 'includes', 'defs', 'partial')

    def __init__(self, root, partial=False):
        ns = root.find('namespace')
        self.name = ns.get('name') if ns is not None else None
        self.version = ns.get('version') if ns is not None else None
        self.includes = [(i.get('name'), i.get('version')) for i in root.findall('include')]
        self.partial = partial
        defs = {}
        if ns is not None:
            for k in ns.kids:
                n = k.get('name') or (k.get('glib:name') if k.tag == 'glib:boxed' else None)
                if n is None:
                    continue
                # (kind, introspectable, alias target name)
                tgt = None
                if k.tag == 'alias':
                    t = k.find('type')
                    tgt = t.get('name') if t is not None else None
                prev = defs.get(n)
                if prev is None or (prev[0] not in TYPE_DEFS and k.tag in TYPE_DEFS):
                    defs[n] = (k.tag, k.get('introspectable') != '0', tgt)
        self.defs = defs


_cache = {}


def _load(path):
    try:
        st = os.stat(path)
    except OSError:
        return None
    key = (path, st.st_mtime_ns, st.st_size)
    hit = _cache.get(path)
    if hit is not None and hit[0] == key:
        return hit[1]
    with open(path, 'rb') as f:
        data = f.read()
    try:
        idx = NsIndex(girread.parse(data), partial=MINIATURE_MARK in data[:600])
    except Exception:
        idx = None
    _cache[path] = (key, idx)
    return idx


def find_gir(name, version, search_dirs):
    for d in search_dirs:
        for pat in ('%s-%s.gir', '%s-%s-expected.gir'):
            p = os.path.join(d, pat % (name, version))
            if os.path.isfile(p):
                return p
    return None


def closure_of(includes, search_dirs):
    """{namespace name: NsIndex or None (no GIR found)} for the transitive includes"""
    out = {}
    todo = list(includes)
    while todo:
        name, version = todo.pop(0)
        if name in out:
            continue
        p = find_gir(name, version, search_dirs)
        idx = _load(p) if p else None
        out[name] = idx
        if idx is not None:
            todo.extend(idx.includes)
    return out


class _Checker(object):
    def __init__(self, root, search_dirs, strict_accessors, unique_accessors=None):
        self.out = Findings()
        self.strict = strict_accessors
        self.unique = strict_accessors if unique_accessors is None else unique_accessors
        self.me = NsIndex(root)
        self.deps = closure_of(self.me.includes, list(search_dirs))
        self.ns = root.find('namespace')

    # ------------------------------------------------------------ reporting --
    def bad(self, rule, el, msg):
        self.out.append((rule, el.path(), msg))

    def unchecked(self, el, msg):
        self.out.unchecked.append(('unchecked', el.path(), msg))

    # ----------------------------------------------------------- resolution --
    def lookup(self, name):
        """-> ('def', giname, (kind, introspectable, alias-target), nsindex) | ('nogir', ns) |
        ('partial', ns) | ('missing', why)"""
        if '.' in name:
            nsname, local = name.split('.', 1)
        else:
            nsname, local = self.me.name, name
        if nsname == self.me.name:
            idx = self.me
        else:
            if nsname not in self.deps:
                return ('missing', 'namespace %s is not (transitively) included' % nsname)
            idx = self.deps[nsname]
            if idx is None:
                return ('nogir', nsname)
        d = idx.defs.get(local)
        if d is None:
            if idx.partial:
                return ('partial', nsname)
            return ('missing', 'no definition of %s in namespace %s' % (local, nsname))
        return ('def', '%s.%s' % (nsname, local), d, idx)

    def callback_giname(self, name):
        """Follow aliases; the GI name of the callback `name` denotes, or None."""
        seen = 0
        cur_ns = None
        while name is not None and seen < 16:
            seen += 1
            if name in FUNDAMENTAL or name in FORBIDDEN:
                return None
            if '.' not in name and cur_ns is not None and cur_ns != self.me.name:
                name = '%s.%s' % (cur_ns, name)
            r = self.lookup(name)
            if r[0] != 'def':
                return None
            kind, _intro, tgt = r[2]
            if kind == 'callback':
                return r[1]
            if kind != 'alias':
                return None
            cur_ns = r[3].name
            name = tgt
        return None

    # ---------------------------------------------------------------- types --
    def check_type(self, t, ctx, top, ref=False):
        """t: a type/array/varargs element inside the live element ctx.  ref: the writer
        emits only a bare type reference here (alias target), so a container cannot state
        its element type: unspecified instead of a violation."""
        out = self.out
        if t.tag == 'varargs':
            out.musts += 1
            self.bad('type-forbidden', ctx, 'varargs in an introspectable element')
            return
        if t.tag == 'array':
            out.musts += 1
            kids = [k for k in t.kids if k.tag in ('type', 'array')]
            if not kids:
                if ref:
                    out.musts -= 1
                    out.unspecified += 1
                else:
                    self.bad('element-type-missing', ctx, 'array without element type')
                return
            if top and kids[0].tag == 'type' and kids[0].get('name') == 'gpointer':
                self.bad('element-type-missing', ctx, 'array of bare gpointer')
            for k in kids:
                self.check_type(k, ctx, False)
            return
        if t.tag != 'type':
            return
        name = t.get('name')
        out.musts += 1
        if name is None:
            if t.get('foreign') == '1':
                return
            self.bad('type-unresolved', ctx, 'unresolved type (c:type=%r)' % t.get('c:type'))
            return
        if name in FORBIDDEN:
            self.bad('type-forbidden', ctx, '%s in an introspectable element' % name)
            return
        if name in FUNDAMENTAL:
            return
        kids = [k for k in t.kids if k.tag in ('type', 'array')]
        if name in LISTS:
            if not kids:
                if ref:
                    out.musts -= 1
                    out.unspecified += 1
                else:
                    self.bad('element-type-missing', ctx, '%s without element type' % name)
                return
            if top and kids[0].tag == 'type' and kids[0].get('name') == 'gpointer':
                self.bad('element-type-missing', ctx, '%s of bare gpointer' % name)
            for k in kids:
                self.check_type(k, ctx, False)
            return
        if name in MAPS:
            for k in kids:
                self.check_type(k, ctx, False)
            return
        if top and name in GARRAYS:
            # a GArray/GPtrArray parameter or return value written as a plain reference to the
            # record instead of <array name=...><type .../></array>: no element type is stated
            self.bad('element-type-missing', ctx, '%s as a plain type, without element type' % name)
            return
        r = self.lookup(name)
        if r[0] == 'def':
            kind, intro, _tgt = r[2]
            if kind not in TYPE_DEFS:
                self.bad('type-not-a-type', ctx, '%s names a %s' % (name, kind))
            elif not intro:
                self.bad('type-target-dead', ctx, 'uses %s which is introspectable="0"' % name)
        elif r[0] == 'missing':
            self.bad('type-unknown', ctx, '%s: %s' % (name, r[1]))
        elif r[0] == 'nogir':
            self.unchecked(ctx, '%s: no GIR for namespace %s' % (name, r[1]))
        else:
            self.unchecked(ctx, '%s: not in the miniature GIR of %s' % (name, r[1]))

    def typed_child(self, el):
        for k in el.kids:
            if k.tag in ('type', 'array', 'varargs'):
                return k
        return None

    # ------------------------------------------------------------ callables --
    def check_callable(self, c, live):
        out = self.out
        ret = c.find('return-value')
        ps = c.find('parameters')
        inst = ps.find('instance-parameter') if ps is not None else None
        params = ps.findall('parameter') if ps is not None else []
        n = len(params)
        # cross references: every element
        for p in params:
            for a in ('closure', 'destroy'):
                v = p.get(a)
                if v is not None:
                    out.musts += 1
                    if not _in_range(v, n):
                        self.bad('index-range', c, '%s=%s of parameter %s, %d parameters' % (a, v, p.get('name'), n))
        for holder in params + ([ret] if ret is not None else []):
            arr = holder.find('array')
            if arr is not None and arr.get('length') is not None:
                out.musts += 1
                if not _in_range(arr.get('length'), n):
                    self.bad('index-range', c, 'length=%s of %s, %d parameters' % (
                        arr.get('length'), holder.get('name') or 'return value', n))
        if not live:
            return
        out.live += 1
        for holder in ([ret] if ret is not None else []) + ([inst] if inst is not None else []) + params:
            what = holder.get('name') or holder.tag
            skipped = holder.get('skip') == '1'
            if holder.get('transfer-ownership') is None:
                if skipped:
                    out.unspecified += 1
                else:
                    out.musts += 1
                    self.bad('transfer-missing', c, '%s has no transfer-ownership' % what)
            else:
                out.musts += 1
            t = self.typed_child(holder)
            if t is None:
                if c.tag != 'function-macro':
                    out.musts += 1
                    self.bad('type-unresolved', c, '%s has no type' % what)
                continue
            # a skipped parameter / return value is not seen by bindings: the bare-gpointer element
            # rule does not apply to it (its type must still resolve)
            self.check_type(t, c, not skipped)
            if skipped and t.tag in ('array', 'type') and (t.tag == 'array' or t.get('name') in LISTS):
                out.unspecified += 1
            if holder.tag == 'parameter' and t.tag == 'type' and t.get('name'):
                cb = self.callback_giname(t.get('name'))
                if cb is not None and cb not in NO_SCOPE_NEEDED:
                    if skipped:
                        out.unspecified += 1
                    else:
                        out.musts += 1
                        if holder.get('scope') is None:
                            self.bad('scope-missing', c, 'callback parameter %s (%s) has no scope' % (what, cb))

    # ------------------------------------------------------------ compounds --
    def check_fields(self, comp, live):
        out = self.out
        fields = [k for k in comp.kids if k.tag in FIELDLIKE]
        n = len(fields)
        for f in fields:
            if f.tag != 'field':
                continue
            arr = f.find('array')
            if arr is not None and arr.get('length') is not None:
                out.musts += 1
                if not _in_range(arr.get('length'), n):
                    self.bad('index-range', f, 'length=%s, %d fields' % (arr.get('length'), n))
            flive = live and f.get('introspectable') != '0'
            if not flive:
                continue
            out.live += 1
            cb = f.find('callback')
            if cb is not None:
                out.musts += 1
                if cb.get('introspectable') == '0':
                    self.bad('type-target-dead', f, 'field holds a callback that is introspectable="0"')
                continue
            t = self.typed_child(f)
            if t is None:
                out.musts += 1
                self.bad('type-unresolved', f, 'field without type')
                continue
            self.check_type(t, f, False)

    def check_pairs(self, comp):
        """shadows, accessors, invokers inside one type (or the namespace itself)"""
        out = self.out
        calls = [k for k in comp.kids if k.tag in CALLABLES]
        byname = {}
        for k in calls:
            byname.setdefault(k.get('name'), []).append(k)
        for k in calls:
            s = k.get('shadows')
            if s is not None:
                out.musts += 1
                if not any(o.get('shadowed-by') == k.get('name') for o in self.named_anywhere(byname, s)):
                    self.bad('shadow-pair', k, 'shadows=%s but no such callable is shadowed-by=%s' % (s, k.get('name')))
            s = k.get('shadowed-by')
            if s is not None:
                out.musts += 1
                if not any(o.get('shadows') == k.get('name') for o in self.named_anywhere(byname, s)):
                    self.bad('shadow-pair', k, 'shadowed-by=%s but no such callable shadows=%s' % (s, k.get('name')))
        if comp.tag not in ('class', 'interface'):
            return
        methods = {}
        for k in comp.kids:
            if k.tag in ('method', 'method-inline'):
                methods.setdefault(k.get('name'), k)
        props = {}
        for k in comp.kids:
            if k.tag == 'property':
                props.setdefault(k.get('name'), k)
        for k in comp.kids:
            if k.tag == 'virtual-method' and k.get('invoker') is not None:
                out.musts += 1
                if k.get('invoker') not in methods:
                    self.bad('invoker', k, 'invoker=%s is not a method of %s' % (k.get('invoker'), comp.get('name')))
        for pname, p in props.items():
            for pattr, mattr in (('setter', 'glib:set-property'), ('getter', 'glib:get-property')):
                acc = p.get(pattr)
                if acc is None:
                    continue
                m = methods.get(acc)
                if m is None:
                    if self.strict:
                        out.musts += 1
                        self.bad('accessor-pair', p, '%s=%s is not a method of %s' % (pattr, acc, comp.get('name')))
                    else:
                        out.unspecified += 1     # only an explicit annotation can name a missing method
                    continue
                if m.get('introspectable') == '0' and not self.strict:
                    out.unspecified += 1
                    continue
                out.musts += 1
                if m.get(mattr) != pname:
                    self.bad('accessor-pair', p, '%s=%s but that method has %s=%r' % (pattr, acc, mattr, m.get(mattr)))
        if self.unique:
            # no two methods claim the same property in the same role
            for mattr in ('glib:set-property', 'glib:get-property'):
                claims = {}
                for mname in sorted(methods):
                    pn = methods[mname].get(mattr)
                    if pn is not None:
                        claims.setdefault(pn, []).append(mname)
                for pn in sorted(claims):
                    out.musts += 1
                    if len(claims[pn]) > 1:
                        self.bad('accessor-unique', comp, '%s=%s is claimed by methods %s' % (mattr, pn, ', '.join(claims[pn])))
        for mname, m in methods.items():
            for pattr, mattr in (('setter', 'glib:set-property'), ('getter', 'glib:get-property')):
                pn = m.get(mattr)
                if pn is None:
                    continue
                if not self.strict:
                    out.unspecified += 1         # explicit (set-property)/(get-property) may name anything
                    continue
                out.musts += 1
                p = props.get(pn)
                if p is None:
                    self.bad('accessor-pair', m, '%s=%s is not a property of %s' % (mattr, pn, comp.get('name')))
                elif pattr == 'setter' and p.get('setter') != mname:
                    self.bad('accessor-pair', m, '%s=%s but the property has setter=%r' % (mattr, pn, p.get('setter')))
                elif pattr == 'getter' and p.get('getter') is None:
                    self.bad('accessor-pair', m, '%s=%s but the property has no getter' % (mattr, pn))

    def named_anywhere(self, byname, name):
        """callables named `name` in the same container first, else anywhere in the document"""
        r = byname.get(name)
        if r:
            return r
        return [e for e in self.ns.iter() if e.tag in CALLABLES and e.get('name') == name]

    def check_type_struct(self):
        out = self.out
        tops = {}
        for k in self.ns.kids:
            if k.get('name') is not None and k.tag in ('class', 'interface', 'record'):
                tops.setdefault((k.tag == 'record', k.get('name')), k)
        for (isrec, name), k in tops.items():
            if not isrec and k.get('glib:type-struct') is not None:
                out.musts += 1
                ts = _local(k.get('glib:type-struct'), self.me.name)
                r = tops.get((True, ts))
                if r is None or _local(r.get('glib:is-gtype-struct-for') or '', self.me.name) != name:
                    self.bad('type-struct-pair', k, 'glib:type-struct=%s but that record has glib:is-gtype-struct-for=%r' % (
                        ts, r.get('glib:is-gtype-struct-for') if r is not None else None))
            if isrec and k.get('glib:is-gtype-struct-for') is not None:
                out.musts += 1
                tn = _local(k.get('glib:is-gtype-struct-for'), self.me.name)
                c = tops.get((False, tn))
                if c is None or _local(c.get('glib:type-struct') or '', self.me.name) != name:
                    self.bad('type-struct-pair', k, 'glib:is-gtype-struct-for=%s but that type has glib:type-struct=%r' % (
                        tn, c.get('glib:type-struct') if c is not None else None))

    # ----------------------------------------------------------------- walk --
    def walk(self, el, live):
        for k in el.kids:
            tag = k.tag
            klive = live and k.get('introspectable') != '0'
            if tag in CALLABLES:
                self.check_callable(k, klive)
            elif tag in CONTAINERS:
                self.check_fields(k, klive)
                self.check_pairs(k)
                self.walk(k, klive)
            elif tag == 'field':
                cb = k.find('callback')
                if cb is not None:
                    self.check_callable(cb, klive and cb.get('introspectable') != '0')
            elif tag == 'property':
                if klive:
                    self.out.live += 1
                    t = self.typed_child(k)
                    if t is None:
                        self.out.musts += 1
                        self.bad('type-unresolved', k, 'property without type')
                    else:
                        self.check_type(t, k, False)
            elif tag == 'alias':
                if klive:
                    self.out.live += 1
                    t = self.typed_child(k)
                    if t is None:
                        self.out.musts += 1
                        self.bad('type-unresolved', k, 'alias without target')
                    else:
                        self.check_type(t, k, False, ref=True)

    def run(self):
        if self.ns is None:
            self.out.append(('document', '', 'no <namespace> element'))
            return self.out
        self.check_pairs(self.ns)
        self.check_type_struct()
        self.walk(self.ns, True)
        return self.out


def _in_range(v, n):
    try:
        i = int(v)
    except ValueError:
        return False
    return 0 <= i < n


def _local(name, nsname):
    if name.startswith(nsname + '.'):
        return name[len(nsname) + 1:]
    return name


def check_root(root, search_dirs=(), strict_accessors=False, unique_accessors=None):
    """Same as check_gir for an already parsed document (girread.El of <repository>)."""
    return _Checker(root, search_dirs, strict_accessors, unique_accessors).run()


def check_gir(xml_bytes, search_dirs=(), strict_accessors=False, unique_accessors=None):
    """Structural invariants of C05 over one GIR document.

    xml_bytes       the document
    search_dirs     directories searched for '<Name>-<version>.gir' (also '-expected.gir') to
                    resolve <include>s transitively
    strict_accessors  also demand that a property's setter/getter names an existing method and that
                    a method's glib:set-property/get-property names an existing property pointing
                    back (only sound when no explicit (setter)/(getter)/(set-property)/(get-property)
                    annotation is in the input; those may name anything)
    unique_accessors  demand that no two methods of a type claim the same property in the same role
                    (rule accessor-unique); defaults to strict_accessors
    -> Findings: list of (rule_id, element_path, message); .unchecked, .unspecified, .musts
    """
    return check_root(girread.parse(xml_bytes), search_dirs, strict_accessors, unique_accessors)
