"""C12 helper: bounded-exhaustive scenario families.

Each family has   params(tier) -> iterable of small parameter tuples (the enumeration)
                  build(p)     -> scenario dict (see c12_oracle)
Scenario = scanned C declarations + the runtime type registry of the "library" (from which
c12_gdump prints the dump exactly as gdump.c would).  Everything is deterministic.
"""
import itertools

from vt.scan.c12_gdump import (G_SIGNAL_RUN_FIRST, G_SIGNAL_RUN_LAST, G_SIGNAL_RUN_CLEANUP,
                               G_SIGNAL_NO_RECURSE, G_SIGNAL_DETAILED, G_SIGNAL_ACTION,
                               G_SIGNAL_NO_HOOKS, G_SIGNAL_MUST_COLLECT)
from vt.scan.c12_oracle import uscore, snake, PREFIX

GOBJ = ['GObject-2.0']
GIO = ['GObject-2.0', 'Gio-2.0']


def sym(gname, suffix='_get_type'):
    assert gname.startswith(PREFIX)
    return 'foo_' + uscore(gname[len(PREFIX):]) + suffix


def subsets(items):
    items = list(items)
    for r in range(len(items) + 1):
        for c in itertools.combinations(items, r):
            yield list(c)


def seqs(menu, maxlen):
    for n in range(maxlen + 1):
        for s in itertools.product(menu, repeat=n):
            yield list(s)


class Lib(object):
    """Accumulates declarations + runtime registrations of the scanned library."""

    def __init__(self, includes, scn=None):
        self.scn = scn or {'includes': list(includes), 'decls': [], 'types': [], 'symbols': {}, 'quarks': {}}
        self.blocks = [self.scn['decls']]

    @property
    def decls(self):
        return self.blocks[-1]

    def new_block(self):
        """Start a new group of declarations (groups can be emitted in either order)."""
        self.blocks.append([])

    def finish(self, reverse=False):
        blocks = [b for b in self.blocks]
        if reverse:
            blocks = blocks[::-1]
        out = []
        for b in blocks:
            out.extend(b)
        self.scn['decls'] = out
        self.blocks = [out]
        return self.scn

    def instance(self, gname, parent_c, how):
        if how in ('struct', 'opaque'):
            self.decls.append(['typedef', gname, 'struct _%s' % gname])
        if how == 'struct':
            body = [['f', 'parent_instance', parent_c]] if parent_c else [['f', 'dummy', 'int']]
            self.decls.append(['struct', '_' + gname, body])

    def type_struct(self, gname, suffix, parent_struct_c, members):
        self.decls.append(['typedef', gname + suffix, 'struct _%s%s' % (gname, suffix)])
        self.decls.append(['struct', '_%s%s' % (gname, suffix),
                           [['f', 'parent', parent_struct_c]] + list(members)])

    def get_type(self, gname, suffix='_get_type', symbol=None):
        f = symbol or sym(gname, suffix)
        self.decls.append(['func', f, 'GType', []])
        self.scn['symbols'][f] = gname
        return f

    def register(self, t):
        self.scn['types'].append(t)

    def klass(self, gname, parent, instance='struct', class_members=None, public=True, **kw):
        """A GObject-derived class.  public=False: registered at run time, no get-type function."""
        t = dict(k='object', name=gname, parent=parent)
        t.update(kw)
        self.register(t)
        if public:
            self.instance(gname, parent if parent else None, instance)
            if class_members is not None:
                self.type_struct(gname, 'Class', parent + 'Class', class_members)
            self.get_type(gname)
        return t

    def iface(self, gname, instance='opaque', suffix='Iface', members=(), public=True, **kw):
        t = dict(k='interface', name=gname)
        t.update(kw)
        self.register(t)
        if public:
            self.instance(gname, None, instance)
            if suffix:
                for s in suffix.split('+'):
                    self.type_struct(gname, s, 'GTypeInterface', members)
            self.get_type(gname)
        return t

    def func(self, name, ret, params):
        self.decls.append(['func', name, ret, [list(p) for p in params]])


# ======================================================= H: parent chains ===
# intermediate ancestors: L local public class, H hidden (registered, never declared),
# S struct declared in the headers but no get-type function (not a known type),
# X a type of a library that is not included
FOREIGN_TOP = [None, 'GInitiallyUnowned', 'GCancellable']
IFACE_MENU = ['FooIfc', 'FooHidIfc', 'GAsyncResult']


def h_params(tier):
    maxmid = 4 if tier == 'thorough' else 3
    kinds = 'LHSX'
    for n in range(maxmid + 1):
        for mids in itertools.product(kinds, repeat=n):
            for top in FOREIGN_TOP:
                if n + (1 if top else 0) > maxmid:
                    continue
                for inc in (0, 1):
                    for af in range(4):
                        for ifs in range(8):
                            for where in ((0, 1) if (n and ifs) else (0,)):
                                for order in (0, 1):
                                    if tier != 'thorough' and n == 3 and (af not in (0, 3) or ifs not in (0, 5, 7)):
                                        continue
                                    yield (''.join(mids), top, inc, af, ifs, where, order)


def h_build(p):
    mids, top, inc, af, ifs, where, order = p
    lib = Lib(GIO if inc else GOBJ)
    names = []                                   # root-most first; mids[0] is the nearest ancestor
    for i, k in enumerate(reversed(mids)):
        idx = len(mids) - 1 - i
        names.append(({'L': 'FooMid%d', 'H': 'FooHid%d', 'S': 'FooSt%d', 'X': 'BarThing%d'}[k] % idx, k))
    ifaces = [IFACE_MENU[i] for i in range(3) if ifs & (1 << i)]
    parent = top or 'GObject'
    nearest = names[-1][0] if names else None
    for gname, k in names:
        kw = {}
        if where == 1 and gname == nearest:
            kw['ifaces'] = ifaces
        lib.new_block()
        if k == 'L':
            lib.klass(gname, parent, class_members=[], **kw)
        elif k == 'S':
            lib.klass(gname, parent, public=False, **kw)
            lib.instance(gname, parent, 'struct')
        else:
            lib.klass(gname, parent, public=False, **kw)
        parent = gname
    lib.new_block()
    lib.klass('FooObj', parent, class_members=[['cb', 'frob', 'void', [['FooObj*', 'self']]]],
              abstract=bool(af & 1), final=bool(af & 2), ifaces=(ifaces if where == 0 else []))
    lib.func('foo_obj_frob', 'void', [('FooObj*', 'self')])
    if 'FooIfc' in ifaces:
        lib.new_block()
        lib.iface('FooIfc')
    if 'FooHidIfc' in ifaces:
        lib.register(dict(k='interface', name='FooHidIfc'))
    return lib.finish(reverse=bool(order))


# ========================================================= P: properties ===
PROP_TYPES = ['gchar', 'guchar', 'gboolean', 'gint', 'guint', 'glong', 'gulong', 'gint64', 'guint64',
              'gfloat', 'gdouble', 'gchararray', 'gpointer', 'GType', 'GStrv', 'GHashTable', 'GByteArray',
              'GArray', 'GPtrArray', 'GObject', 'GInitiallyUnowned', 'GParam', 'GVariant', 'GValue',
              'GClosure', 'GError', 'GBytes', 'GParamFlags', 'GCancellable', 'GAsyncResult',
              'FooObj', 'FooEn', 'FooFl', 'FooBx', 'FooIfc', 'FooHidden', 'FooBare']
STR_DEFAULTS = [['s', None], ['s', ''], ['s', 'a b'], ['s', '<&>"\''], ['s', 'tab\there\nnl\\'],
                ['s', 'caf\u00e9'], ['s', 'NULL'], ['s', '0']]


def defaults_for(gtype):
    """The default-value texts gdump.c can print for a property of this type (value_to_string)."""
    if gtype == 'gchararray':
        return STR_DEFAULTS
    if gtype in ('gchar', 'gint', 'glong', 'gint64'):
        return [['v', '0'], ['v', '-1'], ['v', '2147483647']]
    if gtype in ('guchar', 'guint', 'gulong', 'guint64'):
        return [['v', '0'], ['v', '4294967295']]
    if gtype == 'gboolean':
        return [['v', 'TRUE'], ['v', 'FALSE']]
    if gtype in ('gfloat', 'gdouble'):
        return [['v', '0.000000'], ['v', '-1.500000']]
    if gtype == 'FooEn':
        return [['v', 'FOO_EN_A'], ['v', 'FOO_EN_B']]
    if gtype in ('FooFl', 'GParamFlags'):
        return [['v', 'FOO_FL_A | FOO_FL_B'], ['v', 'FOO_FL_A'], ['v', '0']]    # no bit set prints "0" (checked against GLib)
    return [None]          # pointer / boxed / object / variant / param defaults are NULL: no attribute


PROP_NAMES = ['x', 'some-prop', 'a1-b2-c3', 'name', 'type', 'flags']
HI = [0, 1 << 30, 1 << 31, 3 << 30]


def p_params(tier):
    # every flag word x owner x accessors declared (x a few types in the thorough tier)
    for owner in (0, 1):
        for acc in (0, 1):
            for ti in ((3, 2, 11, 30) if tier == 'thorough' else (3,)):
                for hi in HI:
                    for fl in range(256):
                        yield ('w', owner, acc, ti, fl | hi, 0)
    # every type spelling x every default text gdump.c can print for it x representative flag words
    words = [0, 1, 2, 3, 4, 8, 7, 11, 15, 12, 16, 224, 255, 227] if tier == 'thorough' else [0, 3, 7, 11, 255]
    for owner in (0, 1):
        for ti in range(len(PROP_TYPES)):
            for di in range(len(defaults_for(PROP_TYPES[ti]))):
                for fl in words:
                    yield ('t', owner, 0, ti, fl, di)
    # property names
    for owner in (0, 1):
        for ni in range(len(PROP_NAMES)):
            for fl in (0, 1, 2, 3, 15):
                yield ('n', owner, 0 if PROP_NAMES[ni] == 'type' else 1, ni, fl, 0)
    # three properties at once (no cross-talk): all ordered pairs of low nibbles + a fixed third
    for a in range(16):
        for b in range(16):
            yield ('3', 0, 0, a, b, 0)


def _support_types(lib):
    """Local types that property / signal types may name."""
    lib.register(dict(k='enum', name='FooEn', values=[['FOO_EN_A', 'a', 0], ['FOO_EN_B', 'b', 1]]))
    lib.decls.append(['enum', 'FooEn', [['FOO_EN_A', 0], ['FOO_EN_B', 1]]])
    lib.get_type('FooEn')
    lib.register(dict(k='flags', name='FooFl', values=[['FOO_FL_A', 'a', 1], ['FOO_FL_B', 'b', 2]]))
    lib.decls.append(['enum', 'FooFl', [['FOO_FL_A', 1], ['FOO_FL_B', 2]], True])
    lib.get_type('FooFl')
    lib.register(dict(k='boxed', name='FooBx'))
    lib.instance('FooBx', None, 'struct')
    lib.get_type('FooBx')
    lib.register(dict(k='boxed', name='FooBare'))
    lib.get_type('FooBare')
    lib.register(dict(k='object', name='FooHidden', parent='GObject'))


def p_build(p):
    mode, owner, acc, a, b, di = p
    lib = Lib(GIO if mode == 't' else GOBJ)
    if mode == 't':
        _support_types(lib)
    if mode == '3':
        props = [dict(name='first', type='gint', flags=a, default=['v', '0']),
                 dict(name='second-one', type='gchararray', flags=b, default=['s', None]),
                 dict(name='third', type='gboolean', flags=3, default=['v', 'FALSE'])]
    elif mode == 'n':
        props = [dict(name=PROP_NAMES[a], type='gint', flags=b, default=['v', '0']),
                 dict(name='zz', type='gint', flags=3, default=['v', '0'])]
    else:
        props = [dict(name='some-prop', type=PROP_TYPES[a], flags=b,
                      default=(defaults_for(PROP_TYPES[a])[di] if mode == 't' else ['v', '0']))]
    if owner == 0:
        lib.klass('FooObj', 'GObject', class_members=[], props=props)
        lib.iface('FooIfc')
        inst = 'FooObj*'
        pre = 'foo_obj_'
    else:
        lib.klass('FooObj', 'GObject', class_members=[])
        lib.iface('FooIfc', props=props)
        inst = 'FooIfc*'
        pre = 'foo_ifc_'
    if acc:
        nm = props[0]['name'].replace('-', '_')
        lib.func(pre + 'get_' + nm, 'int', [(inst, 'self')])
        lib.func(pre + 'set_' + nm, 'void', [(inst, 'self'), ('int', 'v')])
    return lib.scn


# ============================================================ S: signals ===
SIG_TYPES = ['gint', 'gchararray', 'FooObj', 'GObject', 'FooBx', 'FooHidden']
SIG_RET = ['void', 'gboolean', 'gint', 'gchararray', 'FooObj', 'GStrv']
WHEN = [0, G_SIGNAL_RUN_FIRST, G_SIGNAL_RUN_LAST, G_SIGNAL_RUN_CLEANUP, G_SIGNAL_MUST_COLLECT]
BOOLS = [G_SIGNAL_NO_RECURSE, G_SIGNAL_DETAILED, G_SIGNAL_ACTION, G_SIGNAL_NO_HOOKS]


def s_params(tier):
    maxp = 3 if tier == 'thorough' else 2
    plist = list(seqs(range(len(SIG_TYPES)), maxp))
    # every `when` x 4 boolean flags x return type x parameter list
    for owner in (0, 1):
        for wi in range(5):
            for bm in range(16):
                for ri in range(len(SIG_RET)):
                    for pi in range(len(plist)):
                        if tier != 'thorough':
                            # quick: all return types with 0-1 parameters; 2 parameters with `void` (class only)
                            if len(plist[pi]) > 1 and (owner == 1 or ri != 0):
                                continue
                        yield ('g', owner, wi, bm, ri, pi)
    # every signal flag word over the 9 low bits + G_SIGNAL_ACCUMULATOR_FIRST_RUN
    for owner in (0, 1):
        for word in range(512):
            for hi in (0, 1 << 17):
                for shape in ((0, 1, 2, 3) if tier == 'thorough' else (2, 3)):
                    yield ('w', owner, word | hi, shape, 0, 0)


def s_build(p):
    mode, owner = p[0], p[1]
    lib = Lib(GIO)
    _support_types(lib)
    if mode == 'g':
        _, _, wi, bm, ri, pi = p
        maxp = 3
        flags = WHEN[wi]
        for i in range(4):
            if bm & (1 << i):
                flags |= BOOLS[i]
        # rebuild the same list as s_params (index into the length-ordered sequence list)
        plist = _plist()
        params = [SIG_TYPES[i] for i in plist[pi]]
        sigs = [dict(name='some-signal', flags=flags, params=params)]
        sigs[0]['return'] = SIG_RET[ri]
    else:
        _, _, word, shape, _, _ = p
        shapes = [('void', []), ('gboolean', ['gint']), ('gint', ['FooObj', 'gchararray']),
                  ('void', ['GObject', 'gint', 'FooBx'])]
        r, ps = shapes[shape]
        sigs = [{'name': 'some-signal', 'return': r, 'flags': word, 'params': ps},
                {'name': 'other', 'return': 'void', 'flags': G_SIGNAL_RUN_LAST, 'params': []}]
    if owner == 0:
        lib.klass('FooObj', 'GObject', class_members=[], signals=sigs)
    else:
        lib.klass('FooObj', 'GObject', class_members=[])
        lib.iface('FooIfc', signals=sigs)
    return lib.scn


_PL = []


def _plist():
    if not _PL:
        _PL.extend(seqs(range(len(SIG_TYPES)), 3))
    return _PL


# ===================================================== V: virtual methods ===
def v_menu(gname):
    """Members of a class / interface structure; name encodes whether it is a vfunc."""
    o = gname + '*'
    return [
        ['cb', 'vf_a', 'void', [[o, 'self'], ['int', 'x']]],
        ['cb', 'vf_const', 'int', [['const ' + o, 'self']]],
        ['cb', 'no_params', 'void', []],
        ['cb', 'inst_second', 'void', [['int', 'x'], [o, 'self']]],
        ['cb', 'takes_gobject', 'void', [['GObject*', 'o']]],
        ['cb', 'takes_other', 'void', [['FooOther*', 'o'], ['int', 'x']]],
        ['f', 'vf_typedefd', 'FooVfTypedefd'],
        ['f', 'data', 'int'],
        ['cb', '_reserved', 'void', []],
        # underscore-named slots: a real virtual method (first parameter = instance) stays one; padding does not
        ['cb', '_flush_pending', 'void', [[o, 'self']]],
        ['cb', '_reserved_arg', 'void', [['int', 'x']]],
    ]


V_MENU_LEN = 11


def v_params(tier):
    maxlen = 3 if tier == 'thorough' else 2
    for owner in (0, 1, 2):
        for s in seqs(range(V_MENU_LEN), maxlen):
            if len(set(s)) != len(s):
                continue
            for suffix in ((0, 1) if owner == 1 else (0,)):
                for inst in ((0, 1, 2) if len(s) <= 1 else (0,)):
                    yield (owner, tuple(s), suffix, inst)


def v_build(p):
    owner, s, suffix, inst = p
    how = ['struct', 'opaque', 'none'][inst]
    lib = Lib(GIO)
    target = {0: 'FooObj', 1: 'FooIfc', 2: 'FooSub'}[owner]
    lib.decls.append(['callback', 'FooVfTypedefd', 'void', [[target + '*', 'self'], ['int', 'x']]])
    members = [v_menu(target)[i] for i in s]
    lib.klass('FooOther', 'GObject', class_members=[])
    if owner == 0:
        lib.klass('FooObj', 'GObject', class_members=members, instance=how)
    elif owner == 1:
        lib.iface('FooIfc', suffix=['Iface', 'Interface'][suffix], members=members, instance=how)
    else:
        lib.klass('FooObj', 'GObject', class_members=[['cb', 'base_vf', 'void', [['FooObj*', 'self']]]])
        lib.klass('FooSub', 'FooObj', instance=how,
                  class_members=members + [['cb', 'takes_base', 'void', [['FooObj*', 'b']]]])
    return lib.scn


# ========================================================== I: interfaces ===
I_CLASS = [None, 'GObject', 'FooObj', 'FooHid', 'GInitiallyUnowned', 'GCancellable']
I_IFACE = ['FooIfc2', 'GAsyncResult', 'FooHidIfc']


def i_params(tier):
    for ci in range(len(I_CLASS)):
        for im in range(8):
            for inc in (0, 1):
                for suffix in range(4):
                    for inst in (0, 1, 2):
                        for order in (0, 1):
                            yield (ci, im, inc, suffix, inst, order)


def i_build(p):
    ci, im, inc, suffix, inst, order = p
    lib = Lib(GIO if inc else GOBJ)
    pre = ([I_CLASS[ci]] if I_CLASS[ci] else []) + [I_IFACE[i] for i in range(3) if im & (1 << i)]
    if order:
        pre.reverse()
    lib.klass('FooObj', 'GObject', class_members=[])
    lib.klass('FooHid', 'GObject', public=False)
    lib.iface('FooIfc2')
    lib.register(dict(k='interface', name='FooHidIfc'))
    lib.iface('FooIfc', instance=['opaque', 'none', 'struct'][inst],
              suffix=[None, 'Iface', 'Interface', 'Iface+Interface'][suffix],
              members=[['cb', 'do_it', 'int', [['FooIfc*', 'self'], ['int', 'x']]],
                       ['cb', 'helper', 'void', [['int', 'x']]]],
              prereqs=pre)
    lib.func('foo_ifc_do_it', 'int', [('FooIfc*', 'self'), ('int', 'x')])
    return lib.scn


# ===================================================== B: boxed / pointer ===
B_DECL = ['struct', 'opaque', 'union', 'none', 'enum', 'callback']


def b_params(tier):
    for kind in ('boxed', 'pointer'):
        for decl in range(len(B_DECL)):
            for gsuf in (0, 1):
                for used in (0, 1):
                    for meth in (0, 1):
                        for second in (0, 1, 2):
                            yield (kind, decl, gsuf, used, meth, second)


def b_build(p):
    kind, decl, gsuf, used, meth, second = p
    lib = Lib(GOBJ)
    d = B_DECL[decl]
    lib.register(dict(k=kind, name='FooBx'))
    if d in ('struct', 'opaque'):
        lib.instance('FooBx', None, d)
    elif d == 'union':
        lib.decls.append(['typedef', 'FooBx', 'union _FooBx'])
        lib.decls.append(['union', '_FooBx', [['f', 'i', 'int'], ['f', 'p', 'gpointer']]])
    elif d == 'enum':
        lib.decls.append(['enum', 'FooBx', [['FOO_BX_A', 0]]])
    elif d == 'callback':
        lib.decls.append(['callback', 'FooBx', 'void', [['int', 'x']]])
    lib.get_type('FooBx', ['_get_type', '_get_gtype'][gsuf])
    if meth:
        lib.func('foo_bx_copy', 'gpointer', [('gpointer', 'b')])
        lib.func('foo_unrelated', 'void', [])
    if second == 1:
        lib.register(dict(k='boxed', name='FooBx2'))
        lib.instance('FooBx2', None, 'struct')
        lib.get_type('FooBx2')
    elif second == 2:
        # a struct with the right name that is NOT registered stays a plain record
        lib.instance('FooPlain', None, 'struct')
    props = [dict(name='bx', type='FooBx', flags=3)] if used else []
    lib.klass('FooObj', 'GObject', class_members=[], props=props)
    return lib.scn


# ========================================================= E: enum / flags ===
E_VALUES = [[], [['FOO_EN_A', 'a', 0]], [['FOO_EN_A', 'a', 0], ['FOO_EN_B_C', 'b-c', 1]],
            [['FOO_EN_A', 'a', 1], ['FOO_EN_B_C', 'b-c', 2], ['FOO_EN_HIGH', 'high', 0x80000000]],
            [['FOO_EN_NEG', 'neg', -1], ['FOO_EN_A', 'a', 0]]]


def e_params(tier):
    for kind in ('enum', 'flags'):
        for vi in range(len(E_VALUES)):
            for cdecl in (0, 1, 2):
                for gsuf in (0, 1):
                    for used in (0, 1):
                        yield (kind, vi, cdecl, gsuf, used)


def e_build(p):
    kind, vi, cdecl, gsuf, used = p
    lib = Lib(GOBJ)
    vals = E_VALUES[vi]
    lib.register(dict(k=kind, name='FooEn', values=vals))
    if cdecl and vals:
        lib.decls.append(['enum', 'FooEn', [[v[0], v[2] if v[2] < 0x80000000 else v[2]] for v in vals],
                          cdecl == 2])
    lib.get_type('FooEn', ['_get_type', '_get_gtype'][gsuf])
    props = [dict(name='en', type='FooEn', flags=3, default=['v', vals[0][0]] if vals else None)] if used else []
    lib.klass('FooObj', 'GObject', class_members=[], props=props)
    return lib.scn


# ========================================================= F: fundamental ===
F_BASE = ['root', 'local', 'hidden', 'GParam', 'gchararray', 'hidden2']


def f_params(tier):
    for base in range(len(F_BASE)):
        for afi in range(8):
            for ifs in range(4):
                for inst in (0, 1, 2):
                    for cs in (0, 1):
                        yield (base, afi, ifs, inst, cs)


def f_build(p):
    base, afi, ifs, inst, cs = p
    lib = Lib(GIO)
    b = F_BASE[base]
    parent = None
    parent_c = None
    if b == 'local':
        lib.register(dict(k='other', name='FooFundBase', instantiatable=True, abstract=True))
        lib.instance('FooFundBase', None, 'struct')
        lib.get_type('FooFundBase')
        parent = parent_c = 'FooFundBase'
    elif b == 'hidden':
        lib.register(dict(k='other', name='FooFundHid', instantiatable=True))
        parent = parent_c = 'FooFundHid'
    elif b == 'hidden2':
        lib.register(dict(k='other', name='FooFundBase', instantiatable=True, abstract=True))
        lib.instance('FooFundBase', None, 'struct')
        lib.get_type('FooFundBase')
        lib.register(dict(k='other', name='FooFundHid', parent='FooFundBase', instantiatable=True))
        parent = parent_c = 'FooFundHid'
    elif b == 'GParam':
        parent, parent_c = 'GParam', 'GParamSpec'
    elif b == 'gchararray':
        parent, parent_c = 'gchararray', None
    ifaces = [x for i, x in enumerate(['FooIfc', 'GAsyncResult']) if ifs & (1 << i)]
    t = dict(k='other', name='FooFund', abstract=bool(afi & 1), final=bool(afi & 2),
             instantiatable=bool(afi & 4), ifaces=ifaces)
    if parent:
        t['parent'] = parent
    lib.register(t)
    lib.instance('FooFund', parent_c or 'GTypeInstance', ['struct', 'opaque', 'none'][inst])
    if cs:
        lib.type_struct('FooFund', 'Class', 'GTypeClass',
                        [['cb', 'finalize', 'void', [['FooFund*', 'self']]],
                         ['cb', 'other', 'void', [['int', 'x']]]])
    lib.get_type('FooFund')
    if 'FooIfc' in ifaces:
        lib.iface('FooIfc')
    lib.klass('FooObj', 'GObject', class_members=[])
    return lib.scn


# ========================================================= Q: error quarks ===
DOMAINS = ['foo-my-error-quark', 'foo_my_error', 'x y<&>"']
Q_MY = ['cenum', 'registered', 'registered-odd-symbol', 'flags', 'absent', 'cflags']


def q_params(tier):
    for qset in (1, 2, 3):
        for my in range(len(Q_MY)):
            for other in (0, 1):
                for near in (0, 1):
                    for di in range(len(DOMAINS)):
                        for order in (0, 1):
                            yield (qset, my, other, near, di, order)


def q_build(p):
    qset, my, other, near, di, order = p
    lib = Lib(GOBJ)
    m = Q_MY[my]
    if m == 'cenum':
        lib.decls.append(['enum', 'FooMyError', [['FOO_MY_ERROR_A', 0], ['FOO_MY_ERROR_B', 1]]])
    elif m == 'cflags':
        lib.decls.append(['enum', 'FooMyError', [['FOO_MY_ERROR_A', 1], ['FOO_MY_ERROR_B', 2]], True])
    elif m in ('registered', 'registered-odd-symbol', 'flags'):
        lib.register(dict(k='flags' if m == 'flags' else 'enum', name='FooMyError',
                          values=[['FOO_MY_ERROR_A', 'a', 1], ['FOO_MY_ERROR_B', 'b', 2]]))
        lib.decls.append(['enum', 'FooMyError', [['FOO_MY_ERROR_A', 1], ['FOO_MY_ERROR_B', 2]], m == 'flags'])
        lib.get_type('FooMyError', symbol='foo_myerror_get_type' if m == 'registered-odd-symbol' else None)
    if other:
        lib.new_block()
        lib.decls.append(['enum', 'FooOtherError', [['FOO_OTHER_ERROR_A', 0]]])
    if near:
        lib.new_block()
        lib.decls.append(['enum', 'FooMyErr', [['FOO_MY_ERR_A', 0]]])
        lib.decls.append(['enum', 'FooError', [['FOO_ERROR_A', 0]]])
    lib.new_block()
    if qset & 1:
        lib.func('foo_my_error_quark', 'GQuark', [])
        lib.scn['quarks']['foo_my_error_quark'] = DOMAINS[di]
    if qset & 2:
        lib.func('foo_other_error_quark', 'GQuark', [])
        lib.scn['quarks']['foo_other_error_quark'] = 'foo-other-error-quark'
    lib.new_block()
    lib.klass('FooObj', 'GObject', class_members=[])
    return lib.finish(reverse=bool(order))


# ============================ N: CamelCase names of error enumerations ===
# FooDBusError <-> foo_dbus_error_quark etc.: consecutive capitals, digits, acronym runs
N_NAMES = ['ParseError', 'DBusError', 'URIError', 'IOError', 'X11Error', 'Error2', 'HTTPSError', 'Utf8Error',
           'GLError', 'Base64URLError']
N_KIND = ['cenum', 'registered', 'registered-odd-symbol', 'flags']
N_QUARK = ['match', 'each-capital', 'other', 'joined']


def n_params(tier):
    for ni in range(len(N_NAMES)):
        for ki in range(len(N_KIND)):
            for qi in range(len(N_QUARK)):
                if N_QUARK[qi] == 'each-capital' and uscore(N_NAMES[ni]) == snake(N_NAMES[ni]):
                    continue                      # same spelling as 'match'
                for decoy in (0, 1, 2):
                    for di in (0, 1):
                        for order in (0, 1):
                            yield (ni, ki, qi, decoy, di, order)


def n_build(p):
    ni, ki, qi, decoy, di, order = p
    name, kind = N_NAMES[ni], N_KIND[ki]
    cname = PREFIX + name
    up = snake(name).upper()
    lib = Lib(GOBJ)
    mem = [['FOO_%s_A' % up, 1], ['FOO_%s_B' % up, 2]]
    if kind == 'cenum':
        lib.decls.append(['enum', cname, mem])
    else:
        lib.register(dict(k='flags' if kind == 'flags' else 'enum', name=cname,
                          values=[[mem[0][0], 'a', 1], [mem[1][0], 'b', 2]]))
        lib.decls.append(['enum', cname, mem, kind == 'flags'])
        lib.get_type(cname, symbol=('foo_%s_get_type' % snake(name)) if kind != 'registered-odd-symbol'
                     else 'foo_%s_get_type' % name.lower())
    lib.new_block()
    if decoy == 1:
        lib.decls.append(['enum', 'FooOtherError', [['FOO_OTHER_ERROR_A', 0]]])
    elif decoy == 2:
        # a second plain enumeration with a conventional name and its own quark function
        lib.decls.append(['enum', 'FooSecondError', [['FOO_SECOND_ERROR_A', 0]]])
        lib.func('foo_second_error_quark', 'GQuark', [])
        lib.scn['quarks']['foo_second_error_quark'] = 'foo-second-error-quark'
    lib.new_block()
    stem = {'match': snake(name), 'each-capital': uscore(name), 'other': 'unrelated_error',
            'joined': name.lower()}[N_QUARK[qi]]
    lib.func('foo_%s_quark' % stem, 'GQuark', [])
    lib.scn['quarks']['foo_%s_quark' % stem] = DOMAINS[di]
    lib.new_block()
    lib.klass('FooObj', 'GObject', class_members=[])
    return lib.finish(reverse=bool(order))


# ================================================ U: out-of-format dumps ===
# Things gdump.c can never print; executed for robustness, every touched fact UNSPECIFIED.
U_PATCH = [
    ([[' abstract="1"', ' abstract="0"']], ['class:Obj@abstract']),
    ([[' final="1"', ' final="0"']], ['class:Obj@final']),
    ([[' abstract="1"', ' abstract=""']], ['class:Obj@abstract']),
    ([[' detailed="1"', ' detailed="true"']], ['class:Obj/signal:']),
    ([[' when="last"', ' when="never"']], ['class:Obj/signal:']),
    ([[' flags="3"', ' flags="0x3"']], ['*']),
    ([[' parents="GObject"', '']], ['class:Obj@parent']),
    ([[' parents="GObject"', ' parents=""']], ['class:Obj@parent']),
]


def u_params(tier):
    for i in range(len(U_PATCH)):
        for af in range(4):
            yield (i, af)
    for j in range(3):
        yield ('name', j)


def u_build(p):
    lib = Lib(GOBJ)
    if p[0] == 'name':
        # a local get-type function returning a type whose name lacks the namespace prefix
        lib.klass('FooObj', 'GObject', class_members=[])
        lib.decls.append(['func', 'foo_thing_get_type', 'GType', []])
        lib.scn['symbols']['foo_thing_get_type'] = ['BarThing', 'Thing', 'fooThing'][p[1]]
        lib.register(dict(k=['object', 'boxed', 'enum'][p[1]], name=['BarThing', 'Thing', 'fooThing'][p[1]],
                          **({'parent': 'GObject'} if p[1] == 0 else {})))
        lib.scn['unspec'] = ['*']
        return lib.scn
    i, af = p
    lib.klass('FooObj', 'GObject', class_members=[], abstract=bool(af & 1), final=bool(af & 2),
              props=[dict(name='p', type='gint', flags=3)],
              signals=[{'name': 's', 'return': 'void', 'flags': G_SIGNAL_RUN_LAST | G_SIGNAL_DETAILED, 'params': []}])
    lib.scn['patch'] = U_PATCH[i][0]
    lib.scn['unspec'] = U_PATCH[i][1]
    return lib.scn


# ============================================================== M: mixed ===
def m_params(tier):
    mids = ['', 'L', 'H', 'HL', 'LH', 'SH'] if tier == 'thorough' else ['', 'H', 'HL']
    for mi in mids:
        for top in FOREIGN_TOP:
            for fl in (0, 1, 2, 3, 7, 11, 15, 255):
                for wi in range(5):
                    for bm in ((0, 5, 10, 15) if tier != 'thorough' else range(16)):
                        for q in (0, 1):
                            yield (mi, top, fl, wi, bm, q)


def m_build(p):
    mi, top, fl, wi, bm, q = p
    scn = h_build((mi, top, 1, 1, 5, 0, 0))
    lib = Lib(GIO, scn)
    _support_types(lib)
    flags = WHEN[wi]
    for i in range(4):
        if bm & (1 << i):
            flags |= BOOLS[i]
    for t in scn['types']:
        if t['name'] == 'FooObj':
            t['props'] = [dict(name='alpha', type='FooBx', flags=fl),
                          dict(name='beta', type='FooEn', flags=fl ^ 15, default=['v', 'FOO_EN_B'])]
            t['signals'] = [{'name': 'changed', 'return': 'void', 'flags': flags, 'params': ['FooObj', 'FooFl']}]
    if q:
        lib.decls.append(['enum', 'FooMyError', [['FOO_MY_ERROR_A', 0]]])
        lib.func('foo_my_error_quark', 'GQuark', [])
        scn['quarks']['foo_my_error_quark'] = 'foo-my-error'
    return scn


FAMILIES = [
    ('H', h_params, h_build, 'parent chains: intermediates local/hidden/struct-only/other-library x foreign top x '
                             'includes x abstract/final x implements placement x declaration order'),
    ('P', p_params, p_build, 'properties: every flag word 0..255 (x bits 30/31) x owner x accessors; every GType '
                             'spelling x every default value'),
    ('S', s_params, s_build, 'signals: every when x 4 boolean flags x return x 0-2(3) params; every 9-bit flag word'),
    ('V', v_params, v_build, 'class/interface structure members -> virtual methods'),
    ('I', i_params, i_build, 'interfaces: prerequisites, structure suffix, instance typedef'),
    ('B', b_params, b_build, 'boxed/pointer with and without same-named struct/union'),
    ('E', e_params, e_build, 'enum/flags'),
    ('F', f_params, f_build, 'non-GObject fundamentals'),
    ('Q', q_params, q_build, 'error quarks vs enum names'),
    ('N', n_params, n_build, 'error enumeration names with acronyms/digits x plain/registered/odd symbol/flags x quark '
                             'function spelled conventionally / cut at every capital / unrelated / without underscores'),
    ('M', m_params, m_build, 'mixed: chain + properties + signal + boxed + quark in one namespace'),
    ('U', u_params, u_build, 'out-of-format dumps (UNSPECIFIED)'),
]
