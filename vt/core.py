"""Shared runner machinery: evidence files, violation/known-finding handling,
replay files and a fork-based partitioned map.

Every check module in vt/checks/ exposes

    run(ctx)            explore; call ctx.violation(...) for each disagreement
    replay(ctx, obj)    re-execute one recorded case (obj = parsed replay file)

and the generic driver in ./check does the rest.
"""
import hashlib
import json
import multiprocessing
import os
import sys
import time
import traceback

ROOT = os.path.dirname(os.path.dirname(os.path.abspath(__file__)))
REPO = os.environ.get('VERIF_REPO', '/repo')
NCPU = int(os.environ.get('VERIF_JOBS', '0')) or min(16, os.cpu_count() or 1)


class HarnessBroken(Exception):
    """The harness (not the property) failed: exit 2, no verdict."""


def stable_hash(obj):
    return hashlib.sha1(json.dumps(obj, sort_keys=True, default=repr).encode()).hexdigest()


class Ctx(object):
    def __init__(self, pid, tier, seed, level='model_checking'):
        self.pid = pid
        self.tier = tier
        self.seed = seed
        self.level = level
        self.t0 = time.time()
        self.cov = {
            'evaluations': 0, 'distinct_nontrivial': 0, 'states': 0, 'transitions': 0,
            'traces_validated_against_impl': 0, 'samples': [], 'exhaustive': True,
            'rule': '', 'bounds': {}, 'caps_hit': [], 'distinct_outcomes': 0,
            'unspecified': 0,
        }
        self.assumptions = []
        self.violations = []       # (key, desc, replay_obj)
        self.known_hits = {}       # key -> what
        self._outcomes = set()
        self._nontrivial = set()
        self._samples_pool = []
        self.known = load_known_findings().get(pid, [])
        self.max_reports = int(os.environ.get("VERIF_MAXREPORT", "20"))

    # ---- counters -------------------------------------------------------
    def add(self, **kw):
        for k, v in kw.items():
            self.cov[k] = self.cov.get(k, 0) + v

    def set(self, **kw):
        self.cov.update(kw)

    def outcome(self, o):
        self._outcomes.add(o if isinstance(o, (str, int, tuple)) else stable_hash(o))

    def nontrivial(self, key):
        self._nontrivial.add(key if isinstance(key, (str, int, tuple)) else stable_hash(key))

    def sample(self, s):
        """Offer a case for the evidence 'samples' list (a bounded pool is kept)."""
        if len(self._samples_pool) < 400:
            self._samples_pool.append(s)

    def merge(self, part):
        """Merge a worker's partial result (dict produced by Part.result())."""
        for k, v in part.get('counts', {}).items():
            self.cov[k] = self.cov.get(k, 0) + v
        self._outcomes.update(part.get('outcomes', ()))
        self._nontrivial.update(part.get('nontrivial', ()))
        for s in part.get('samples', ()):
            self.sample(s)
        for v in part.get('violations', ()):
            self.violation(*v)
        for c in part.get('caps', ()):
            self.cap(c)

    def cap(self, what):
        self.cov['exhaustive'] = False
        if what not in self.cov['caps_hit']:
            self.cov['caps_hit'].append(what)

    # ---- violations -----------------------------------------------------
    def violation(self, key, desc, replay_obj):
        """key: stable identifier of the specific failing input / call site."""
        for k in self.known:
            if k['key'] == key:
                self.known_hits[key] = k.get('what', desc)
                return
        self.violations.append((key, desc, replay_obj))

    def finish(self):
        cov = self.cov
        cov['distinct_outcomes'] = len(self._outcomes)
        cov['distinct_nontrivial'] = len(self._nontrivial) if self._nontrivial else cov.get('distinct_nontrivial', 0)
        pool = self._samples_pool
        if pool:
            n = min(6, len(pool))
            step = max(1, len(pool) // n)
            off = self.seed % step if step > 1 else 0
            cov['samples'] = [pool[(off + i * step) % len(pool)] for i in range(n)]
        cov['known_findings_hit'] = sorted(self.known_hits)
        # de-duplicate violations by key
        seen = {}
        for key, desc, obj in self.violations:
            seen.setdefault(key, (desc, obj))
        nviol = len(seen)
        rdir = os.path.join(ROOT, 'replays', self.pid)
        lines = []
        if seen:
            os.makedirs(rdir, exist_ok=True)
        for i, (key, (desc, obj)) in enumerate(sorted(seen.items())):
            if i >= self.max_reports:
                break
            path = os.path.join(rdir, '%s.json' % hashlib.sha1(key.encode()).hexdigest()[:12])
            with open(path, 'w') as f:
                json.dump({'property': self.pid, 'key': key, 'desc': desc, 'case': obj}, f, indent=1, default=repr)
            lines.append('VIOLATION property=%s replay=%s' % (self.pid, os.path.relpath(path, ROOT)))
            print('  # %s: %s' % (key, desc))
        for key in sorted(self.known_hits):
            print('KNOWN-FINDING: property=%s %s' % (self.pid, self.known_hits[key]))
        for l in lines:
            print(l)
        ev = {
            'property_id': self.pid, 'tier': self.tier, 'seed': self.seed, 'level': self.level,
            'coverage': cov, 'assumptions': self.assumptions,
            'wall_s': round(time.time() - self.t0, 3), 'violations': nviol,
        }
        # VERIF_EVIDENCE_DIR: used by tools/seedcheck.sh so that runs against modified trees do not
        # overwrite the evidence of the run against /repo
        evdir = os.environ.get('VERIF_EVIDENCE_DIR') or os.path.join(ROOT, 'evidence')
        os.makedirs(evdir, exist_ok=True)
        tmp = os.path.join(evdir, '.%s.json.tmp' % self.pid)
        with open(tmp, 'w') as f:
            json.dump(ev, f, indent=1, default=repr, sort_keys=True)
            f.write('\n')
        os.replace(tmp, os.path.join(evdir, '%s.json' % self.pid))
        print('%s tier=%s evaluations=%d states=%d transitions=%d traces=%d outcomes=%d nontrivial=%d exhaustive=%s violations=%d known=%d wall=%.1fs' % (
            self.pid, self.tier, cov['evaluations'], cov['states'], cov['transitions'],
            cov['traces_validated_against_impl'], cov['distinct_outcomes'], cov['distinct_nontrivial'],
            cov['exhaustive'], nviol, len(self.known_hits), time.time() - self.t0))
        return 1 if nviol else 0


class Part(object):
    """Accumulator used inside worker processes; merged into Ctx by Ctx.merge."""

    def __init__(self):
        self.counts = {}
        self.outcomes = set()
        self.nontriv = set()
        self.samples = []
        self.violations = []
        self.caps = []

    def add(self, **kw):
        for k, v in kw.items():
            self.counts[k] = self.counts.get(k, 0) + v

    def outcome(self, o):
        self.outcomes.add(o if isinstance(o, (str, int, tuple)) else stable_hash(o))

    def nontrivial(self, key):
        self.nontriv.add(key if isinstance(key, (str, int, tuple)) else stable_hash(key))

    def sample(self, s, every=1):
        if len(self.samples) < 12:
            self.samples.append(s)

    def violation(self, key, desc, obj):
        if len(self.violations) < 50:
            self.violations.append((key, desc, obj))

    def cap(self, what):
        self.caps.append(what)

    def result(self):
        return {'counts': self.counts, 'outcomes': self.outcomes, 'nontrivial': self.nontriv,
                'samples': self.samples, 'violations': self.violations, 'caps': self.caps}


def load_known_findings():
    path = os.path.join(ROOT, 'known_findings.json')
    out = {}
    try:
        with open(path) as f:
            data = json.load(f)
    except FileNotFoundError:
        return out
    for e in data.get('findings', []):
        out.setdefault(e['property'], []).append(e)
    return out


def _worker(args):
    func, chunk = args
    try:
        return func(chunk)
    except BaseException:
        return {'error': traceback.format_exc()}


def pmap(func, chunks, jobs=None):
    """Run func(chunk) for each chunk in forked worker processes; yield results in order.
    func must be a module-level function returning Part.result() (a picklable dict)."""
    chunks = list(chunks)
    jobs = jobs or NCPU
    if jobs <= 1 or len(chunks) <= 1:
        for c in chunks:
            r = _worker((func, c))
            if 'error' in r:
                raise HarnessBroken(r['error'])
            yield r
        return
    mpctx = multiprocessing.get_context('fork')
    with mpctx.Pool(min(jobs, len(chunks))) as pool:
        for r in pool.imap(_worker, [(func, c) for c in chunks]):
            if 'error' in r:
                raise HarnessBroken(r['error'])
            yield r


def chunked(seq, n):
    seq = list(seq)
    k = max(1, (len(seq) + n - 1) // n)
    return [seq[i:i + k] for i in range(0, len(seq), k)]


def rotate(seq, seed):
    """Seed only rotates the order in which partitions are dispatched."""
    seq = list(seq)
    if not seq:
        return seq
    r = seed % len(seq)
    return seq[r:] + seq[:r]


def main(argv):
    import argparse
    import importlib
    ap = argparse.ArgumentParser()
    ap.add_argument('pid')
    ap.add_argument('--tier', default=os.environ.get('VERIF_TIER', 'quick'), choices=['quick', 'thorough'])
    ap.add_argument('--replay')
    args = ap.parse_args(argv)
    seed = int(os.environ.get('VERIF_SEED', '0') or 0)
    pid = args.pid.upper()
    try:
        mod = importlib.import_module('vt.checks.%s' % pid.lower())
    except ImportError:
        traceback.print_exc()
        print('no check for %s' % pid)
        return 2
    ctx = Ctx(pid, args.tier, seed, getattr(mod, 'LEVEL', 'model_checking'))
    try:
        if args.replay:
            with open(args.replay) as f:
                obj = json.load(f)
            ok = mod.replay(ctx, obj['case'] if 'case' in obj else obj)
            if ok:
                print('replay: property holds on this case')
                return 0
            print('VIOLATION property=%s replay=%s' % (pid, args.replay))
            return 1
        mod.run(ctx)
        return ctx.finish()
    except HarnessBroken as e:
        print('HARNESS-BROKEN %s: %s' % (pid, e))
        return 2
    except Exception:
        traceback.print_exc()
        print('HARNESS-BROKEN %s: unexpected exception' % pid)
        return 2
