"""C09 - the repository API and g-ir-generate report what the typelib contains.

For every typelib compiled from the exhaustive entry generators (vt/c/gens.py: all
container kinds with all combinations of empty/non-empty member sections, odd interface
counts, embedded callback fields, attributes on any node):
  (a) vt/c/drv_walk.c loads it through g_irepository_require and calls EVERY public
      accessor, printing one canonical line per fact; the same facts are computed from
      the bytes by the independent decoder (vt/typelib.py -> vt/c/walkmodel.py); the two
      must be identical;
  (b) the GIR text written by g-ir-generate for the same typelib is parsed with
      ElementTree and must describe the same API as the decoded bytes.
"""
import os
import subprocess
import xml.etree.ElementTree as ET

from vt import girgen, typelib
from vt.c import build as cbuild, gens, tools, walkmodel
from vt.checks.c06 import make_doc, batch_keys
from vt.core import Part, pmap, chunked, rotate, HarnessBroken

LEVEL = 'model_checking'
BATCH = 25
CORE = '{http://www.gtk.org/introspection/core/1.0}'
CNS = '{http://www.gtk.org/introspection/c/1.0}'
GLIB = '{http://www.gtk.org/introspection/glib/1.0}'

KIND_TAG = {'function': 'function', 'callback': 'callback', 'struct': 'record', 'boxed': 'glib:boxed',
            'enum': 'enumeration', 'flags': 'bitfield', 'object': 'class', 'interface': 'interface',
            'constant': 'constant', 'union': 'union'}


def qn(tag):
    return tag.replace(CORE, '').replace(GLIB, 'glib:').replace(CNS, 'c:')


def attr(el, name):
    if name.startswith('glib:'):
        return el.get(GLIB + name[5:])
    if name.startswith('c:'):
        return el.get(CNS + name[2:])
    return el.get(name)


# ----------------------------------------------- g-ir-generate comparison ---
def gen_callable(path, el, sig, diffs, ns):
    rv = el.find(CORE + 'return-value')
    if rv is None:
        diffs.append('%s: no <return-value>' % path)
        return
    tr = 'full' if sig['caller_owns_return_value'] else ('container' if sig['caller_owns_return_container'] else 'none')
    if rv.get('transfer-ownership') != tr:
        diffs.append('%s: return transfer-ownership %r, typelib says %r' % (path, rv.get('transfer-ownership'), tr))
    if (rv.get('allow-none') == '1' or rv.get('nullable') == '1') != bool(sig['may_return_null']):
        diffs.append('%s: return nullability %r/%r, typelib says %r' % (path, rv.get('allow-none'), rv.get('nullable'), sig['may_return_null']))
    if (rv.get('skip') == '1') != bool(sig['skip_return']):
        diffs.append('%s: return skip %r, typelib says %r' % (path, rv.get('skip'), sig['skip_return']))
    gen_type(path + '/return', rv, sig['return_type'], diffs, ns)
    ps = el.find(CORE + 'parameters')
    params = [] if ps is None else ps.findall(CORE + 'parameter')
    if len(params) != len(sig['args']):
        diffs.append('%s: %d <parameter>, typelib has %d arguments' % (path, len(params), len(sig['args'])))
        return
    for p, a in zip(params, sig['args']):
        pp = '%s/%s' % (path, a['name'])
        if p.get('name') != a['name']:
            diffs.append('%s: parameter name %r' % (pp, p.get('name')))
        tr = 'full' if a['transfer_ownership'] else ('container' if a['transfer_container_ownership'] else 'none')
        if p.get('transfer-ownership') != tr:
            diffs.append('%s: transfer-ownership %r, typelib says %r' % (pp, p.get('transfer-ownership'), tr))
        d = 'inout' if (a['in'] and a['out']) else ('out' if a['out'] else 'in')
        if (p.get('direction') or 'in') != d:
            diffs.append('%s: direction %r, typelib says %r' % (pp, p.get('direction'), d))
        if (p.get('allow-none') == '1' or p.get('nullable') == '1') != bool(a['nullable']):
            diffs.append('%s: nullability %r, typelib says %r' % (pp, p.get('allow-none'), a['nullable']))
        if (p.get('optional') == '1') != bool(a['optional']):
            diffs.append('%s: optional %r, typelib says %r' % (pp, p.get('optional'), a['optional']))
        if (p.get('skip') == '1') != bool(a['skip']):
            diffs.append('%s: skip %r, typelib says %r' % (pp, p.get('skip'), a['skip']))
        sc = a['scope'] if a['scope'] != 'invalid' else None
        if p.get('scope') != sc:
            diffs.append('%s: scope %r, typelib says %r' % (pp, p.get('scope'), sc))
        for k in ('closure', 'destroy'):
            want = None if a[k] < 0 else str(a[k])
            if p.get(k) != want:
                diffs.append('%s: %s %r, typelib says %r' % (pp, k, p.get(k), want))
        gen_type(pp, p, a['type'], diffs, ns)


GEN_TYPE_NAMES = {'void': 'none', 'gboolean': 'gboolean', 'gint8': 'gint8', 'guint8': 'guint8', 'gint16': 'gint16',
                  'guint16': 'guint16', 'gint32': 'gint32', 'guint32': 'guint32', 'gint64': 'gint64',
                  'guint64': 'guint64', 'gfloat': 'gfloat', 'gdouble': 'gdouble', 'GType': 'GType', 'utf8': 'utf8',
                  'filename': 'filename', 'gunichar': 'gunichar'}


def gen_type(path, holder, t, diffs, ns):
    """holder: element containing <type> or <array>"""
    el = None
    for k in holder:
        if qn(k.tag) in ('type', 'array'):
            el = k
            break
    if el is None:
        diffs.append('%s: no <type>/<array> child' % path)
        return
    tag = t['tag']
    if tag == 'array':
        if qn(el.tag) != 'array':
            diffs.append('%s: typelib says array, generated <%s>' % (path, qn(el.tag)))
            return
        if t['has_length'] and el.get('length') != str(t['length']):
            diffs.append('%s: array length %r, typelib says %r' % (path, el.get('length'), t['length']))
        if t['has_size'] and el.get('fixed-size') != str(t['size']):
            diffs.append('%s: array fixed-size %r, typelib says %r' % (path, el.get('fixed-size'), t['size']))
        if (el.get('zero-terminated') == '1') != bool(t['zero_terminated']):
            diffs.append('%s: array zero-terminated %r, typelib says %r' % (path, el.get('zero-terminated'), t['zero_terminated']))
        gen_type(path + '/elem', el, t['elem'], diffs, ns)
        return
    if qn(el.tag) != 'type':
        diffs.append('%s: typelib says %s, generated <%s>' % (path, tag, qn(el.tag)))
        return
    name = el.get('name')
    if tag == 'interface':
        ref = t['interface']
        want = ref if (ref and '.' in ref) else ref
        # g-ir-generate qualifies foreign names and leaves local ones bare
        # (a by-name reference into the namespace itself - local type reached through an <alias> - names the local entry)
        if name not in (want, '%s.%s' % (ns, want)) and want != '%s.%s' % (ns, name):
            diffs.append('%s: type name %r, typelib says interface %r' % (path, name, ref))
    elif tag in ('glist', 'gslist', 'ghash', 'error'):
        want = {'glist': 'GLib.List', 'gslist': 'GLib.SList', 'ghash': 'GLib.HashTable', 'error': 'GLib.Error'}[tag]
        if name != want:
            diffs.append('%s: type name %r, typelib says %s' % (path, name, want))
        if tag != 'error':
            kids = [k for k in el if qn(k.tag) in ('type', 'array')]
            if len(kids) != len(t['params']):
                diffs.append('%s: %d type parameters, typelib has %d' % (path, len(kids), len(t['params'])))
    else:
        want = GEN_TYPE_NAMES.get(tag)
        if tag == 'void' and t.get('pointer'):
            want = 'gpointer'
        if want is not None and name != want and not (tag == 'void' and name in ('none', 'gpointer', 'any')):
            diffs.append('%s: type name %r, typelib says %s' % (path, name, want))


def gen_function(path, el, f, diffs, ns):
    if attr(el, 'c:identifier') != f['symbol']:
        diffs.append('%s: c:identifier %r, typelib says %r' % (path, attr(el, 'c:identifier'), f['symbol']))
    if (el.get('deprecated') == '1') != bool(f['deprecated']):
        diffs.append('%s: deprecated %r, typelib says %r' % (path, el.get('deprecated'), f['deprecated']))
    throws = f['throws'] or f['signature']['throws']
    if (el.get('throws') == '1') != bool(throws):
        diffs.append('%s: throws %r, typelib says %r' % (path, el.get('throws'), throws))
    gen_callable(path, el, f['signature'], diffs, ns)


def method_tag(f):
    if f['constructor']:
        return 'constructor'
    return 'function' if f['is_static'] else 'method'


def gen_methods(path, el, e, diffs, ns):
    got = [k for k in el if qn(k.tag) in ('function', 'method', 'constructor')]
    want = e.get('methods', [])
    if sorted(k.get('name') for k in got) != sorted(m['name'] for m in want):
        diffs.append('%s: methods %r, typelib has %r' % (path, sorted(k.get('name') for k in got), sorted(m['name'] for m in want)))
        return
    byname = {k.get('name'): k for k in got}
    for m in want:
        k = byname[m['name']]
        if qn(k.tag) != method_tag(m):
            diffs.append('%s/%s: written as <%s>, typelib flags say <%s>' % (path, m['name'], qn(k.tag), method_tag(m)))
        gen_function('%s/%s' % (path, m['name']), k, m, diffs, ns)


def gen_fields(path, el, e, diffs, ns):
    got = [k for k in el if qn(k.tag) == 'field']
    want = e.get('fields', [])
    if [k.get('name') for k in got] != [f['name'] for f in want]:
        diffs.append('%s: fields %r, typelib has %r' % (path, [k.get('name') for k in got], [f['name'] for f in want]))
        return
    for k, f in zip(got, want):
        pp = '%s/%s' % (path, f['name'])
        if (k.get('readable') != '0') != bool(f['readable']):
            diffs.append('%s: readable %r, typelib says %r' % (pp, k.get('readable'), f['readable']))
        if (k.get('writable') == '1') != bool(f['writable']):
            diffs.append('%s: writable %r, typelib says %r' % (pp, k.get('writable'), f['writable']))
        if 'callback' in f:
            cb = k.find(CORE + 'callback')
            if cb is None:
                diffs.append('%s: embedded callback missing' % pp)
            else:
                gen_callable(pp, cb, f['callback']['signature'], diffs, ns)
        else:
            cb = k.find(CORE + 'callback')
            if cb is not None and f['type'].get('tag') == 'interface' and \
                    (f['type'].get('interface') or '').split('.')[-1] == cb.get('name'):
                # g-ir-generate expands a field typed with a (named) callback into an inline <callback> carrying the
                # callback's name; whether that or a <type> reference is written is not fixed by the statement
                continue
            gen_type(pp, k, f['type'], diffs, ns)


def gen_props(path, el, e, diffs, ns):
    got = [k for k in el if qn(k.tag) == 'property']
    want = e.get('properties', [])
    if sorted(k.get('name') for k in got) != sorted(p['name'] for p in want):
        diffs.append('%s: properties %r, typelib has %r' % (path, sorted(k.get('name') for k in got), sorted(p['name'] for p in want)))
        return
    byname = {k.get('name'): k for k in got}
    ms = e.get('methods', [])
    for p in want:
        k = byname[p['name']]
        pp = '%s:%s' % (path, p['name'])
        for a, b in (('writable', 'writable'), ('construct', 'construct'), ('construct-only', 'construct_only')):
            if (k.get(a) == '1') != bool(p[b]):
                diffs.append('%s: %s %r, typelib says %r' % (pp, a, k.get(a), p[b]))
        if (k.get('readable') != '0') != bool(p['readable']):
            diffs.append('%s: readable %r, typelib says %r' % (pp, k.get('readable'), p['readable']))
        if (k.get('deprecated') == '1') != bool(p['deprecated']):
            diffs.append('%s: deprecated %r, typelib says %r' % (pp, k.get('deprecated'), p['deprecated']))
        tr = 'full' if p['transfer_ownership'] else ('container' if p['transfer_container_ownership'] else 'none')
        if k.get('transfer-ownership') != tr:
            diffs.append('%s: transfer-ownership %r, typelib says %r' % (pp, k.get('transfer-ownership'), tr))
        for acc in ('setter', 'getter'):
            want_acc = ms[p[acc]]['name'] if p[acc] != 0x3ff and p[acc] < len(ms) else None
            if acc == 'setter' and (not p['writable'] or p['construct_only']):
                want_acc = None      # documented: no setter for read-only / construct-only properties
            if acc == 'getter' and not p['readable']:
                want_acc = None
            if k.get(acc) != want_acc:
                diffs.append('%s: %s %r, typelib says %r' % (pp, acc, k.get(acc), want_acc))
        gen_type(pp, k, p['type'], diffs, ns)


def gen_signals(path, el, e, diffs, ns):
    got = [k for k in el if qn(k.tag) == 'glib:signal']
    want = e.get('signals', [])
    if sorted(k.get('name') for k in got) != sorted(s['name'] for s in want):
        diffs.append('%s: signals %r, typelib has %r' % (path, sorted(k.get('name') for k in got), sorted(s['name'] for s in want)))
        return
    byname = {k.get('name'): k for k in got}
    for s in want:
        k = byname[s['name']]
        pp = '%s::%s' % (path, s['name'])
        when = 'FIRST' if s['run_first'] else ('LAST' if s['run_last'] else ('CLEANUP' if s['run_cleanup'] else None))
        if (k.get('when') or '').upper() != (when or ''):
            diffs.append('%s: when %r, typelib says %r' % (pp, k.get('when'), when))
        for a, b in (('no-recurse', 'no_recurse'), ('detailed', 'detailed'), ('action', 'action'), ('no-hooks', 'no_hooks')):
            if (k.get(a) == '1') != bool(s[b]):
                diffs.append('%s: %s %r, typelib says %r' % (pp, a, k.get(a), s[b]))
        if (k.get('deprecated') == '1') != bool(s['deprecated']):
            diffs.append('%s: deprecated %r, typelib says %r' % (pp, k.get('deprecated'), s['deprecated']))
        gen_callable(pp, k, s['signature'], diffs, ns)


def gen_vfuncs(path, el, e, diffs, ns):
    got = [k for k in el if qn(k.tag) == 'virtual-method']
    want = e.get('vfuncs', [])
    if sorted(k.get('name') for k in got) != sorted(s['name'] for s in want):
        diffs.append('%s: vfuncs %r, typelib has %r' % (path, sorted(k.get('name') for k in got), sorted(s['name'] for s in want)))
        return
    byname = {k.get('name'): k for k in got}
    ms = e.get('methods', [])
    for v in want:
        k = byname[v['name']]
        pp = '%s.vfunc %s' % (path, v['name'])
        inv = ms[v['invoker']]['name'] if v['invoker'] != 0x3ff and v['invoker'] < len(ms) else None
        if k.get('invoker') != inv:
            diffs.append('%s: invoker %r, typelib says %r' % (pp, k.get('invoker'), inv))
        off = None if v['struct_offset'] == 0xFFFF else str(v['struct_offset'])
        # 0xFFFF is the documented 'unknown offset' marker; writing it out literally is equivalent to omitting it
        if k.get('offset') != off and not (off is None and k.get('offset') == '65535'):
            diffs.append('%s: offset %r, typelib says %r' % (pp, k.get('offset'), off))
        throws = v['throws'] or v['signature']['throws']
        if (k.get('throws') == '1') != bool(throws):
            diffs.append('%s: throws %r, typelib says %r' % (pp, k.get('throws'), throws))
        gen_callable(pp, k, v['signature'], diffs, ns)


def gen_constant(path, el, c, diffs, ns):
    v = c['value']
    tag = c['type']['tag']
    got = el.get('value')
    if tag in ('utf8', 'filename'):
        ok = got == v
    elif tag in ('gfloat', 'gdouble'):
        try:
            ok = abs(float(got) - v) <= 1e-5 * max(1.0, abs(v))
        except (TypeError, ValueError):
            ok = False
    elif isinstance(v, int):
        ok = got == str(v)
    else:
        ok = True
    if not ok:
        diffs.append('%s: value %r, typelib says %r' % (path, got, v))
    gen_type(path, el, c['type'], diffs, ns)


def compare_generated(xml_text, model):
    diffs = []
    try:
        root = ET.fromstring(xml_text)
    except ET.ParseError as e:
        return ['g-ir-generate output is not well-formed XML: %s' % e]
    nsel = root.find(CORE + 'namespace')
    if nsel is None:
        return ['g-ir-generate output has no <namespace>']
    ns = model['namespace']
    if nsel.get('name') != ns or nsel.get('version') != model['nsversion']:
        diffs.append('namespace %r %r, typelib says %r %r' % (nsel.get('name'), nsel.get('version'), ns, model['nsversion']))
    if (nsel.get('shared-library') or None) != model['shared_library']:
        diffs.append('shared-library %r, typelib says %r' % (nsel.get('shared-library'), model['shared_library']))
    incs = sorted('%s-%s' % (i.get('name'), i.get('version')) for i in root.findall(CORE + 'include'))
    if incs != sorted(model['dependencies']):
        diffs.append('includes %r, typelib dependencies %r' % (incs, sorted(model['dependencies'])))
    local = [e for e in model['entries'] if e.get('local')]
    got = [(qn(k.tag), k.get('name') or attr(k, 'glib:name')) for k in nsel]
    want = [(KIND_TAG[e['kind']], e['name']) for e in local]
    if sorted(got) != sorted(want):
        diffs.append('top-level elements differ: generated-only %r, typelib-only %r' % (
            sorted(set(got) - set(want))[:6], sorted(set(want) - set(got))[:6]))
        return diffs
    byname = {(qn(k.tag), k.get('name') or attr(k, 'glib:name')): k for k in nsel}
    for e in local:
        el = byname[(KIND_TAG[e['kind']], e['name'])]
        path = e['name']
        kind = e['kind']
        if 'deprecated' in e and kind != 'function' and (el.get('deprecated') == '1') != bool(e['deprecated']):
            diffs.append('%s: deprecated %r, typelib says %r' % (path, el.get('deprecated'), e['deprecated']))
        if kind == 'function':
            gen_function(path, el, e, diffs, ns)
        elif kind == 'callback':
            gen_callable(path, el, e['signature'], diffs, ns)
        elif kind == 'constant':
            gen_constant(path, el, e, diffs, ns)
        elif kind in ('enum', 'flags'):
            ms = [(m.get('name'), m.get('value')) for m in el.findall(CORE + 'member')]
            wv = []
            for v in e['values']:
                val = v['value'] & 0xffffffff if v['unsigned_value'] else v['value']
                wv.append((v['name'], str(val)))
            if ms != wv:
                diffs.append('%s: members %r, typelib says %r' % (path, ms[:5], wv[:5]))
            if attr(el, 'glib:type-name') != e['gtype_name'] or attr(el, 'glib:get-type') != e['gtype_init']:
                diffs.append('%s: gtype %r/%r, typelib says %r/%r' % (path, attr(el, 'glib:type-name'),
                                                                    attr(el, 'glib:get-type'), e['gtype_name'], e['gtype_init']))
            if attr(el, 'glib:error-domain') != e['error_domain']:
                diffs.append('%s: error-domain %r, typelib says %r' % (path, attr(el, 'glib:error-domain'), e['error_domain']))
            gen_methods(path, el, e, diffs, ns)
        elif kind in ('struct', 'boxed', 'union'):
            gen_fields(path, el, e, diffs, ns)
            gen_methods(path, el, e, diffs, ns)
            if attr(el, 'glib:type-name') != e['gtype_name'] or attr(el, 'glib:get-type') != e['gtype_init']:
                diffs.append('%s: gtype %r/%r, typelib says %r/%r' % (path, attr(el, 'glib:type-name'),
                                                                    attr(el, 'glib:get-type'), e['gtype_name'], e['gtype_init']))
            if kind != 'union' and (el.get('foreign') == '1') != bool(e['foreign']):
                diffs.append('%s: foreign %r, typelib says %r' % (path, el.get('foreign'), e['foreign']))
            if el.get('copy-function') != e['copy_func'] or el.get('free-function') != e['free_func']:
                diffs.append('%s: copy/free %r/%r, typelib says %r/%r' % (path, el.get('copy-function'),
                                                                        el.get('free-function'), e['copy_func'], e['free_func']))
        elif kind in ('object', 'interface'):
            if kind == 'object':
                parent = e['parent']
                if el.get('parent') not in (parent, None if parent is None else '%s.%s' % (ns, parent)):
                    diffs.append('%s: parent %r, typelib says %r' % (path, el.get('parent'), parent))
                for a, b in (('abstract', 'abstract'), ('final', 'final_')):
                    if (el.get(a) == '1') != bool(e[b]):
                        diffs.append('%s: %s %r, typelib says %r' % (path, a, el.get(a), e[b]))
                if (attr(el, 'glib:fundamental') == '1') != bool(e['fundamental']):
                    diffs.append('%s: glib:fundamental %r, typelib says %r' % (path, attr(el, 'glib:fundamental'), e['fundamental']))
                imps = [i.get('name') for i in el.findall(CORE + 'implements')]
                want_i = e['interfaces']
                if sorted(i.split('.')[-1] for i in imps) != sorted(i.split('.')[-1] for i in want_i):
                    diffs.append('%s: implements %r, typelib says %r' % (path, imps, want_i))
                gen_fields(path, el, e, diffs, ns)
            else:
                pres = [i.get('name') for i in el.findall(CORE + 'prerequisite')]
                if sorted(i.split('.')[-1] for i in pres) != sorted(i.split('.')[-1] for i in e['prerequisites']):
                    diffs.append('%s: prerequisites %r, typelib says %r' % (path, pres, e['prerequisites']))
            if attr(el, 'glib:type-name') != e['gtype_name'] or attr(el, 'glib:get-type') != e['gtype_init']:
                diffs.append('%s: gtype %r/%r, typelib says %r/%r' % (path, attr(el, 'glib:type-name'),
                                                                    attr(el, 'glib:get-type'), e['gtype_name'], e['gtype_init']))
            gen_props(path, el, e, diffs, ns)
            gen_methods(path, el, e, diffs, ns)
            gen_signals(path, el, e, diffs, ns)
            gen_vfuncs(path, el, e, diffs, ns)
            cs = [k for k in el if qn(k.tag) == 'constant']
            if sorted(k.get('name') for k in cs) != sorted(c['name'] for c in e['constants']):
                diffs.append('%s: constants %r, typelib has %r' % (path, [k.get('name') for k in cs], [c['name'] for c in e['constants']]))
    return diffs


# ------------------------------------------------------------------ driver ---
def check_typelib(b, drv, depdir, wd, data, name='Test', version='1.0'):
    """data = typelib bytes already written at wd/<name>-<version>.typelib. -> list of (kind, text)"""
    probs = []
    model, fprobs = typelib.decode(data)
    if model is None:
        return [('undecodable', fprobs[0])]
    p = subprocess.run([drv, '%s:%s' % (wd, depdir), name, version], stdout=subprocess.PIPE, stderr=subprocess.PIPE,
                       env=b.env())
    text = p.stdout.decode('utf-8', 'replace')
    if p.returncode != 0:
        probs.append(('walk-crash', 'drv_walk exit %d: %s %s' % (p.returncode, text[-200:], p.stderr.decode('utf-8', 'replace')[-600:])))
    else:
        got, dup = walkmodel.parse_driver_output(text)
        loaded = set(d.rsplit('-', 1)[0] for d in model['dependencies']) | {'GLib', 'GObject'}
        exp = walkmodel.Walk(model, loaded).run()
        for d in walkmodel.compare(exp, got):
            probs.append(('api', d))
    tl = os.path.join(wd, '%s-%s.typelib' % (name, version))
    p = subprocess.run([b.generate, '--includedir', wd, '--includedir', depdir, tl], stdout=subprocess.PIPE,
                       stderr=subprocess.PIPE, env=b.env())
    if p.returncode != 0:
        probs.append(('generate-crash', 'g-ir-generate exit %d: %s' % (p.returncode, p.stderr.decode('utf-8', 'replace')[-600:])))
    else:
        for d in compare_generated(p.stdout.decode('utf-8', 'replace'), model):
            probs.append(('generate', d))
    return probs


def check_doc(b, drv, depdir, doc, wd):
    xml = doc.xml()
    rc, err, data = tools.compile_gir(b, xml, wd)
    if rc != 0 or data is None:
        return [('rejected', 'compiler exit %d: %s' % (rc, err.strip()[-300:]))], xml
    return check_typelib(b, drv, depdir, wd, data), xml


def strip_index(text):
    import re
    head = text.split(':', 1)[0]
    head = re.sub(r'\.\d+', '.N', head)
    return re.sub(r'\b([A-Z]+)\d+\b', r'\1N', head)


def _work(chunk):
    part = Part()
    tier, asan, batches = chunk
    b = cbuild.build(asan)
    drv = b.driver('drv_walk')
    depdir = tools.ensure_dep_typelibs(b)
    table = dict(gens.all_entries(tier))
    wd = tools.workdir('c09')
    try:
        for keys in batches:
            doc = make_doc(keys, table)
            probs, xml = check_doc(b, drv, depdir, doc, wd)
            part.add(evaluations=1, transitions=len(keys), traces_validated_against_impl=len(keys), states=len(keys))
            for k in keys:
                part.nontrivial(k)
            part.outcome(('batch', tuple(sorted(set(p[0] for p in probs)))))
            if not probs:
                continue
            found = False
            for k in keys:
                p1, xml1 = check_doc(b, drv, depdir, make_doc([k], table), wd)
                part.add(evaluations=1)
                for kind, text in p1:
                    found = True
                    part.outcome((kind, strip_index(text)))
                    part.violation('%s:%s|%s' % (kind, k, strip_index(text)), text, {'entry': k, 'tier': tier, 'gir': xml1})
            if not found:
                for kind, text in probs:
                    part.violation('%s:batch|%s' % (kind, strip_index(text)), text, {'entries': keys, 'tier': tier, 'gir': xml})
        if batches:
            part.sample({'entries': batches[0][:4], 'checked': 'API walk vs decoded bytes; g-ir-generate vs decoded bytes'})
    finally:
        tools.cleanup(wd)
    return part.result()


def run(ctx):
    thorough = ctx.tier == 'thorough'
    cbuild.build(False)
    if thorough:
        cbuild.build(True)
    entries = gens.all_entries(ctx.tier)
    keys = [k for k, e in entries if k not in gens.SUPPORT]
    batches = batch_keys(keys, BATCH)
    ctx.set(rule='every entry of vt/c/gens.py (%s domains) compiled in batches of %d; each typelib is (a) walked through '
                 'every public accessor by drv_walk%s and compared line by line with the facts computed from the bytes by '
                 'the independent decoder, (b) turned back into GIR by g-ir-generate and compared with the decoded model. '
                 'non-trivial = every entry' % ('full' if thorough else 'trimmed', BATCH, ' (ASan+UBSan)' if thorough else ''),
            bounds={'entries': len(keys), 'batch': BATCH})
    chunks = [(ctx.tier, thorough, c) for c in chunked(rotate(batches, ctx.seed), 32 if not thorough else 64)]
    for r in pmap(_work, chunks):
        ctx.merge(r)
    ctx.assumptions += ['glibshim headers (trusted base)', 'vt/typelib.py decoder is the reference reader of the bytes',
                        'the pointer flag of a field type with an embedded callback is not defined by the format',
                        'g-ir-generate comparison covers names, kinds, flags, ownership, directions, indices, type names and '
                        'values; documentation-free attributes only']
    if ctx.cov['evaluations'] < 10:
        raise HarnessBroken('too few runs')


def replay(ctx, case):
    b = cbuild.build(False)
    drv = b.driver('drv_walk')
    depdir = tools.ensure_dep_typelibs(b)
    wd = tools.workdir('c09r')
    try:
        rc, err, data = tools.compile_gir(b, case['gir'], wd)
        print('compiler exit', rc, err.strip()[-300:])
        if data is None:
            return False
        probs = check_typelib(b, drv, depdir, wd, data)
        for p in probs[:40]:
            print('  ', p)
        return not probs
    finally:
        tools.cleanup(wd)
