"""C01 - parameter and return annotations are reflected exactly in the GIR.

Bounded-exhaustive generation-tree search (E1).  A node is (callable kind, site position, site type
kind, annotation set); children add one annotation instance.  Every node is executed on the real
scanner pipeline twice - baseline (same comment block without the annotations) and annotated - and
compared with the reference model vt/scan/c01_model.py:

  * per GIR attribute of the site (transfer-ownership, direction, caller-allocates, nullable,
    allow-none, optional, skip, scope, closure, destroy, <attribute> children, the <type>/<array>
    child with length / fixed-size / zero-terminated / element types) MUST value or UNSPECIFIED;
  * per annotation: a warning naming it MUST be logged at the site's comment line (annotation
    invalid at this site - then the attribute MUST equal what it is without that annotation), or
    MUST NOT be declared invalid (annotation valid);
  * the parameter named by (array length=) follows the array's direction; indices (length,
    closure, destroy) are computed by this check from the emitted <parameter> list;
  * FRAME: every attribute / child / text of every other element equals the baseline.
"""
import json

from vt.core import Part, pmap, rotate, HarnessBroken
from vt.scan import c01_gen as G
from vt.scan import c01_model as MD
from vt.scan import girread

LEVEL = 'model_checking'

CALLABLE_TAGS = ('function', 'method', 'callback', 'virtual-method', 'glib:signal')


# ------------------------------------------------------------------ locating ---
def _child(el, tag, name):
    for k in el.kids:
        if k.tag == tag and k.get('name') == name:
            return k
    return None


def locate(root, case):
    """-> [(label, callable element, self_is_parameter)]"""
    ns = root.find('namespace')
    c = case['callable']
    out = []
    if c == 'function':
        out.append(('function', _child(ns, 'function', 'fn'), False))
    elif c == 'method':
        out.append(('method', _child(_child(ns, 'record', 'Rec'), 'method', 'meth'), False))
    elif c == 'callback':
        out.append(('callback', _child(ns, 'callback', 'Handler'), False))
    elif c == 'signal':
        out.append(('signal', _child(_child(ns, 'class', 'Obj'), 'glib:signal', 'sig'), False))
    elif c == 'ctor':
        host = {'rec': ('record', 'Rec'), 'box': ('record', 'Box'), 'obj': ('class', 'Obj')}[case['kind']]
        h = _child(ns, host[0], host[1])
        name = 'new_with_x' if case['layout'] == 1 else 'new'
        out.append(('constructor', _child(h, 'constructor', name) if h is not None else None, False))
    else:
        cls = _child(ns, 'class', 'Obj')
        if c == 'vfunc_inv':
            out.append(('invoker', _child(cls, 'method', 'vf'), False))
        out.append(('vfunc', _child(cls, 'virtual-method', 'vf'), False))
        fld = _child(_child(ns, 'record', 'ObjClass'), 'field', 'vf')
        out.append(('vfunc-field', fld.find('callback') if fld is not None else None, True))
    return out


def site_el(callable_el, case, self_is_param):
    ip, ps = callable_el.params()
    if case['site'] == 'ret':
        return callable_el.find('return-value')
    if case['site'] == 'self':
        if self_is_param:
            return next((p for p in ps if p.get('name') == 'self'), None)
        return ip
    return next((p for p in ps if p.get('name') == 'p'), None)


def param_named(callable_el, name):
    ip, ps = callable_el.params()
    for p in ps:
        if p.get('name') == name:
            return p
    if ip is not None and ip.get('name') == name:
        return ip
    return None


def index_fn(callable_el):
    ip, ps = callable_el.params()
    names = [p.get('name') for p in ps]

    def index_of(name):
        return names.index(name) if name in names else None
    return index_of


def reading(el):
    t = el.type_el()
    return {'attrs': {k: v for k, v in el.attrib.items()},
            'type': t.dump() if t is not None else None,
            'attributes': [(k.get('name'), k.get('value')) for k in el.findall('attribute')],
            'doc': [k.dump() for k in el.findall('doc')]}


# ------------------------------------------------------------------- frame ---
def frame(b, a, loose, out, path=''):
    """Every attribute / text / child of A equals B except where `loose` says otherwise."""
    l = loose.get(id(b))
    if l == '*':
        return
    here = '%s/%s%s' % (path, b.tag, ('[%s]' % b.get('name')) if b.get('name') else '')
    if b.tag != a.tag:
        out.append('%s: element became <%s>' % (here, a.tag))
        return
    for k in sorted(set(b.attrib) | set(a.attrib)):
        if l and k in l:
            continue
        if b.attrib.get(k) != a.attrib.get(k):
            out.append('%s: attribute %s %r -> %r' % (here, k, b.attrib.get(k), a.attrib.get(k)))
    if not b.kids and not a.kids and (b.text or '').strip() != (a.text or '').strip():
        out.append('%s: text changed' % here)
    if len(b.kids) != len(a.kids):
        out.append('%s: children %s -> %s' % (here, [k.tag for k in b.kids], [k.tag for k in a.kids]))
        return
    for kb, ka in zip(b.kids, a.kids):
        frame(kb, ka, loose, out, here)


# ----------------------------------------------------------------- evaluate ---
def mclass(observed, expected, base):
    """Failure mode, part of the violation key: the annotation was 'ignored' (output kept the
    baseline value), 'applied' although it had to be left unchanged, or a 'wrong' value was written."""
    if observed == base:
        return 'ignored'
    if expected == base:
        return 'applied'
    return 'wrong'


_BASE = {}


def baseline(case):
    key = (case['callable'], case['layout'], case['site'], case['kind'])
    if key not in _BASE:
        bc = dict(case, anns=[])
        res, where = G.execute(bc, False)
        if res.error or res.xml is None:
            raise HarnessBroken('baseline scan failed for %r: %s' % (key, res.error))
        _BASE[key] = (girread.parse(res.xml), res.records, res.xml)
    return _BASE[key]


def _wkey(r):
    return (r['type'], r['text'], tuple(map(tuple, r['positions'])))


def evaluate(case, verbose=False):
    """-> {'viol': [(rule, desc)], 'unspec': n, 'must': n, 'outcome': ..., 'nontrivial': bool}"""
    viol = []
    stat = {'viol': viol, 'unspec': 0, 'must': 0, 'nontrivial': False, 'outcome': None, 'evals': 1}
    broot, brecords, bxml = baseline(case)
    res, where = G.execute(case, True)
    site_line = where[case['site'] if case['site'] != 'p' else 'p']
    base_w = {}
    for r in brecords:
        base_w[_wkey(r)] = base_w.get(_wkey(r), 0) + 1
    new_w = []
    for r in res.records:
        k = _wkey(r)
        if base_w.get(k, 0) > 0:
            base_w[k] -= 1
        else:
            new_w.append(r)
    if verbose:
        print('new diagnostics:')
        for r in new_w:
            print('   ', r['type'], r['positions'], r['text'])

    def warned(ann, need_pos=True, line=None):
        line = site_line if line is None else line
        for r in new_w:
            if MD.names_annotation(ann, r['text']):
                if not need_pos or any(p[1] == line and p[0].endswith('foo.c') for p in r['positions']):
                    return True
        return False

    def check_el(label, B, A, ael, exp, line):
        """compare one annotated element (the site, or the length parameter) with its expectation"""
        def resolve(x):
            if x is MD.U:
                return None
            if x[0] == 'M':
                return x
            if x[0] == 'C':
                return resolve(x[3] if warned(x[1], True, line) else x[2])
            if x[0] == 'DEFAULT-OUT':
                return ('M', 'none' if A['attrs'].get('caller-allocates') == '1' else 'full')
            raise AssertionError(x)

        mine = []
        for k in sorted(set(MD.SITE_ATTRS) | set(A['attrs']) | set(B['attrs'])):
            if k in exp.attrs:
                x = resolve(exp.attrs[k])
            else:
                x = ('M', B['attrs'].get(k))         # not an annotation-controlled attribute: frame
            if x is None:
                stat['unspec'] += 1
                continue
            stat['must'] += 1
            if A['attrs'].get(k) != x[1]:
                mine.append(('attr:%s' % k, '%s: %s=%r, expected %r (baseline %r)' % (
                    label, k, A['attrs'].get(k), x[1], B['attrs'].get(k)),
                    mclass(A['attrs'].get(k), x[1], B['attrs'].get(k))))
        # allow-none is the deprecated mirror of nullable/optional: one report per failure
        modes = set((v[0], v[2]) for v in mine)
        mine = [v for v in mine if not (v[0] == 'attr:allow-none' and
                                        (('attr:nullable', v[2]) in modes or ('attr:optional', v[2]) in modes))]
        viol.extend(mine)
        x = resolve(exp.attributes)
        if x is not None and sorted(A['attributes']) != sorted(x[1]):
            viol.append(('attributes', '%s: <attribute> children %r, expected %r' % (label, A['attributes'], x[1])))
        if A['doc'] != B['doc']:
            viol.append(('frame', '%s: <doc> of the site changed: %r -> %r' % (label, B['doc'], A['doc'])))
        extra = [k.tag for k in ael.kids if k.tag not in ('attribute', 'doc', 'type', 'array', 'varargs')]
        if extra:
            viol.append(('frame', '%s: unexpected children %r' % (label, extra)))
        if exp.type is MD.U:
            stat['unspec'] += 1
        else:
            stat['must'] += 1
            r = MD.match(exp.type, A['type'])
            if r:
                viol.append(('type', '%s: %s; got %s (baseline %s)' % (label, r, json.dumps(A['type']),
                                                                      json.dumps(B['type'])),
                             'ignored' if A['type'] == B['type'] else 'wrong'))
        return resolve

    def check_warn(exp, line):
        for a, w in exp.warn.items():
            if w == 'M':
                stat['must'] += 1
                if not warned(a, exp.warn_pos.get(a, True), line):
                    viol.append(('warn-missing:%s' % G.ann_name(a),
                                 'annotation (%s) is not valid here but no warning naming it was logged at '
                                 'line %d' % (a, line)))
            elif w == 'N':
                stat['must'] += 1
                for r in new_w:
                    if ('invalid "%s" annotation' % G.ann_name(a)) in r['text'] and 'annotation option' not in r['text'] \
                            and any(p[1] == line for p in r['positions']):
                        viol.append(('warn-spurious:%s' % G.ann_name(a),
                                     'valid annotation (%s) reported: %s' % (a, r['text'])))
                        break
            else:
                stat['unspec'] += 1

    # --- prediction needs the baseline site; take the primary (first) located callable
    blocs = locate(broot, case)
    if any(x[1] is None for x in blocs):
        raise HarnessBroken('baseline lacks the callable under test: %r' % (case,))
    label0, bcall0, sip0 = blocs[0]
    bsite0 = site_el(bcall0, case, sip0)
    if bsite0 is None:
        raise HarnessBroken('baseline lacks the site: %r' % (case,))

    if res.error is not None or res.xml is None:
        exp = MD.predict(case, reading(bsite0), index_fn(bcall0))
        fatal_logged = any(r['type'] >= 1 for r in new_w)
        stat['outcome'] = ('error', 'SystemExit' in (res.error or ''), fatal_logged)
        if not (res.error or '').startswith('SystemExit'):
            viol.append(('crash', 'pipeline raised instead of reporting: %s' % (res.error or '').splitlines()[0]))
        elif exp.fatal == 'N':
            viol.append(('pipeline-error', 'scan aborted (%s) but every annotation is well-formed and its '
                         'references exist' % res.error))
        elif exp.fatal == 'M':
            stat['must'] += 1
            stat['nontrivial'] = True
            if not fatal_logged:
                viol.append(('fatal-unlogged', 'scan aborted without a logged error'))
        else:
            stat['unspec'] += 1
        return stat

    aroot = girread.parse(res.xml)
    alocs = locate(aroot, case)
    loose = {}
    outcome = []
    first = True
    for (label, bcall, sip), (_, acall, _) in zip(blocs, alocs):
        if acall is None:
            if 'array length=self' in case['anns']:
                stat['unspec'] += 1      # a length that names the instance parameter; pairing is C04's subject
                loose[id(broot)] = '*'
                continue
            viol.append(('frame', '%s: callable disappeared' % label))
            continue
        if case['callable'] == 'vfunc_inv' and label != 'invoker':
            vf = alocs[1][1]
            if vf is None or vf.get('invoker') != 'vf':
                # pairing of invoker and virtual method is C04's subject; nothing to say here
                loose[id(blocs[1][1])] = '*'
                loose[id(blocs[2][1])] = '*'
                stat['unspec'] += 1
                continue
        bsite = site_el(bcall, case, sip)
        asite = site_el(acall, case, sip)
        if bsite is None:
            raise HarnessBroken('baseline lacks the site: %r %s' % (case, label))
        if asite is None:
            viol.append(('frame', '%s: site element disappeared' % label))
            continue
        # ancestors: "introspectable" is derived by the introspectable pass (C05)
        e = bcall
        while e is not None:
            loose.setdefault(id(e), set()).add('introspectable')
            e = e.parent
        loose[id(bsite)] = '*'
        B = reading(bsite)
        A = reading(asite)
        index_of = index_fn(acall)
        exp = MD.predict(case, B, index_of, label)
        if exp.fatal == 'M':
            viol.append(('fatal-missing', '%s: an annotation references a parameter that does not exist but the '
                         'scan did not fail' % label))
        stat['nontrivial'] = stat['nontrivial'] or exp.nontrivial

        resolve = check_el(label, B, A, asite, exp, site_line)
        # annotations written on the length parameter itself: judged with the direction n ends up with
        nann = G.n_anns(case)
        if nann:
            bn, an = param_named(bcall, 'n'), param_named(acall, 'n')
            if bn is None or an is None:
                viol.append(('frame', '%s: length parameter disappeared' % label))
            else:
                inherit = None
                if any(a.startswith('array') and 'length=n' in a for a in case['anns']):
                    arr_v = exp.eff_dir in ('in', 'out', 'inout') and \
                        exp.others.get('n', {}).get('direction', ('M', None)) is not MD.U
                    inherit = exp.eff_dir if arr_v else 'U'
                ncase = dict(case, kind='intp', site='p', anns=nann)
                nexp = MD.predict(ncase, reading(bn), index_of, label, inherit_dir=inherit)
                stat['nontrivial'] = stat['nontrivial'] or nexp.nontrivial
                loose[id(bn)] = '*'
                check_el(label + '/n', reading(bn), reading(an), an, nexp, where['n'])
                if first:
                    check_warn(nexp, where['n'])
        # parameters named by length / closure / destroy
        for name, eo in exp.others.items():
            bp, ap = param_named(bcall, name), param_named(acall, name)
            if bp is None or ap is None or bp is bsite:
                continue
            lo = loose.setdefault(id(bp), set())
            if lo == '*':
                continue
            for k, x in eo.items():
                lo.add(k)
                x = resolve(x)
                if x is None:
                    stat['unspec'] += 1
                    continue
                stat['must'] += 1
                if ap.get(k) != x[1]:
                    viol.append(('other:%s' % k, '%s: parameter %s named by the annotation has %s=%r, expected %r' % (
                        label, name, k, ap.get(k), x[1]), mclass(ap.get(k), x[1], bp.get(k))))
        if first:
            first = False
            check_warn(exp, site_line)      # warnings, once per case
        outcome.append((label, tuple(sorted(A['attrs'].items())), json.dumps(A['type']), tuple(A['attributes'])))
    fr = []
    frame(broot, aroot, loose, fr)
    stat['must'] += 1
    for f in fr[:3]:
        viol.append(('frame', f))
    stat['outcome'] = (tuple(outcome), tuple(sorted(set(r['text'] for r in new_w))))
    return stat


# -------------------------------------------------------------- enumeration ---
def sites():
    out = []
    for c in G.CALLABLES:
        for layout, site in G.site_positions(c):
            for k in G.KIND_ORDER:
                if G.kind_ok(c, site, k) and not (c == 'ctor' and layout == 1 and k != 'obj'):
                    out.append((c, layout, site, k))
    # annotations on the length parameter of an in / out / inout array, declared after (2) and before (3) it
    for c in LEN_CALLABLES:
        for layout in (2, 3):
            for k in G.LEN_KINDS:
                out.append((c, layout, 'p', k))
    return out


LEN_CALLABLES = ('function', 'method', 'callback', 'vfunc')


def menu_for(site):
    return G.SELF_MENU if site == 'self' else G.MENU


QUICK_PAIR_SITES = {('function', 0, 'p'), ('function', 0, 'ret'), ('method', 1, 'p'), ('signal', 0, 'p')}
TRIPLE_CALLABLES = ('function', 'method', 'callback', 'signal')


def ann_sets(tier, callable_, layout, site, kind=None):
    """Deterministic list of annotation lists for one site (simplest first)."""
    if layout >= 2:
        out = []
        for arr in [[]] + G.LEN_ARRAYS:
            if arr:
                out.append(list(arr))
            for a in G.LEN_ANNS:
                out.append(arr + [a])
            out.append(arr + ['@n optional', '@n nullable'])
        return out
    if callable_ == 'ctor':
        out = [[a] for a in G.CTOR_MENU]
        for t in G.TRANSFER:
            out.append([t, 'nullable'])
            out.append([t, 'skip'])
        return out
    menu = list(menu_for(site))
    if site == 'p' and callable_ in ('method', 'vfunc', 'vfunc_inv'):
        menu.append('array length=self')
    out = [[a] for a in menu]
    if site == 'self':
        return out
    inter = [G.INTERACT_DIR, G.INTERACT_NULL, G.INTERACT_ARR]
    if tier == 'thorough':
        for i in range(len(menu)):
            for j in range(i + 1, len(menu)):
                if _key(menu[i]) != _key(menu[j]):
                    out.append([menu[i], menu[j]])
        if callable_ in TRIPLE_CALLABLES:
            fam = G.INTERACT_DIR + G.INTERACT_NULL + G.INTERACT_ARR
            for i in range(len(fam)):
                for j in range(i + 1, len(fam)):
                    for k in range(j + 1, len(fam)):
                        t = [fam[i], fam[j], fam[k]]
                        if len(set(_key(x) for x in t)) == 3:
                            nfam = len(set(0 if x in inter[0] else 1 if x in inter[1] else 2 for x in t))
                            if nfam >= 2:
                                out.append(t)
    elif (callable_, layout, site) in QUICK_PAIR_SITES and not (kind in G.QUALIFIED_PTR and callable_ != 'function'):
        # quick: pairs inside the interacting families only, on one position per callable kind
        fam = G.INTERACT_DIR + G.INTERACT_NULL + G.INTERACT_ARR + ['type utf8', 'closure ctx', 'destroy dn',
                                                                   'scope call']
        for i in range(len(fam)):
            for j in range(i + 1, len(fam)):
                if _key(fam[i]) != _key(fam[j]):
                    out.append([fam[i], fam[j]])
        # (type T) overrides that change the kind of the value x the annotations whose validity depends on it
        for t in ['type FooRec', 'type GLib.List(utf8)', 'type GObject.Object', 'type gint']:
            for x in G.TRANSFER + ['out', 'nullable', 'allow-none']:
                out.append([x, t])              # menu order, as in the thorough tier
        # value-less option spellings on out / inout parameters
        for d in ['out', 'inout']:
            for x in ['array zero-terminated', 'array zero-terminated length=n', 'array fixed-size=3 zero-terminated']:
                out.append([d, x])
    return out


def _key(a):
    n, o = G.parse_ann(a)
    return n if n != 'not' else 'not ' + ' '.join(o)


def canon(a):
    """Annotation instance -> class used in violation keys (option values that do not matter to the
    failing clause are folded so that one defect does not produce dozens of keys)."""
    n, o = G.parse_ann(a)
    if n == 'out':
        return 'out*' if MD.well_formed(n, o) else a
    if n == 'scope':
        return 'scope *' if MD.well_formed(n, o) else a
    if n == 'type':
        return 'type *' if o and o[0] != 'FooNoSuch' else a
    if n == 'array':
        return 'array *' if MD.well_formed(n, o) and 'nosuch' not in a and 'self' not in a else a
    if n == 'element-type':
        return 'element-type *'
    return a


def _sig(v):
    return (v[0], v[2] if len(v) > 2 else '')


def callable_class(c):
    return 'func' if c in MD.FUNCLIKE else c


def canon_name(a):
    """Coarser class for clauses that do not depend on the option value (missing / spurious warning,
    crash): annotation name only, except for the special instances that are defects of their own."""
    n, o = G.parse_ann(a)
    if not MD.well_formed(n, o) or 'FooNoSuch' in a or 'nosuch' in a or 'length=self' in a or n == 'not':
        return canon(a)
    return n + ' *' if o or n in ('closure', 'array') else n


def vkey(rule, anns, callable_, mcls):
    """Partial key; run() appends the set of type kinds on which this (clause, annotations, callable class,
    failure mode) fails, so that a change of the failing set is a different key."""
    cf = canon_name if rule.split(':')[0] in ('warn-missing', 'warn-spurious', 'crash') else canon
    return '%s|%s|%s|%s' % (rule, '+'.join(cf(a) for a in anns), callable_class(callable_), mcls or '-')


def _work(chunk):
    part = Part()
    tier, site_list = chunk
    myviol = []
    for (c, layout, site, kind) in site_list:
        part.add(states=1, evaluations=1)       # the baseline node
        sets = ann_sets(tier, c, layout, site, kind)
        cache = {}

        def rules_of(anns, count=False):
            k = tuple(anns)
            if k not in cache:
                case = {'callable': c, 'layout': layout, 'site': site, 'kind': kind, 'anns': list(anns)}
                st = evaluate(case)
                cache[k] = st
                if not count:
                    part.add(evaluations=st['evals'], shrink_evaluations=1)
            return cache[k]

        def shrink(sig, anns):
            """smallest sub-multiset of the annotations on which the same clause still fails the same way"""
            for i in range(len(anns)):
                sub = anns[:i] + anns[i + 1:]
                if sub and any(_sig(x) == sig for x in rules_of(sub)['viol']):
                    return shrink(sig, sub)
            return anns

        for i, anns in enumerate(sets):
            case = {'callable': c, 'layout': layout, 'site': site, 'kind': kind, 'anns': anns}
            st = rules_of(anns, count=True)
            part.add(evaluations=st['evals'], states=1, transitions=len(anns), traces_validated_against_impl=1,
                     unspecified=st['unspec'], must_checks=st['must'])
            part.outcome(st['outcome'])
            if st['nontrivial']:
                part.nontrivial('%s/%s/%s/%s/%s' % (c, layout, site, kind, '+'.join(anns)))
            done = set()
            for v in st['viol']:
                sig = _sig(v)
                m = shrink(sig, anns)
                if (sig, tuple(m)) in done:
                    continue
                done.add((sig, tuple(m)))
                if m != anns:
                    v = next(x for x in rules_of(m)['viol'] if _sig(x) == sig)
                mcase = dict(case, anns=m)
                km = list(m)
                if any(a.startswith('@n ') for a in m):
                    # key of the length-parameter family: position of n relative to the array; the array's
                    # own direction annotation only matters as "out or inout"
                    pos = '@n-after ' if layout == 2 else '@n-before '
                    km = ['out/inout' if G.ann_name(a) in ('out', 'inout') else a.replace('@n ', pos) for a in m]
                myviol.append((vkey(sig[0], km, c, sig[1]), v[1], mcase))
            if i == (len(kind) * 7 + layout * 3) % len(sets) and len(part.samples) < 12:
                part.sample({'case': case, 'c': G.c_text(case)})
    r = part.result()
    r['c01_viol'] = myviol
    return r


def run(ctx):
    from vt.scan import c01_calib
    tier = ctx.tier
    S = sites()
    nsets = {'%s/%s%d' % (c, st, l): len(ann_sets(tier, c, l, st)) for c in G.CALLABLES for (l, st) in G.site_positions(c)}
    nsets['length-parameter family (layouts 2,3)'] = len(ann_sets(tier, 'function', 2, 'p'))
    ctx.set(rule='E1 generation tree: every (callable kind x site position x type kind) site of the alphabet, '
                 'every single annotation instance of the menu; quick adds every pair inside the interacting '
                 'families, thorough adds every unordered pair of the whole menu and the interacting triples. '
                 'Each node = 1 annotated scanner run compared attribute-by-attribute with delta(baseline, '
                 'annotations) + warnings + frame. non-trivial = node on which the model fixed a changed '
                 'attribute, a type pattern or a mandatory warning.',
            bounds={'callables': G.CALLABLES, 'type_kinds': len(G.KIND_ORDER), 'sites': len(S),
                    'menu': len(G.MENU), 'self_menu': len(G.SELF_MENU), 'annotation_sets_per_site': nsets,
                    'max_annotations_per_site': 3 if tier == 'thorough' else 2})
    cal = c01_calib.calibrate()
    ctx.set(calibration=cal)
    if cal['disagreements']:
        raise HarnessBroken('validity table disagrees with tests/warn expectations: %r' % cal['disagreements'][:5])
    # partition: sites are independent; weight by number of annotation sets
    chunks = [(tier, [s]) for s in S]
    viol = {}
    for r in pmap(_work, rotate(chunks, ctx.seed)):
        for key, desc, case in r.pop('c01_viol'):
            v = viol.setdefault(key, {'where': set(), 'best': None})
            v['where'].add('%s.%s.%s' % (case['callable'], case['site'], case['kind']))
            cand = (json.dumps(case, sort_keys=True), desc, case)
            if v['best'] is None or cand[0] < v['best'][0]:
                v['best'] = cand
        ctx.merge(r)
    for key in sorted(viol):
        _, desc, case = viol[key]['best']
        where = sorted(viol[key]['where'])
        kinds = set(w.split('.')[2] for w in where)
        # a typedef-alias kind that fails together with its direct spelling is the same site class
        kinds = sorted((k for k in kinds if G.ALIAS_OF.get(k) not in kinds), key=G.KIND_ORDER.index)
        # site class: the failing type kinds when they are few (the defect is about those kinds), else
        # only how many of the explored kinds fail (mechanism independent of the kind)
        kclass = ','.join(kinds) if len(kinds) <= 3 else '%d-kinds' % len(kinds)
        ctx.violation('%s|%s' % (key, kclass),
                      '%s  [fails on %d site(s): %s%s]' % (desc, len(where), ' '.join(where[:8]),
                                                          ' ...' if len(where) > 8 else ''), case)
    ctx.max_reports = 300
    ctx.assumptions += [
        'inputs are symbol trees (what the C parser hands to Python), see DESIGN 1.1; miniature GLib/GObject/Gio GIRs',
        'GType data come from a generated dump (class FooObj with one signal), not from a running library',
        'at most %d annotations on one site; one annotated site per callable' % (3 if tier == 'thorough' else 2),
        'warning = a diagnostic absent from the baseline run whose text names the annotation and whose position '
        'is the comment line of the site; exact wording is not compared',
        'the introspectable attribute of enclosing elements is C05\'s subject and exempt from the frame',
    ]
    if len(ctx._outcomes) < 50 or not ctx._nontrivial:
        raise HarnessBroken('vacuous exploration: %d outcomes, %d non-trivial' % (len(ctx._outcomes), len(ctx._nontrivial)))


def replay(ctx, case):
    print('case:', json.dumps(case))
    print(G.c_text(case))
    st = evaluate(case, verbose=True)
    res, _ = G.execute(case, True)
    if res.xml:
        root = girread.parse(res.xml)
        for label, el, sip in locate(root, case):
            if el is not None:
                s = site_el(el, case, sip)
                print('%s site: %s' % (label, json.dumps(reading(s)) if s is not None else None))
    else:
        print('error:', res.error)
    for v in st['viol']:
        print('VIOLATED %s: %s' % (v[0], v[1]))
    return not st['viol']
