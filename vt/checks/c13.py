"""C13 - enumeration members and constants keep correct names, types and values.

Generation-tree search (E1).  Two bounded spaces are enumerated completely and
every element is executed on the real pipeline (Transformer._create_enum /
_enum_common_prefix / _create_const -> MainTransformer -> GIRWriter) and compared
with a reference model written from the property statement only.

ENUM space.  Nodes of the tree are sequences of distinct member identifiers over a
pool; a child extends its parent by one identifier.  Every node (every length
0..B) is a complete input.  Each node is crossed with every private-member mask
(length 4: no/one private member), with two namespace configurations (one symbol
prefix `foo`; two symbol prefixes `foo`,`bar`), and carries values, the bitfield
flag and the declaration form (typedef enum / plain enum tag) as a fixed function
of the sequence.  A second family crosses all value tuples x bitfield x form on
fixed names.

CONSTANT space.  One constant per scan: integer type spelling (GLib names, C
spellings, stdint names, G_GINT64_CONSTANT style basic types, aliases of an
included namespace) x local alias chain depth 0..2 x value menu; untyped integers;
strings; doubles; booleans; header / non-header file; underscore names.

Oracle (three valued).  MUST, from the statement:
  * the enumeration is emitted as <bitfield> iff flagged, else <enumeration>;
  * its <member> children are exactly the public members in declaration order, each
    with c:identifier = C identifier and value = decimal of the exact integer;
  * member name = lower-case of the identifier minus the whole `_`-separated words
    shared as a prefix by all members; minus the namespace prefix when there are
    fewer than two members or no shared word;
    each member loses its OWN namespace prefix (prefixes of one namespace may differ in
    length); with --accept-unprefixed a member without prefix keeps its whole identifier;
  * a public constant of a header is emitted once, c:type = its C name, a <type>
    matching the declaration, value in the type's range: as written when it is in
    range, unsigned types reduced modulo 2**width, strings verbatim, true/false.
UNSPECIFIED (executed, must not crash, counted, never flagged):
  * member names when one member is a word-prefix of another (quantifier carve-out);
  * member names when "all members" read as "all declared" and as "all public"
    give different answers (a private member changes the shared words / the count);
  * member names when a member matches two namespace prefixes with different remainders
    (FOO_LIB_C under symbol prefixes foo and foo_lib);
  * the whole enumeration when namespace-prefix removal is called for and a member
    carries no namespace prefix (the scanner then refuses the enumeration);
  * signed constants whose written value is outside the declared type's range (the
    statement's two clauses contradict each other there); gchar outside 0..127;
  * platform-width unsigned types (gulong, gsize, guintptr, unsigned long, size_t):
    the width is 32 or 64 depending on the platform, so any of {v mod 2**32,
    v mod 2**64} is accepted - a value equal to neither (e.g. a negative number) is
    outside the range of the type on every platform and IS flagged;
  * the type of an untyped integer literal that does not fit `int`;
  * the rendering of doubles that have more than 6 fractional digits / huge exponents.
Widths taken as fixed: 8/16/32/64 for the sized names; guint = unsigned int = 32 and
gushort = unsigned short = 16 (glibconfig.h defines guint32 / guint16 as exactly these
C types on every platform GLib supports).
"""
import re

from vt.core import Part, pmap, rotate, HarnessBroken
from vt.scan import fake, girread
from vt.scan import run as scanrun
from vt.scan.fake import Enum, Const, Typedef, CT, CTYPE_BASIC_TYPE

LEVEL = 'model_checking'

# =========================================================================
# reference model: enumerations
# =========================================================================
CONFIGS = [
    {'id': 'A', 'symbol_prefixes': None},                 # default: symbol prefix "foo"
    {'id': 'B', 'symbol_prefixes': ['foo', 'bar']},       # two symbol prefixes
    # configurations of the prefix-mix family (MIX_POOL): namespace prefixes of different length
    # inside one enumeration, and --accept-unprefixed with prefixed and unprefixed members mixed
    {'id': 'C', 'symbol_prefixes': ['foo', 'foolib']},
    {'id': 'D', 'symbol_prefixes': ['foolib', 'foo']},
    {'id': 'E', 'symbol_prefixes': ['foo', 'foo_lib', 'bar']},   # FOO_LIB_C matches two prefixes
    {'id': 'F', 'symbol_prefixes': None, 'accept_unprefixed': True},
    {'id': 'G', 'symbol_prefixes': ['foo', 'foolib'], 'accept_unprefixed': True},
]
MAIN_CFGS = 2          # the main pool runs under A and B
MIX_POOL = ['FOO_LOCAL', 'FOOLIB_REMOTE', 'FOO_A', 'FOOLIB_B', 'FOOLIB_X_A', 'FOO_LIB_C', 'BAR_A',
            'MEDIUM_LEVEL', 'HIGH', 'FOO_LOW']
AMBIG = object()


def cfg_prefixes(cfg):
    return cfg['symbol_prefixes'] or ['foo']


def cfg_accept(cfg):
    return bool(cfg.get('accept_unprefixed'))


POOL_QUICK = [
    'FOO_A', 'FOO_B', 'FOO_AB', 'FOO_X_A', 'FOO_X_B', 'FOO_X_AB', 'FOO_X_Y_A', 'FOO_X_Y_B',
    'FOO_X_Y_Z_A', 'FOO_X_Y_Z_B', 'BAR_A', 'BAR_X_A', 'FOOX_A', 'FOO_X_A_B', 'FOO_X_2D', 'FOO_X_y_c',
    'FOO_X', 'BAR_B',
    # the common prefix re-occurs inside the remainder: as whole words (namespace prefix alone; namespace
    # prefix + shared word) and as the tail of a word followed by '_' - a name must lose the prefix only once,
    # at the front, both on the shared-prefix path and on the namespace-prefix fallback path
    'FOO_A_FOO_B', 'FOO_X_A_FOO_X_B', 'FOO_BUFOO_ROLL', 'FOO_X_BUFOO_X_ROLL',
]
POOL_EXTRA = ['QUX_A', 'FOO_Y_A', 'FOO', 'BAR_X_B']
# reduced pool for the deepest level
POOL_DEEP = ['FOO_A', 'FOO_B', 'FOO_X_A', 'FOO_X_B', 'FOO_X_Y_A', 'FOO_X_Y_B', 'BAR_A', 'BAR_X_A',
             'FOO_X_AB', 'FOO_X_A_B']

ENUM_VALUES = [0, 1, -1, 2 ** 31 - 1, -2 ** 31, 2 ** 31, 2 ** 32 - 1, 2 ** 63 - 1, -2 ** 63]
ENUM_VALUES_T = ENUM_VALUES + [2, 2 ** 32, -2 ** 31 - 1, 2 ** 16, 255]


def words(ident):
    return ident.split('_')


def shared_words(idents):
    """Longest common prefix of the word lists."""
    ws = [words(i) for i in idents]
    out = []
    for col in zip(*ws):
        if any(w != col[0] for w in col):
            break
        out.append(col[0])
    return out


def is_word_prefix(a, b):
    wa, wb = words(a), words(b)
    return len(wa) <= len(wb) and wb[:len(wa)] == wa


def strip_ns(ident, prefixes, accept_unprefixed=False):
    """ident minus ITS OWN namespace prefix (each member is matched on its own: prefixes of one
    namespace may differ in length).  None when it carries none and unprefixed symbols are not
    accepted; the identifier itself when they are (--accept-unprefixed: nothing to remove);
    AMBIG when several prefixes of the namespace match and give different remainders (which one
    wins is not fixed by the statement).  A case-insensitive-only match counts as no match."""
    cands = []
    for p in prefixes:
        for q in (p.upper() + '_', p.lower() + '_'):
            if ident.startswith(q) and len(ident) > len(q) and ident[len(q):] not in cands:
                cands.append(ident[len(q):])
    if len(cands) > 1:
        return AMBIG
    if cands:
        return cands[0]
    return ident if accept_unprefixed else None


def names_under(idents_basis, public, prefixes, accept_unprefixed=False):
    """Member names for the public members when 'all members' = idents_basis.
    Returns list of names (AMBIG entries possible), or None if some member needs namespace-prefix
    removal and has no namespace prefix."""
    sw = shared_words(idents_basis) if len(idents_basis) >= 2 else []
    out = []
    for ident in public:
        if sw:
            rest = words(ident)[len(sw):]
            out.append('_'.join(rest).lower())
        else:
            s = strip_ns(ident, prefixes, accept_unprefixed)
            if s is None:
                return None
            out.append(s if s is AMBIG else s.lower())
    return out


def enum_model(case):
    """-> dict(tag, members=[(c:identifier, value-string)], names=list|None, whole=bool)
    whole=False: the whole element is UNSPECIFIED (scanner may refuse the enumeration)."""
    members = case['members']
    prefixes = cfg_prefixes(CONFIGS[case['cfg']])
    accept = cfg_accept(CONFIGS[case['cfg']])
    allid = [m[0] for m in members]
    pub = [m[0] for m in members if not m[2]]
    carve = any(i != j and is_word_prefix(allid[i], allid[j])
                for i in range(len(allid)) for j in range(len(allid)))
    n_all = names_under(allid, pub, prefixes, accept)
    n_pub = names_under(pub, pub, prefixes, accept)
    # the scanner may refuse the enumeration when namespace-prefix removal is called for
    # (under either reading of "all members") and some member carries no namespace prefix
    whole = n_all is not None and n_pub is not None
    names = None
    if whole and not carve and n_all == n_pub and AMBIG not in n_all:
        names = n_all
    return {
        'tag': 'bitfield' if case['bitfield'] else 'enumeration',
        'members': [(m[0], str(m[1])) for m in members if not m[2]],
        'names': names,
        'whole': whole,
        'carve': carve,
    }


def enum_decls(case):
    e = Enum(case['name'], [tuple(m) for m in case['members']], bitfield=case['bitfield'],
             typedef=case['typedef'])
    e.file = '/src/foo.h'
    e.line = 10
    return [e]


def classify_name_failure(case, model, got_names):
    """Stable key for a member-name disagreement."""
    members = case['members']
    allid = [m[0] for m in members]
    if len(allid) >= 2 and not shared_words(allid):
        return 'enum-name:no-shared-word'
    if len(allid) < 2:
        return 'enum-name:single-member'
    return 'enum-name:shared-prefix'


def check_enum(case):
    """Execute one enumeration case.  -> (violations [(key, desc)], must, unspecified, outcome)"""
    cfg = CONFIGS[case['cfg']]
    decls = enum_decls(case)
    res = scanrun.scan(decls, symbol_prefixes=cfg['symbol_prefixes'], accept_unprefixed=cfg_accept(cfg))
    model = enum_model(case)
    viol = []
    must = unspec = 0
    if res.error:
        return [('enum-crash', 'pipeline raised: %s' % res.error.splitlines()[0])], 1, 0, ('crash',)
    ns = girread.namespace_of(girread.parse(res.xml))
    els = [k for k in ns.kids if k.tag in ('enumeration', 'bitfield')]
    if not model['whole']:
        # the element as a whole is UNSPECIFIED (the scanner may refuse it); whatever IS
        # emitted must still list the right members with the right values
        unspec += 1
        if not els:
            return viol, must, unspec, ('unspec-whole', 0)
    must += 1
    if len(els) != 1:
        viol.append(('enum-missing' if not els else 'enum-duplicated',
                     'expected exactly one <%s>, found %d (messages: %r)'
                     % (model['tag'], len(els), [r['text'] for r in res.records][:2])))
        return viol, must, unspec, ('count', len(els))
    el = els[0]
    if el.tag != model['tag']:
        viol.append(('enum-kind:%s' % model['tag'], 'emitted as <%s>, expected <%s>' % (el.tag, model['tag'])))
    if el.get('c:type') != case['name']:
        viol.append(('enum-ctype', 'c:type=%r expected %r' % (el.get('c:type'), case['name'])))
    got = [(m.get('c:identifier'), m.get('value')) for m in el.findall('member')]
    exp = model['members']
    if [g[0] for g in got] != [e[0] for e in exp]:
        gs, es = [g[0] for g in got], [e[0] for e in exp]
        if sorted(gs) == sorted(es):
            key = 'enum-members:order'
        elif set(gs) - set(es) and any(m[2] and m[0] in gs for m in case['members']):
            key = 'enum-members:private-listed'
        elif set(es) - set(gs):
            key = 'enum-members:missing'
        else:
            key = 'enum-members:identifier'
        viol.append((key, 'member identifiers %r expected %r' % (gs, es)))
    else:
        bad = [(g, e) for g, e in zip(got, exp) if g[1] != e[1]]
        if bad:
            viol.append(('enum-value', 'member %s value=%r expected %r' % (bad[0][0][0], bad[0][0][1], bad[0][1][1])))
        got_names = [m.get('name') for m in el.findall('member')]
        if model['names'] is None:
            unspec += 1
        elif got_names != model['names']:
            viol.append((classify_name_failure(case, model, got_names),
                         'member names %r expected %r' % (got_names, model['names'])))
    outcome = (el.tag, len(got), 'names' if model['names'] is not None else 'nonames',
               tuple(m.get('name') for m in el.findall('member'))[:2])
    return viol, must, unspec, outcome


# =========================================================================
# reference model: constants
# =========================================================================
# (signed?, width class).  Width class: int = fixed number of bits, or 'plat' (32 or 64),
# or 'char' (8 bits, signedness platform dependent).
U, S = False, True
INT_TYPES = {
    # GLib sized
    'gint8': (S, 8), 'guint8': (U, 8), 'gint16': (S, 16), 'guint16': (U, 16),
    'gint32': (S, 32), 'guint32': (U, 32), 'gint64': (S, 64), 'guint64': (U, 64),
    # GLib C-like
    'gchar': (None, 'char'), 'guchar': (U, 8), 'gshort': (S, 16), 'gushort': (U, 16),
    'gint': (S, 32), 'guint': (U, 32), 'glong': (S, 'plat'), 'gulong': (U, 'plat'),
    'gsize': (U, 'plat'), 'gssize': (S, 'plat'), 'gintptr': (S, 'plat'), 'guintptr': (U, 'plat'),
    # C spellings
    'char': (None, 'char'), 'signed char': (S, 8), 'unsigned char': (U, 8),
    'short': (S, 16), 'unsigned short': (U, 16), 'int': (S, 32), 'unsigned int': (U, 32),
    'unsigned': (U, 32), 'long': (S, 'plat'), 'unsigned long': (U, 'plat'),
    # stdint / stddef
    'int8_t': (S, 8), 'uint8_t': (U, 8), 'int16_t': (S, 16), 'uint16_t': (U, 16),
    'int32_t': (S, 32), 'uint32_t': (U, 32), 'int64_t': (S, 64), 'uint64_t': (U, 64),
    'size_t': (U, 'plat'), 'ssize_t': (S, 'plat'),
}
# which family a platform-width name belongs to (so that gulong is not "matched" by gsize)
PLAT_FAMILY = {'glong': 'long', 'gulong': 'long', 'long': 'long', 'unsigned long': 'long',
               'gsize': 'size', 'gssize': 'size', 'size_t': 'size', 'ssize_t': 'size',
               'gintptr': 'ptr', 'guintptr': 'ptr'}
# GIR fundamental integer names (docs/gir: the names g-ir-compiler knows)
GIR_INT_NAMES = ['gint8', 'guint8', 'gint16', 'guint16', 'gint32', 'guint32', 'gint64', 'guint64',
                 'gchar', 'guchar', 'gshort', 'gushort', 'gint', 'guint', 'glong', 'gulong', 'gsize',
                 'gssize', 'gintptr', 'guintptr']
# foreign aliases available from deps/GLib-2.0.gir:  C name -> (GIR name, underlying)
FOREIGN = {'GQuark': ('GLib.Quark', 'guint32'), 'GPid': ('GLib.Pid', 'gint')}

SPELLINGS_TYPEDEF = ['gint8', 'guint8', 'gint16', 'guint16', 'gint32', 'guint32', 'gint64', 'guint64',
                     'gchar', 'guchar', 'gshort', 'gushort', 'gint', 'guint', 'glong', 'gulong',
                     'gsize', 'gssize', 'gintptr', 'guintptr',
                     'int8_t', 'uint8_t', 'int16_t', 'uint16_t', 'int32_t', 'uint32_t', 'int64_t',
                     'uint64_t', 'size_t', 'ssize_t']
SPELLINGS_BASIC = ['char', 'signed char', 'unsigned char', 'short', 'unsigned short', 'int',
                   'unsigned int', 'unsigned', 'long', 'unsigned long']
# G_GINT64_CONSTANT()/G_GUINT64_CONSTANT(): the parser builds a *basic* type with these names
SPELLINGS_GCONST = ['gint64', 'guint64']


def type_class(name):
    sg, w = INT_TYPES[name]
    return (sg, w, PLAT_FAMILY.get(name))


def int_value_menu(tier):
    vals = [0, 1, -1, -2, 2, 127, 128, 200]
    for k in (8, 16, 32, 64):
        vals += [2 ** k - 1, 2 ** k, 2 ** k + 1, -2 ** (k - 1), -2 ** (k - 1) - 1, 2 ** (k - 1) - 1,
                 2 ** (k - 1), -(2 ** k - 1)]
    if tier == 'thorough':
        for k in (8, 16, 32, 64):
            vals += [2 ** k + 255, 2 ** k + 2 ** (k // 2), -2 ** k, -2 ** k - 1, 3 * 2 ** (k - 2),
                     2 ** (k + 1) - 1, 2 ** (k + 8) + 7]
        vals += [12345, -12345, 0x7fff0000, 0xdeadbeef, 0x123456789abcdef]
    # what the C parser can deliver: gint64, or guint64 for U-suffixed literals
    out = []
    for v in vals:
        if -2 ** 63 <= v <= 2 ** 64 - 1 and v not in out:
            out.append(v)
    return out


def expected_ints(underlying, v):
    """Acceptable emitted integers for value v declared with integer type `underlying`
    (a key of INT_TYPES), or None when the statement does not fix it."""
    sg, w = INT_TYPES[underlying]
    if w == 'char':
        return {v} if 0 <= v < 128 else None
    if sg is U:
        if w == 'plat':
            return {v % 2 ** 32, v % 2 ** 64}
        return {v % 2 ** w}
    # signed: as written, provided that is inside the type's range
    bits = 32 if w == 'plat' else w
    if -2 ** (bits - 1) <= v < 2 ** (bits - 1):
        return {v}
    return None


DEC = re.compile(r'^-?(0|[1-9][0-9]*)$')

STRINGS = ['', 'a', 'a"b', "it's", 'caf\u00e9', '<&>', ' lead and trail ', '\u65e5\u672c', 'tab\there',
           'two\nlines', '&amp;', 'back\\slash', '%s %d']
DOUBLES_MUST = [0.0, 1.0, -1.0, 1.5, -2.25, 0.5, 1000000.0, 3.141592, 255.0, 0.000001]
DOUBLES_UNSPEC = [1e-7, 0.1234567, 1e300, 2.5e-10]
CONST_IDENTS = ['FOO_X', 'FOO_MAX_VAL2']


def const_decls(case):
    """Declarations for one constant case: optional local alias chain + the constant."""
    decls = []
    line = 10
    spelled = case.get('spelling')
    tname = None
    if case['vkind'] == 'int' and spelled is not None:
        cur = spelled
        for d in range(case.get('depth', 0)):
            alias = 'FooT%d' % (d + 1)
            target = CT(CTYPE_BASIC_TYPE, cur) if (d == 0 and case.get('basic')) else cur
            t = Typedef(alias, target)
            t.file, t.line = '/src/foo.h', line
            line += 10
            decls.append(t)
            cur = alias
        tname = cur
        if case.get('depth', 0) == 0 and case.get('basic'):
            tname = CT(CTYPE_BASIC_TYPE, spelled)
    v = case['value']
    if case['vkind'] == 'bool':
        v = bool(v)
    elif case['vkind'] == 'double':
        v = float(v)
    c = Const(case['ident'], v, tname)
    c.file, c.line = case.get('file', '/src/foo.h'), line
    decls.append(c)
    return decls


def const_c_text(case):
    out = []
    cur = case.get('spelling')
    for d in range(case.get('depth', 0)):
        out.append('typedef %s FooT%d;' % (cur, d + 1))
        cur = 'FooT%d' % (d + 1)
    v = case['value']
    k = case['vkind']
    if k == 'bool':
        lit = 'TRUE' if v else 'FALSE'
    elif k == 'str':
        lit = '"%s"' % v.replace('\\', '\\\\').replace('"', '\\"').replace('\n', '\\n').replace('\t', '\\t')
    elif k == 'int' and case.get('basic') and cur in SPELLINGS_GCONST and not case.get('depth'):
        lit = 'G_G%s_CONSTANT (%d)' % (cur[1:].upper(), v)
        cur = None
    else:
        lit = repr(v)
    if cur and k == 'int':
        lit = '((%s) %s)' % (cur, lit)
    return '%s\n#define %s %s   /* in %s */' % ('\n'.join(out), case['ident'], lit, case.get('file', '/src/foo.h'))


def const_public(case):
    f = case.get('file', '/src/foo.h')
    return (not case['ident'].startswith('_')) and f is not None and f.endswith('.h')


CANON = {
    'guchar': 'guint8', 'unsigned char': 'guint8', 'uint8_t': 'guint8', 'signed char': 'gint8', 'int8_t': 'gint8',
    'uint16_t': 'guint16', 'int16_t': 'gint16', 'uint32_t': 'guint32', 'int32_t': 'gint32',
    'uint64_t': 'guint64', 'int64_t': 'gint64', 'char': 'gchar', 'short': 'gshort',
    'unsigned short': 'gushort', 'int': 'gint', 'unsigned int': 'guint', 'unsigned': 'guint',
    'long': 'glong', 'unsigned long': 'gulong', 'size_t': 'gsize', 'ssize_t': 'gssize',
}


def wrap_key(case, underlying):
    """Stable key for a wrong integer value: per GIR type the declaration denotes and the
    way the type was reached (directly / alias of an included namespace / local alias chain)."""
    canon = CANON.get(underlying, underlying)
    kind = 'const-wrap' if INT_TYPES[underlying][0] is U else 'const-value'
    depth = case.get('depth', 0)
    if depth >= 2:
        return '%s:alias-depth%d:%s' % (kind, depth, canon)
    if case.get('foreign'):
        return '%s:foreign-alias:%s' % (kind, canon)
    return '%s:%s' % (kind, canon)


def check_const(case):
    """Execute one constant case.  -> (violations, must, unspecified, outcome)"""
    decls = const_decls(case)
    includes = ['GLib-2.0'] if case.get('foreign') else []
    res = scanrun.scan(decls, includes=includes)
    viol = []
    must = unspec = 0
    if res.error:
        return [('const-crash', 'pipeline raised: %s' % res.error.splitlines()[0])], 1, 0, ('crash',)
    ns = girread.namespace_of(girread.parse(res.xml))
    consts = [k for k in ns.findall('constant')]
    ident = case['ident']
    kind = case['vkind']
    if not const_public(case):
        must += 1
        if consts:
            f = case.get('file', '/src/foo.h')
            key = 'const-nonpublic:underscore' if ident.startswith('_') else 'const-nonpublic:not-a-header'
            viol.append((key, 'non-public constant %s (file %s) was emitted: %r' % (ident, f, consts[0].attrib)))
        return viol, must, unspec, ('nonpublic', len(consts))
    must += 1
    # gir-1.2.rnc lets a constant carry its C name in c:type or in c:identifier
    mine = [k for k in consts if ident in (k.get('c:type'), k.get('c:identifier'))]
    if not mine and len(consts) == 1:
        # emitted, but not under its C name: report that and keep checking type and value
        viol.append(('const-cname', 'constant %s emitted without its C name: %r' % (ident, consts[0].attrib)))
        mine = consts
    if len(mine) != 1 or len(consts) != 1:
        viol.append(('const-missing:%s' % kind if not mine else 'const-duplicated',
                     'expected one <constant> carrying the C name %r, found %r (messages %r)'
                     % (ident, [k.attrib for k in consts], [r['text'] for r in res.records][:2])))
        return viol, must, unspec, ('count', len(consts))
    el = mine[0]
    if el.get('name') != ident[len('FOO_'):]:
        viol.append(('const-name', 'name=%r expected %r' % (el.get('name'), ident[len('FOO_'):])))
    ty = el.find('type')
    tname = ty.get('name') if ty is not None else None
    tctype = ty.get('c:type') if ty is not None else None
    val = el.get('value')
    if kind == 'str':
        if tname != 'utf8':
            viol.append(('const-type:string', 'type name=%r expected utf8' % tname))
        if val != case['value']:
            viol.append(('const-value:string', 'value=%r expected %r' % (val, case['value'])))
        return viol, must, unspec, ('str', tname, val == case['value'])
    if kind == 'bool':
        if tname != 'gboolean':
            viol.append(('const-type:boolean', 'type name=%r expected gboolean' % tname))
        exp = 'true' if case['value'] else 'false'
        if val != exp:
            viol.append(('const-value:boolean', 'value=%r expected %r' % (val, exp)))
        return viol, must, unspec, ('bool', tname, val)
    if kind == 'double':
        if tname != 'gdouble':
            viol.append(('const-type:double', 'type name=%r expected gdouble' % tname))
        try:
            f = float(val)
        except (TypeError, ValueError):
            f = None
        if f is None or not re.match(r'^-?[0-9.]+([eE][-+]?[0-9]+)?$', val):
            viol.append(('const-value:double', 'value=%r is not a decimal number' % val))
        elif case.get('dmust'):
            if f != float(case['value']):
                viol.append(('const-value:double', 'value=%r expected a rendering of %r' % (val, case['value'])))
        else:
            unspec += 1
        return viol, must, unspec, ('double', tname, f == float(case['value']))
    # ---- integers
    v = case['value']
    spelled = case.get('spelling')
    depth = case.get('depth', 0)
    if spelled is None:
        underlying = 'int'
        fits_int = -2 ** 31 <= v < 2 ** 31
        if fits_int:
            if tname not in INT_TYPES or type_class(tname) != type_class('gint'):
                viol.append(('const-type:untyped', 'type name=%r for a plain int literal, expected gint' % tname))
        else:
            unspec += 1
        exp = {v}
        key = 'const-value:untyped'
    else:
        if case.get('foreign'):
            girname, underlying = FOREIGN[spelled]
            if tname != girname or tctype != spelled:
                viol.append(('const-type:foreign-alias', 'type %r/%r expected %r/%r' % (tname, tctype, girname, spelled)))
        elif depth == 0:
            underlying = spelled
            if tctype != spelled:
                viol.append(('const-ctype:%s' % spelled, 'type c:type=%r expected %r' % (tctype, spelled)))
            if tname not in INT_TYPES or type_class(tname) != type_class(spelled):
                viol.append(('const-type:%s' % spelled, 'type name=%r does not denote the declared type %r'
                             % (tname, spelled)))
        else:
            underlying = spelled
            alias = 'FooT%d' % depth
            if tname != 'T%d' % depth or tctype != alias:
                viol.append(('const-type:alias-depth%d' % depth, 'type %r/%r expected %r/%r'
                             % (tname, tctype, 'T%d' % depth, alias)))
        exp = expected_ints(underlying, v)
        key = wrap_key(case, underlying)
    if val is None or not DEC.match(val):
        viol.append(('const-value:not-decimal', 'value=%r is not a decimal integer' % val))
        return viol, must, unspec, ('int', tname, 'garbled')
    got = int(val)
    if exp is None:
        unspec += 1
        how = 'unspec'
    else:
        if got not in exp:
            viol.append((key, '%s: value="%s" expected %s'
                         % (const_c_text(case).strip().replace('\n', ' '), val,
                            ' or '.join('"%d"' % e for e in sorted(exp)))))
        how = 'same' if got == v else 'wrapped'
    return viol, must, unspec, ('int', tname, how, got < 0)


# =========================================================================
# exploration
# =========================================================================
def check_case(case):
    if case['family'] == 'enum':
        return check_enum(case)
    return check_const(case)


def render(case):
    if case['family'] == 'enum':
        cfg = CONFIGS[case['cfg']]
        body = ', '.join('%s%s = %d' % ('/*< private >*/ ' if m[2] else '', m[0], m[1]) for m in case['members'])
        head = 'typedef enum { %s } %s;' % (body, case['name']) if case['typedef'] else \
            'enum %s { %s };' % (case['name'], body)
        return '%s%s   /* symbol prefixes %s */' % ('/*< flags >*/ ' if case['bitfield'] else '', head,
                                                   ','.join(cfg_prefixes(cfg))
                                                   + (', accept-unprefixed' if cfg_accept(cfg) else ''))
    return const_c_text(case).strip()


def seq_attrs(seq, values):
    """Values, bitfield flag and declaration form as a fixed function of the sequence."""
    h = 0
    for i, x in enumerate(seq):
        h = h * 31 + (x + 1) * (i + 7)
    vals = [values[(h + 5 * i) % len(values)] for i in range(len(seq))]
    return vals, bool(h & 1), not bool((h >> 1) % 3 == 0)


def _account(part, case, r, canon):
    viol, must, unspec, outcome = r
    part.add(evaluations=1, traces_validated_against_impl=1, states=1)
    if unspec:
        part.add(unspecified=unspec)
    if must:
        part.nontrivial(canon)
    part.outcome(outcome)
    for key, desc in viol:
        part.violation(key, desc + '   [' + render(case) + ']', case)


def _work_enum(chunk):
    """Part of the generation tree: the node `prefix` and, if `recurse`, everything below it.
    maskfull: up to this length every private mask is tried (longer: no / one private member for
    sequences over the sub-pool, no private member otherwise);
    fulllen: up to this length children range over the full pool; deeplen: up to this length
    over the sub-pool (for sequences drawn from the sub-pool only)."""
    tier, cfg, prefix, recurse, pool, deep_pool, maskfull, fulllen, deeplen = chunk
    part = Part()
    values = ENUM_VALUES_T if tier == 'thorough' else ENUM_VALUES
    idx_deep = [pool.index(x) for x in deep_pool]

    def visit(seq):
        vals, bitfield, typedef = seq_attrs(seq, values)
        n = len(seq)
        if n:
            part.add(transitions=1)          # generation step: extension by one identifier
        if n <= maskfull:
            masks = range(2 ** n)
        elif all(x in idx_deep for x in seq):
            masks = [0] + [1 << i for i in range(n)]
        else:
            masks = [0]                      # beyond maskfull outside the sub-pool: no private member
        for mask in masks:
            case = {'family': 'enum', 'cfg': cfg, 'name': 'FooE', 'bitfield': bitfield, 'typedef': typedef,
                    'members': [[pool[x], vals[i], bool(mask >> i & 1)] for i, x in enumerate(seq)]}
            r = check_enum(case)
            part.add(transitions=1)          # generation step: choice of the private mask
            _account(part, case, r, 'e%d:%s:%d' % (cfg, ','.join(map(str, seq)), mask))
            if mask == 0 and not part.samples and n >= 2 and (sum(seq) % 5 == 0):
                part.sample(render(case))

    def rec(seq):
        visit(seq)
        n = len(seq)
        if n < fulllen:
            cand = range(len(pool))
        elif n < deeplen and all(x in idx_deep for x in seq):
            cand = idx_deep
        else:
            return
        for x in cand:
            if x not in seq:
                rec(seq + [x])

    if recurse:
        rec(list(prefix))
    else:
        visit(list(prefix))
    return part.result()


def _work_enum_values(chunk):
    """All value tuples x bitfield x declaration form on fixed names."""
    tier, firsts = chunk
    part = Part()
    values = ENUM_VALUES_T if tier == 'thorough' else ENUM_VALUES
    names = ['FOO_V_A', 'FOO_V_B', 'FOO_V_C']
    arity = (2, 3) if tier == 'thorough' else (2,)
    import itertools
    for first in firsts:
        for n in arity:
            for rest in itertools.product(values, repeat=n - 1):
                tup = (first,) + rest
                for bitfield in (False, True):
                    for typedef in (True, False):
                        case = {'family': 'enum', 'cfg': 0, 'name': 'FooE', 'bitfield': bitfield,
                                'typedef': typedef,
                                'members': [[names[i], tup[i], False] for i in range(n)]}
                        r = check_enum(case)
                        part.add(transitions=1)
                        _account(part, case, r, 'ev:%r:%d%d' % (tup, bitfield, typedef))
        # a single member with every value (namespace-prefix rule + value)
        for bitfield in (False, True):
            case = {'family': 'enum', 'cfg': 0, 'name': 'FooE', 'bitfield': bitfield, 'typedef': True,
                    'members': [['FOO_V_A', first, False]]}
            part.add(transitions=1)
            _account(part, case, check_enum(case), 'ev1:%d:%d' % (first, bitfield))
    return part.result()


def const_cases_for_type(tier, spelling, basic=False, foreign=False):
    depths = (0,) if foreign else (0, 1, 2)
    for depth in depths:
        for v in int_value_menu(tier):
            for ident in (CONST_IDENTS if (tier == 'thorough' and depth == 0) else CONST_IDENTS[:1]):
                c = {'family': 'const', 'vkind': 'int', 'ident': ident, 'value': v, 'spelling': spelling,
                     'depth': depth, 'file': '/src/foo.h'}
                if basic:
                    c['basic'] = True
                if foreign:
                    c['foreign'] = True
                yield c


def const_misc_cases(tier):
    out = []
    for ident in CONST_IDENTS:
        for v in int_value_menu(tier):
            out.append({'family': 'const', 'vkind': 'int', 'ident': ident, 'value': v, 'spelling': None,
                        'file': '/src/foo.h'})
        for s in STRINGS:
            out.append({'family': 'const', 'vkind': 'str', 'ident': ident, 'value': s, 'file': '/src/foo.h'})
        for b in (True, False):
            out.append({'family': 'const', 'vkind': 'bool', 'ident': ident, 'value': b, 'file': '/src/foo.h'})
        for d in DOUBLES_MUST:
            out.append({'family': 'const', 'vkind': 'double', 'ident': ident, 'value': d, 'dmust': True,
                        'file': '/src/foo.h'})
        for d in DOUBLES_UNSPEC:
            out.append({'family': 'const', 'vkind': 'double', 'ident': ident, 'value': d, 'dmust': False,
                        'file': '/src/foo.h'})
    # non-public: not in a header, underscore names
    protos = [
        {'vkind': 'int', 'value': 5, 'spelling': None},
        {'vkind': 'int', 'value': -1, 'spelling': 'guint32', 'depth': 0},
        {'vkind': 'int', 'value': 7, 'spelling': 'gint64', 'depth': 0, 'basic': True},
        {'vkind': 'str', 'value': 'text'},
        {'vkind': 'bool', 'value': True},
        {'vkind': 'double', 'value': 1.5, 'dmust': True},
    ]
    for p in protos:
        for ident, f in (('FOO_X', '/src/foo.c'), ('FOO_X', '/src/foo.h.c'), ('FOO_X', '/src/sub/bar.h'),
                         ('_FOO_X', '/src/foo.h'), ('_FOO_X', '/src/foo.c'), ('FOO_X', '/src/foo.cpp'),
                         ('FOO_X', '/src/h')):
            c = dict(p)
            c.update({'family': 'const', 'ident': ident, 'file': f})
            out.append(c)
    return out


def _work_const(chunk):
    tier, what = chunk
    part = Part()
    if what[0] == 'type':
        cases = list(const_cases_for_type(tier, what[1], basic=what[2], foreign=what[3]))
    else:
        cases = const_misc_cases(tier)
    # collect every failing value per key so that one report lists them all
    perkey = {}
    n = 0
    for case in cases:
        r = check_const(case)
        viol, must, unspec, outcome = r
        part.add(transitions=1)
        part.add(evaluations=1, traces_validated_against_impl=1, states=1)
        if unspec:
            part.add(unspecified=unspec)
        if must:
            part.nontrivial('c:%s:%s:%r:%s:%s:%s' % (case['vkind'], case.get('spelling'), case['value'],
                                                    case.get('depth', 0), case['ident'], case.get('file'))
                            + (':b' if case.get('basic') else ''))
        part.outcome(outcome)
        for key, desc in viol:
            perkey.setdefault(key, []).append((desc, case))
        n += 1
        if n % 97 == 13:
            part.sample(render(case))
    for key in sorted(perkey):
        lst = perkey[key]
        desc, case = lst[0]
        if len(lst) > 1:
            desc += '   (+%d more failing inputs under this key, e.g. values %s)' % (
                len(lst) - 1, ', '.join(str(c['value']) for _, c in lst[1:6]))
        part.violation(key, desc, case)
    return part.result()


def case_size(case):
    """Simplest-first measure used to pick the reported reproduction of each key."""
    if case['family'] == 'enum':
        lastwords = [m[0].split('_')[-1] for m in case['members']]
        return (len(case['members']), sum(1 for m in case['members'] if m[2]), case['cfg'],
                len(lastwords) - len(set(lastwords)), sum(len(m[0]) for m in case['members']), repr(case))
    sp = case.get('spelling')
    return (case.get('depth', 0), sp is not None and sp in CANON, len(str(case['value'])), repr(case))


class _Collector(object):
    """Keeps, per violation key, the simplest reproduction - independent of dispatch order."""

    def __init__(self, ctx):
        self.ctx = ctx
        self.best = {}

    def merge(self, r):
        for key, desc, case in r.get('violations', ()):
            cur = self.best.get(key)
            if cur is None or case_size(case) < case_size(cur[1]):
                self.best[key] = (desc, case)
        r = dict(r)
        r['violations'] = []
        self.ctx.merge(r)

    def flush(self):
        for key in sorted(self.best):
            desc, case = self.best[key]
            self.ctx.violation(key, desc, case)


def run(ctx):
    thorough = ctx.tier == 'thorough'
    ctx.max_reports = 60
    col = _Collector(ctx)
    pool = POOL_QUICK + (POOL_EXTRA if thorough else [])
    deep_pool = POOL_DEEP
    maskfull = 3                    # every private mask up to this length
    fulllen = 4 if thorough else 3  # children over the full pool up to this length
    deeplen = 5 if thorough else 4  # children over the sub-pool up to this length
    ctx.set(rule='ENUM: every sequence of distinct member identifiers of length 0..%d over a %d-identifier pool and of '
                 'length %d..%d over a %d-identifier sub-pool; x every private mask up to length %d, {no, one} private '
                 'member beyond (sub-pool sequences; none for others); each under %d namespace configurations; plus a prefix-mix family: every sequence of length 0..%d over %d identifiers '
                 'under %d configurations (symbol prefixes foo+foolib in both orders, foo+foo_lib+bar, accept-unprefixed with '
                 'one and two prefixes); values/bitfield/declaration form are a fixed '
                 'function of the sequence; plus all value tuples x bitfield x form on fixed names.  CONST: one '
                 'constant per scan: %d integer type spellings x alias depth 0..2 x %d values, untyped ints, strings, '
                 'doubles, booleans, non-header files, underscore names.  Every case runs the whole scanner pipeline '
                 'and the emitted GIR is compared with the reference model; non-trivial = case with at least one MUST '
                 'answer; transitions = generation steps (extension by one member, choice of private mask, choice of '
                 'value)'
                 % (fulllen, len(pool), fulllen + 1, deeplen, len(deep_pool), maskfull, MAIN_CFGS,
                    4 if thorough else 3, len(MIX_POOL), len(CONFIGS) - MAIN_CFGS,
                    len(SPELLINGS_TYPEDEF) + len(SPELLINGS_BASIC) + len(SPELLINGS_GCONST) + len(FOREIGN),
                    len(int_value_menu(ctx.tier))),
            bounds={'enum_pool': pool, 'enum_deep_pool': deep_pool, 'enum_len_full_pool': fulllen,
                    'enum_len_sub_pool': deeplen, 'enum_all_masks_up_to': maskfull,
                    'enum_values': len(ENUM_VALUES_T if thorough else ENUM_VALUES), 'configs': MAIN_CFGS,
                    'mix_pool': MIX_POOL, 'mix_configs': [c['id'] for c in CONFIGS[MAIN_CFGS:]],
                    'mix_len': 4 if thorough else 3,
                    'const_values': len(int_value_menu(ctx.tier)), 'alias_depth': 2,
                    'strings': len(STRINGS), 'doubles': len(DOUBLES_MUST) + len(DOUBLES_UNSPEC)})
    # ---- constants: one chunk per type spelling
    cchunks = [(ctx.tier, ('type', s, False, False)) for s in SPELLINGS_TYPEDEF]
    cchunks += [(ctx.tier, ('type', s, True, False)) for s in SPELLINGS_BASIC + SPELLINGS_GCONST]
    cchunks += [(ctx.tier, ('type', s, False, True)) for s in sorted(FOREIGN)]
    cchunks.append((ctx.tier, ('misc',)))
    for r in pmap(_work_const, rotate(cchunks, ctx.seed)):
        col.merge(r)
    # ---- enumerations: chunks = root, each length-1 node, and the subtree below each length-2 node
    chunks = []
    common = (pool, deep_pool, maskfull, fulllen, deeplen)
    for cfg in range(MAIN_CFGS):
        chunks.append((ctx.tier, cfg, [], False) + common)
        for a in range(len(pool)):
            chunks.append((ctx.tier, cfg, [a], False) + common)
            for b in range(len(pool)):
                if a != b:
                    chunks.append((ctx.tier, cfg, [a, b], True) + common)
    # prefix-mix family: namespace prefixes of different length / accept-unprefixed, own small pool
    mixlen = 4 if thorough else 3
    mcommon = (MIX_POOL, MIX_POOL, maskfull, 3, mixlen)
    for cfg in range(MAIN_CFGS, len(CONFIGS)):
        chunks.append((ctx.tier, cfg, [], False) + mcommon)
        for a in range(len(MIX_POOL)):
            chunks.append((ctx.tier, cfg, [a], True) + mcommon)
    for r in pmap(_work_enum, rotate(chunks, ctx.seed)):
        col.merge(r)
    values = ENUM_VALUES_T if thorough else ENUM_VALUES
    for r in pmap(_work_enum_values, rotate([(ctx.tier, [v]) for v in values], ctx.seed)):
        col.merge(r)
    col.flush()
    ctx.assumptions += [
        'inputs are symbol trees as the C parser delivers them (const_int within gint64/guint64, base_type = cast type)',
        'gushort/unsigned short = 16 bits and guint/unsigned int = 32 bits (glibconfig.h) are taken as fixed widths',
        'gulong/gsize/guintptr/unsigned long/size_t: either 32- or 64-bit reduction accepted',
        'member-name oracle silent when a member is a word-prefix of another or when a private member changes the shared words',
        'with --accept-unprefixed a member carrying no namespace prefix keeps its whole identifier (nothing to remove)',
        'a member matching two namespace prefixes with different remainders (FOO_LIB_C under foo and foo_lib): name UNSPECIFIED',
        'deps/GLib-2.0.gir supplies the foreign aliases GQuark (guint32) and GPid (gint)',
    ]
    if len(ctx._outcomes) < 25 or len(ctx._nontrivial) < 1000:
        raise HarnessBroken('vacuous exploration: %d outcomes, %d non-trivial cases'
                            % (len(ctx._outcomes), len(ctx._nontrivial)))


def replay(ctx, case):
    print('input:')
    print(render(case))
    if case['family'] == 'enum':
        case = dict(case)
        case['members'] = [list(m) for m in case['members']]
        decls = enum_decls(case)
        res = scanrun.scan(decls, symbol_prefixes=CONFIGS[case['cfg']]['symbol_prefixes'],
                           accept_unprefixed=cfg_accept(CONFIGS[case['cfg']]))
        print('model:', enum_model(case))
    else:
        decls = const_decls(case)
        res = scanrun.scan(decls, includes=['GLib-2.0'] if case.get('foreign') else [])
    if res.error:
        print('pipeline error:', res.error)
    elif res.xml:
        ns = girread.namespace_of(girread.parse(res.xml))
        for k in ns.kids:
            if k.tag in ('constant', 'enumeration', 'bitfield', 'alias'):
                print('emitted: <%s %s>' % (k.tag, ' '.join('%s="%s"' % kv for kv in k.attrib.items())))
                for m in k.kids:
                    if m.tag in ('member', 'type'):
                        print('           <%s %s/>' % (m.tag, ' '.join('%s="%s"' % kv for kv in m.attrib.items())))
    viol, must, unspec, outcome = check_case(case)
    for key, desc in viol:
        print('DISAGREEMENT %s: %s' % (key, desc))
    print('must=%d unspecified=%d' % (must, unspec))
    return not viol
