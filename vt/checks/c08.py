"""C08 - record and union layout stored in typelibs equals the platform C ABI.

Generation-tree search (E1), differential against gcc: every struct/union/enum declaration
of a bounded space is rendered from ONE abstract model (vt/c/c08_model.py)
  (a) as C with real <stdint.h>/<sys/types.h> types, compiled by /usr/bin/gcc into a program
      printing sizeof / _Alignof / offsetof / enum signedness, and
  (b) as GIR (vt/girgen.py), compiled by g-ir-compiler rebuilt from /repo; the typelib is read
      with the independent decoder vt/typelib.py (StructBlob/UnionBlob size+alignment,
      FieldBlob.struct_offset, EnumBlob.storage_type).
The two must agree.  A hand-written x86-64 SysV layout calculator cross-checks the gcc rendering
(disagreement = broken harness, never a verdict).

Families
  seq   all member sequences up to a length bound over the member-kind alphabet, struct and union
  n1    one level of nesting: every inner layout of length <= 2 embedded (by value, as array, by pointer)
  n2    two levels of nesting, every inner layout of length <= 2
  en    every (min,max) pair over the boundary values, enumeration and bitfield, plus a struct embedding it
  x     shapes giscanner writes (or a person can write) that are handled by a separate mechanism; each has
        ONE stable violation key (flexible array members, non-introspectable members, inline anonymous
        struct/union members, function-pointer members of unions, offsets beyond 16 bits, void members;
        bit-fields are executed but UNSPECIFIED)
Every family is compiled with the helper / inner types declared before AND after their users.
"""
import itertools
import os
import re
import subprocess

from vt import typelib
from vt.c import build as cbuild, tools, c08_model as M
from vt.core import Part, pmap, chunked, rotate, HarnessBroken

LEVEL = 'model_checking'
GCC = '/usr/bin/gcc'
BATCH = 500

# ------------------------------------------------------------- alphabet ---
i8, u16, i32, i64 = ["b", "gint8"], ["b", "guint16"], ["b", "gint32"], ["b", "gint64"]
dbl, ptr = ["b", "gdouble"], ["b", "gpointer"]

HELPERS = [
    ["E", "HEs8", [-1, 1], 0], ["E", "HEu8", [0, 255], 0], ["E", "HEi16", [-129, 32767], 0],
    ["E", "HEu16", [0, 65535], 0], ["E", "HEi32", [-32769, 2147483647], 0], ["E", "HEu32", [0, 4294967295], 0],
    ["E", "HFl", [1, 2, 4], 1],
    ["C", "HCb"],
    ["S", "HSt", [i32, i8]],                       # size 8 align 4 (tail padding)
    ["U", "HUn", [["b", "gint16"], ["a", i8, 3]]],  # size 4 align 2
    ["S", "HE0", []],                              # empty struct (GNU C: size 0)
    ["O", "HOb", [ptr, i32]],                      # class instance struct
    ["B", "HBx", [i8, i64]],                       # boxed struct
    ["P", "HPt", "pointer"], ["P", "HDg", "disguised"],   # typedef struct _X *X;
    ["A", "HAl", "gint64"], ["A", "HAs", "gushort"],      # typedef gint64 X;
]
HENV = dict((d[1], d) for d in HELPERS)
HLOCAL = set(HENV)

CORE = [
    ('i8', i8), ('u16', u16), ('i32', i32), ('i64', i64), ('long', ["b", "glong"]), ('size', ["b", "gsize"]),
    ('flt', ["b", "gfloat"]), ('dbl', dbl), ('ptr', ptr), ('bool', ["b", "gboolean"]),
    ('en', ["e", "HEs8"]), ('arr', ["a", ["b", "gint16"], 3]), ('est', ["v", "HSt"]), ('eun', ["v", "HUn"]),
    ('pst', ["p", "HSt"]), ('cb', ["cb"]),
]
VARIANTS = [(n, ["b", n]) for n in (
    'guint8', 'gint16', 'guint32', 'guint64', 'gint', 'guint', 'gchar', 'guchar', 'gshort', 'gushort', 'gulong',
    'gssize', 'gintptr', 'guintptr', 'gunichar', 'GType', 'utf8', 'filename', 'time_t', 'off_t', 'pid_t', 'uid_t',
    'dev_t', 'gid_t', 'socklen_t')] + [
    ('eu8', ["e", "HEu8"]), ('ei16', ["e", "HEi16"]), ('eu16', ["e", "HEu16"]), ('ei32', ["e", "HEi32"]),
    ('eu32', ["e", "HEu32"]), ('efl', ["e", "HFl"]),
    ('arr1dbl', ["a", dbl, 1]), ('arr3i8', ["a", i8, 3]), ('arr3ptr', ["a", ptr, 3]), ('arr1i64', ["a", i64, 1]),
    ('arr2est', ["a", ["v", "HSt"], 2]), ('arr3eun', ["a", ["v", "HUn"], 3]), ('arr3en', ["a", ["e", "HEs8"], 3]),
    ('arr2pst', ["a", ["p", "HSt"], 2]),
    ('pun', ["p", "HUn"]), ('pen', ["p", "HEs8"]), ('pob', ["p", "HOb"]),
    ('cbt', ["ct", "HCb"]), ('parr', ["pa", ["b", "gint"]]),
    ('glist', ["gl", "list"]), ('gslist', ["gl", "slist"]), ('ghash', ["gl", "hash"]), ('gerror', ["gl", "error"]),
    ('empty', ["v", "HE0"]), ('eobj', ["v", "HOb"]), ('ebox', ["v", "HBx"]),
    ('ptrrec', ["d", "HPt"]), ('disguised', ["d", "HDg"]), ('alias64', ["al", "HAl"]), ('alias16', ["al", "HAs"]),
    ('arr2alias', ["a", ["al", "HAs"], 3]),
    # zero-length arrays (GNU C  T m[0];  GIR fixed-size="0"): size 0 but the alignment of T
    ('z8', ["a", i8, 0]), ('z16', ["a", ["b", "gint16"], 0]), ('z32', ["a", i32, 0]), ('z64', ["a", i64, 0]),
    ('zptr', ["a", ptr, 0]), ('zdbl', ["a", dbl, 0]),
]
# pointers that are array-typed in the GIR, alone and as elements of fixed-size arrays (gchar **lists[3],
# gint *rows[2], GPtrArray *buckets[2] ...): not part of the all-kinds alphabet, enumerated by position (see all_specs)
PTRARR = [('zarr', ["za", ["b", "utf8"]]), ('parr', ["pa", ["b", "gint"]]), ('garray', ["ga", "array"]),
          ('gptrarray', ["ga", "ptrarray"]), ('gbytearray', ["ga", "bytearray"]), ('glist', ["gl", "list"]),
          ('ghash', ["gl", "hash"])]
# pointers to scalars narrower than a pointer (guint8 *m ...), plus 64-bit controls
PSCALAR = [('p' + n, ["ps", n]) for n in ('gint8', 'guint8', 'gint16', 'guint16', 'gint32', 'guint32', 'gint', 'gboolean',
                                          'gfloat', 'gunichar', 'gint64', 'gdouble')]
EXTRA = [(n, t) for n, t in PTRARR if n not in ('parr', 'glist', 'ghash')] + \
        [('%s[%d]' % (n, k), ["a", t, k]) for k in (1, 2, 3) for n, t in PTRARR] + PSCALAR + [
            # by-value arrays carrying BOTH fixed-size=N and zero-terminated="1": still N elements
            ('zt-gint8[3]', ["a", i8, 3, 1]), ('zt-gint16[3]', ["a", ["b", "gint16"], 3, 1]),
            ('zt-gint32[2]', ["a", i32, 2, 1]), ('zt-gpointer[2]', ["a", ptr, 2, 1]), ('zt-gdouble[1]', ["a", dbl, 1, 1]),
            ('zt-utf8[2]', ["a", ["b", "utf8"], 2, 1])]
ATOMS = CORE + VARIANTS + EXTRA
NCORE = len(CORE)
NALL = len(CORE) + len(VARIANTS)       # kinds of the all-kinds alphabet
EXTRA_IDX = list(range(NALL, len(ATOMS)))
EXTRA_N2_IDX = [i for i in EXTRA_IDX if ATOMS[i][0].endswith('[2]')]
PS_IDX = [i for i in EXTRA_IDX if ATOMS[i][1][0] == 'ps']
ATOMS.append(('icb', ["icb"]))           # bare <callback> child of a <record> (structs only, see all_specs)
ICB = len(ATOMS) - 1
CB = [n for n, _ in ATOMS].index('cb')
# scalar kinds used for the exhaustive inner layouts of the nesting families
INNER = [a for a in CORE if a[0] in ('i8', 'u16', 'i32', 'i64', 'flt', 'dbl', 'ptr', 'bool', 'en', 'arr', 'cb', 'long')]
INNER_IDX = [[n for n, _ in ATOMS].index(a[0]) for a in INNER]

ZNAMES = ('z8', 'z16', 'z32', 'z64', 'zptr', 'zdbl')
Z_IDX = [[n for n, _ in ATOMS].index(z) for z in ZNAMES]
# zero-length arrays are tried in first / middle / last position among these
ZSEQ_IDX = [[n for n, _ in ATOMS].index(z) for z in ('i8', 'i32', 'ptr', 'dbl')] + Z_IDX

ENUM_VALUES = [-(1 << 63), -(1 << 31) - 1, -(1 << 31), -32769, -32768, -129, -128, -1, 0, 1, 127, 128, 255, 256,
               32767, 32768, 65535, 65536, (1 << 31) - 1, 1 << 31, (1 << 32) - 1, 1 << 32, (1 << 63) - 1]

N1_CTX = ['X', 'i8,X', 'X,i8', 'i8,X,i8', 'i8,X2,i8', 'i8,PX,i8', 'dbl,X', 'X,ptr']
N2_MID = ['S:X', 'S:i8,X', 'S:X,i8', 'U:i8,X', 'U:X,dbl', 'S:X2']
N2_OUT = ['S:i8,X,i8', 'U:i8,X', 'S:X,i8', 'S:PX,X']
PERMS3 = [list(p) for p in itertools.permutations(range(3))]


def _ctx_members(spec, name):
    out = []
    for tok in spec.split(','):
        if tok == 'X':
            out.append(["v", name])
        elif tok == 'X2':
            out.append(["a", ["v", name], 2])
        elif tok == 'PX':
            out.append(["p", name])
        else:
            out.append(dict(ATOMS)[tok])
    return out


# --------------------------------------------------- explicit mechanism cases ---
def _x_cases():
    out = []
    small = [('i8', i8), ('i32', i32), ('ptr', ptr)]
    pre = [[a] for a in small] + [[a, b] for a in small for b in small]
    # flexible array member (giscanner: <array zero-terminated="0"> with neither fixed-size nor c:type)
    for en, el in (('i8', i8), ('i32', i32), ('dbl', dbl), ('est', ["v", "HSt"])):
        for p in pre:
            out.append(('flex:%s:%s' % (','.join(n for n, _ in p), en),
                        [["S", "O", [t for _, t in p] + [["flex", el]]]], 'unknown:flex-array', None))
    out.append(('flex:embedded', [["S", "I", [i8, ["flex", i8]]], ["S", "O", [i8, ["v", "I"], i8]]],
                'unknown:flex-array', None))
    # non-introspectable members
    pats = [('X', lambda x: [x]), ('i8,X', lambda x: [i8, x]), ('X,i8', lambda x: [x, i8]),
            ('i8,X,i8', lambda x: [i8, x, i8]), ('ptr,X,ptr', lambda x: [ptr, x, ptr])]
    for tn, t in (('unknown-type', ["ni", "CNotInGir"]), ('long-double', ["ni", "long double"]),
                  ('gint8', ["nik", "gint8"]), ('gdouble', ["nik", "gdouble"]), ('gpointer', ["nik", "gpointer"])):
        for pn, f in pats:
            for c in 'SU':
                out.append(('nonintrospectable:%s:%s:%s' % (c, tn, pn), [[c, "O", f(t)]],
                            'unknown:nonintrospectable-field', None))
    # void member (not valid C; only a hand-written GIR can have it)
    for c, ms in (('S', [i8, ["void"], i8]), ('U', [i8, ["void"]]), ('S', [["void"]])):
        out.append(('void:%s:%d' % (c, len(ms)), [[c, "O", ms]], 'unknown:void-field', None))
    # inline anonymous struct / union members (giscanner nests the <record>/<union> element in the parent)
    s3 = [('i8', i8), ('i32', i32), ('dbl', dbl)]
    inner = [[a] for a in s3] + [[a, b] for a in s3 for b in s3]
    for oc in 'SU':
        for ic in 'SU':
            mech = 'inline-nested:dropped' if oc != ic else 'inline-nested:abort'
            for inn in (inner if oc != ic else inner[:3] + inner[5:6]):
                an = ["anon", int(ic == 'U'), [t for _, t in inn]]
                for pn, f in pats[:4]:
                    out.append(('anon:%s:%s(%s):%s' % (oc, ic, ','.join(n for n, _ in inn), pn),
                                [[oc, "O", f(an)]], mech, None))
    # function-pointer member of a union
    for ms, n in (([["cb"]], 'cb'), ([i8, ["cb"]], 'i8,cb'), ([["cb"], dbl], 'cb,dbl'), ([i8, ["cb"], dbl], 'i8,cb,dbl')):
        out.append(('union-callback:%s' % n, [["U", "O", ms]], 'union-callback-field:abort', None))
    out.append(('union-callback:embedded', [["U", "I", [i8, ["cb"]]], ["S", "O", [i8, ["v", "I"]]]],
                'union-callback-field:abort', None))
    # bare <callback> child of a <union> (hand-written GIR; the scanner wraps function pointers in <field>)
    for ms, n in (([["icb"]], 'icb'), ([["icb"], i8], 'icb,i8'), ([i8, ["icb"]], 'i8,icb'), ([i32, ["icb"], i8], 'i32,icb,i8')):
        out.append(('union-bare-callback:%s' % n, [["U", "O", ms]], 'union-bare-callback:ignored', None))
    out.append(('union-bare-callback:embedded', [["U", "I", [i8, ["icb"]]], ["S", "O", [i8, ["v", "I"]]]],
                'union-bare-callback:ignored', None))
    # offsets that do not fit FieldBlob.struct_offset (16 bits; 0xFFFF means unknown)
    for k in (65533, 65534, 65535, 65536, 70000):
        out.append(('large:i8[%d]' % k, [["S", "O", [["a", i8, k], i8, i8, i8]]], 'offset:overflow16', None))
    out.append(('large:i32[16384]', [["S", "O", [["a", i32, 16384], i8, i32]]], 'offset:overflow16', None))
    out.append(('large:embedded', [["S", "I", [["a", i64, 8192]]], ["S", "O", [i8, ["v", "I"], i8, ["v", "I"], i8]]],
                'offset:overflow16', None))
    # bit-fields: no offset semantics in the format (DESIGN C08 L.) -> executed, UNSPECIFIED
    for a in (1, 3, 8, 31):
        for b in (1, 5, 32):
            out.append(('bits:%d,%d' % (a, b),
                        [["S", "O", [i8, ["bits", "guint", a], ["bits", "guint", b], i8]]], None, 'bit-field'))
    out.append(('bits:only', [["S", "O", [["bits", "guint", 3]]]], None, 'bit-field'))
    out.append(('bits:union', [["U", "O", [["bits", "guint", 3], i8]]], None, 'bit-field'))
    return out


SOLO_MECHS = ('inline-nested:abort', 'union-callback-field:abort', 'unknown:void-field')
X_CASES = _x_cases()
X_INDEX = dict((c[0], i) for i, c in enumerate(X_CASES))


# ------------------------------------------------------------- case specs ---
def expand(spec):
    """spec (small tuple) -> {'k': key, 'f': family, 'd': decls in dependency order, 'm': mechanism key or None,
    'u': reason if UNSPECIFIED}"""
    spec = tuple(spec)
    fam = spec[0]
    if fam == 'seq':
        _, cont, idx = spec
        return {'k': 'seq:%s:%s' % (cont, ','.join(ATOMS[i][0] for i in idx)), 'f': fam,
                'd': [[cont, "O", [ATOMS[i][1] for i in idx]]], 'm': None, 'u': None}
    if fam == 'n1':
        _, ic, idx, ctx, oc = spec
        return {'k': 'n1:%s(%s):%s[%s]' % (ic, ','.join(ATOMS[i][0] for i in idx), oc, N1_CTX[ctx]), 'f': fam,
                'd': [[ic, "I", [ATOMS[i][1] for i in idx]], [oc, "O", _ctx_members(N1_CTX[ctx], "I")]],
                'm': None, 'u': None}
    if fam == 'n2':
        _, ic, idx, mid, outer = spec
        mc, mspec = N2_MID[mid].split(':')
        oc, ospec = N2_OUT[outer].split(':')
        return {'k': 'n2:%s(%s):%s:%s' % (ic, ','.join(ATOMS[i][0] for i in idx), N2_MID[mid], N2_OUT[outer]),
                'f': fam,
                'd': [[ic, "I", [ATOMS[i][1] for i in idx]], [mc, "M", _ctx_members(mspec, "I")],
                      [oc, "O", _ctx_members(ospec, "M")]], 'm': None, 'u': None}
    if fam == 'en':
        _, lo, hi, flags = spec
        vals = [lo] if lo == hi else ([hi, lo] if flags else [lo, hi])     # both member orders
        big = M.enum_abi(vals)[0] == 8
        return {'k': 'en:%s:%d..%d' % ('bitfield' if flags else 'enumeration', lo, hi), 'f': fam,
                'd': [["E", "E", vals, flags], ["S", "O", [i8, ["e", "E"], i8]], ["U", "V", [["a", ["e", "E"], 3], i8]]],
                'm': 'enum-storage:64bit' if big else None, 'u': None}
    if fam == 'ns':
        dep, local, users = ns_decls(*spec[1:])
        return {'k': 'ns:inner%d:value%d:local%d' % tuple(spec[1:]), 'f': fam, 'd': dep + local + users, 'm': None,
                'u': None}
    if fam == 'unk':
        k, decls = UNK_CASES[UNK_INDEX[spec[1]]]
        return {'k': 'unk:' + k, 'f': fam, 'd': decls, 'm': None, 'u': None}
    if fam in ('x', 'xs'):
        k, decls, mech, unspec = X_CASES[X_INDEX[spec[1]]]
        return {'k': 'x:' + k, 'f': fam, 'd': decls, 'm': mech, 'u': unspec}
    raise ValueError(spec)


# two namespaces: Dep defines Inner, Value and Outer {Inner i; Value v; gint8 t;} with UNQUALIFIED references;
# App embeds Dep.Outer by value, without / with same-named local types Inner and Value of another layout
NS_INNER = [[i8], [dbl], [i32, i8], [i8, i64]]
NS_VALUE = [["U", [["b", "gint16"], ["a", i8, 3]]], ["U", [dbl, i8]], ["E", [-1, 1]]]
NS_LOCAL = [None, ([dbl, dbl, i8], [i64, ["a", i8, 9]]), ([i8], [i8])]


def ns_decls(ii, vi, li):
    v = NS_VALUE[vi]
    dv = ["E", "DepValue", v[1], 0] if v[0] == 'E' else ["U", "DepValue", v[1]]
    dep = [["S", "DepInner", NS_INNER[ii]], dv,
           ["S", "DepOuter", [["v", "DepInner"], ["e" if v[0] == 'E' else "v", "DepValue"], i8]]]
    local = []
    if NS_LOCAL[li]:
        local = [["S", "Inner", NS_LOCAL[li][0]], ["U", "Value", NS_LOCAL[li][1]]]
    ov = ["xv", "Dep.Outer", "DepOuter"]
    users = [["S", "A", [i8, ov, i8]], ["U", "B", [i8, ov]], ["S", "M", [ov]], ["S", "N", [i8, ["v", "M"], i8]],
             ["S", "P", [i8, ["a", ov, 2]]]]
    return dep, local, users


def _strip_dep(x):
    if isinstance(x, list):
        return [_strip_dep(y) for y in x]
    if isinstance(x, str) and x.startswith('Dep') and len(x) > 3 and x[3].isupper():
        return x[3:]
    return x


def ns_solo(b, spec, order, wd, gcc):
    """-> (problems, info).  order[0]: the same-named local types come before (1) / after (0) their users"""
    c = expand(spec)
    dep, local, users = ns_decls(*spec[1:])
    inc = os.path.join(wd, 'nsinc')
    os.makedirs(inc, exist_ok=True)
    ddecls = [_strip_dep(d) for d in dep]
    dl = set(d[1] for d in ddecls)
    depdoc = M.G.Doc('Dep', '1.0', [M.gir_entry(d, '', dl) for d in ddecls], shared_library='libdep.so.0',
                     c_prefix='Dep', symbol_prefix='dep')
    with open(os.path.join(inc, 'Dep-1.0.gir'), 'w') as f:
        f.write(depdoc.xml())
    app = (local + users) if order[0] else (list(reversed(users)) + local)
    al = set(d[1] for d in app)
    appdoc = M.G.Doc('Test', '1.0', [M.gir_entry(d, '', al) for d in app], includes=[('Dep', '1.0')],
                     shared_library='libtest.so.0', c_prefix='C', symbol_prefix='c')
    xml = appdoc.xml()
    rc, err, data = tools.compile_gir(b, xml, wd, includedirs=[inc])
    err = _clean(err)
    info = {'rc': rc, 'stderr': err.strip()[-400:], 'gir': xml, 'dep_gir': depdoc.xml()}
    if rc != 0 or data is None:
        return [('rejected', 'g-ir-compiler exit %d: %s' % (rc, err.strip()[-300:]))], info
    model, fprobs = typelib.decode(data)
    if model is None:
        return [('undecodable', repr(fprobs))], info
    ents = dict((e['name'], e) for e in model['entries'] if e.get('local'))
    env = dict((d[1], d) for d in c['d'])
    probs = []
    for d in local + users:
        probs += compare_decl(d, env, gcc.get(('', d[1])), ents.get(d[1]))
    info['typelib'] = dict((d[1], _brief(ents.get(d[1]))) for d in local + users)
    return probs, info


# "unknown layout" clause, observed through vt/c/drv_layout.c (the compiler's own code with warnings left non-fatal;
# the g-ir-compiler binary aborts on every member of unknown size): void members and arrays of void, in every
# position, and records of unknown layout embedded by value / as array / two levels deep / by pointer (control)
def _unk_cases():
    out = []
    u8, u32 = ["b", "guint8"], ["b", "guint32"]
    base = [('u8', u8), ('u16', u16), ('u32', u32), ('ptr', ptr)]
    unk = [('void', ["void"]), ('void[3]', ["a", ["void"], 3])]
    alpha = base + unk
    for cont, maxlen in (('S', 3), ('U', 2)):
        for L in range(1, maxlen + 1):
            for seq in itertools.product(alpha, repeat=L):
                if any(t[0] in ('void', 'a') for _, t in seq):
                    out.append(('%s:%s' % (cont, ','.join(n for n, _ in seq)), [[cont, "O", [t for _, t in seq]]]))
    for iname, inner in (('S(void)', ["S", "I", [["void"]]]), ('S(u8,void)', ["S", "I", [u8, ["void"]]]),
                         ('S(void,u32)', ["S", "I", [["void"], u32]]), ('U(u8,void)', ["U", "I", [u8, ["void"]]]),
                         ('S(u8,void[3],u16)', ["S", "I", [u8, ["a", ["void"], 3], u16]])):
        iv = ["v", "I"]
        out.append(('embed:' + iname, [
            inner,
            ["S", "O", [u16, iv, u32]], ["U", "V", [iv, dbl]], ["S", "A", [u8, ["a", iv, 3], u8]],
            ["S", "M", [u8, iv]], ["S", "N", [u16, ["v", "M"], u32]], ["U", "W", [u8, ["v", "M"]]],
            ["S", "Q", [["p", "I"], u8]],                  # a POINTER to it has a known size
        ]))
    return out


UNK_CASES = _unk_cases()
UNK_INDEX = dict((c[0], i) for i, c in enumerate(UNK_CASES))


def seqs(n_atoms, maxlen, skip_all_below=None, exclude=()):
    for L in range(1, maxlen + 1):
        for idx in itertools.product(range(n_atoms), repeat=L):
            if skip_all_below is not None and all(i < skip_all_below for i in idx):
                continue
            if any(i in exclude for i in idx):
                continue
            yield idx


def all_specs(tier):
    thorough = tier == 'thorough'
    out = []
    core_len = 4 if thorough else 3
    for cont in 'SU':
        ex = (CB,) if cont == 'U' else ()      # function-pointer members of unions: family x
        for idx in seqs(NCORE, core_len, exclude=ex):
            out.append(('seq', cont, idx))
        for idx in seqs(NALL, 2, skip_all_below=NCORE, exclude=ex):
            out.append(('seq', cont, idx))
        if thorough:
            # length 3 with exactly one non-core kind, at every position
            for idx in itertools.product(range(NALL), repeat=3):
                if sum(1 for i in idx if i >= NCORE) == 1 and not any(i in ex for i in idx):
                    out.append(('seq', cont, idx))
    # length 3 with at least one zero-length array (first / middle / last) among i8, i32, ptr, dbl
    have = set(out) if thorough else ()
    for cont in 'SU':
        for idx in itertools.product(ZSEQ_IDX, repeat=3):
            if any(i in Z_IDX for i in idx) and ('seq', cont, idx) not in have:
                out.append(('seq', cont, idx))
    # array-typed pointers and fixed-size arrays of them: alone, and in first / middle / last position
    base = ZSEQ_IDX[:4]
    for cont in 'SU':
        for x in EXTRA_IDX:
            out.append(('seq', cont, (x,)))
            for a in base:
                out.append(('seq', cont, (x, a)))
                out.append(('seq', cont, (a, x)))
                for b in (base[0], base[3]):
                    out.append(('seq', cont, (x, a, b)))
                    out.append(('seq', cont, (a, x, b)))
                    out.append(('seq', cont, (a, b, x)))
    # bare <callback> element in a record: alone and with only sub-pointer-aligned members around it
    sub = (ZSEQ_IDX[0], ZSEQ_IDX[1])             # i8, i32
    out.append(('seq', 'S', (ICB,)))
    out.append(('seq', 'S', (ICB, ICB)))
    for a in sub:
        out.append(('seq', 'S', (ICB, a)))
        out.append(('seq', 'S', (a, ICB)))
        for b2 in sub:
            out.append(('seq', 'S', (ICB, a, b2)))
            out.append(('seq', 'S', (a, ICB, b2)))
            out.append(('seq', 'S', (a, b2, ICB)))
    inner1 = []                                     # inner layouts embedded through every n1 context, one n2 shape
    for ic in 'SU':
        for x in EXTRA_N2_IDX:                      # ... and nested by value in another record
            inner1.append((ic, (x,)))
            inner1.append((ic, (base[0], x)))
    inner = []
    for ic in 'SU':
        for L in (1, 2):
            for idx in itertools.product(INNER_IDX, repeat=L):
                if ic == 'U' and CB in idx:
                    continue
                inner.append((ic, idx))
    # records made only of zero-length arrays (size 0, alignment of the element), embedded like the others
    for ic in 'SU':
        for L in (1, 2):
            for idx in itertools.product(Z_IDX, repeat=L):
                inner1.append((ic, idx))
    inner1 += [(ic, idx) for ic in 'SU' for x in PS_IDX for idx in ((x,), (base[0], x))]
    inner1 += [('S', (ICB,)), ('S', (ICB, sub[1])), ('S', (sub[0], ICB))]
    for ic, idx in inner + inner1:
        for ctx in range(len(N1_CTX)):
            for oc in 'SU':
                out.append(('n1', ic, idx, ctx, oc))
    for ic, idx in inner:
        for mid in range(len(N2_MID)):
            for outer in range(len(N2_OUT)):
                out.append(('n2', ic, idx, mid, outer))
    for ic, idx in inner1:
        out.append(('n2', ic, idx, 1, 0))
    pairs = [(lo, hi) for a, lo in enumerate(ENUM_VALUES) for hi in ENUM_VALUES[a:]]
    pairs.sort(key=lambda p: (max(abs(p[0]), abs(p[1])), p))        # simplest first
    for lo, hi in pairs:
        for flags in (0, 1):
            out.append(('en', lo, hi, flags))
    for ii in range(len(NS_INNER)):
        for vi in range(len(NS_VALUE)):
            for li in range(len(NS_LOCAL)):
                out.append(('ns', ii, vi, li))
    for c in X_CASES:
        out.append(('xs' if c[2] in SOLO_MECHS else 'x', c[0]))
    for c in UNK_CASES:
        out.append(('unk', c[0]))
    return out


def orders_for(fam, tier):
    """list of (helpers_first, permutation of the case's declarations)"""
    thorough = tier == 'thorough'
    if fam == 'seq':
        return [(1, 'dep'), (0, 'dep')]
    if fam == 'n2':
        if thorough:
            return [(1, p) for p in PERMS3] + [(0, p) for p in PERMS3]
        return [(1, 'dep'), (0, 'rev'), (1, [1, 2, 0]), (0, [2, 0, 1])]
    if fam in ('n1', 'en'):
        if thorough or fam == 'en':
            return [(1, 'dep'), (0, 'rev'), (1, 'rev'), (0, 'dep')]
        return [(1, 'dep'), (0, 'rev')]
    return [(1, 'dep'), (0, 'rev')]


# ---------------------------------------------------------------- running ---
def run_gcc(groups, wd, tag):
    src = os.path.join(wd, tag + '.c')
    exe = os.path.join(wd, tag + '.exe')
    text = M.c_program(groups)
    with open(src, 'w') as f:
        f.write(text)
    p = subprocess.run([GCC, '-std=gnu11', '-O0', '-w', '-pipe', '-o', exe, src], stdout=subprocess.PIPE,
                       stderr=subprocess.STDOUT)
    if p.returncode != 0:
        raise HarnessBroken('gcc rejected the generated C:\n%s\n%s' % (p.stdout.decode('utf-8', 'replace')[-1500:],
                                                                    text[-1500:]))
    q = subprocess.run([exe], stdout=subprocess.PIPE, stderr=subprocess.STDOUT)
    if q.returncode != 0:
        raise HarnessBroken('layout printer failed: %r' % q.stdout[-300:])
    nums = [int(x) for x in q.stdout.split()]
    return M.split_numbers(groups, nums)


def gcc_numbers(cases, wd, tag):
    """cases: list of (pfx, case).  -> {(pfx, declname): numbers}; cross-checked with the ABI calculator."""
    groups = [('', HELPERS)] + [(pfx, c['d']) for pfx, c in cases if M.c_compilable(c['d'])]
    got = run_gcc(groups, wd, tag)
    for pfx, decls in groups:
        env = dict(HENV)
        env.update((d[1], d) for d in decls)
        for d in decls:
            want = M.model_numbers(d, env)
            if want is not None and want != got.get((pfx, d[1])):
                raise HarnessBroken('gcc and the x86-64 ABI calculator disagree on %s%s: gcc %r, calculator %r\n%s'
                                    % (pfx, d[1], got.get((pfx, d[1])), want, M.show_c(decls, pfx)))
    return got


def _clean(err):
    """compiler diagnostics without process ids, times and scratch paths (stable replay files)"""
    err = re.sub(r'\(g-ir-compiler:\d+\)', '(g-ir-compiler)', err)
    err = re.sub(r'\d\d:\d\d:\d\d\.\d+', '', err)
    err = re.sub(r'/\S*/(Test-1\.0\.gir)', r'\1', err)
    return '\n'.join(l for l in err.splitlines() if l.strip() and l.strip() != '**')


def compile_with_driver(b, xml, wd):
    """like tools.compile_gir, but through vt/c/drv_layout.c (warnings not fatal, typelib not validated)"""
    gir = os.path.join(wd, 'Test-1.0.gir')
    out = os.path.join(wd, 'Test-1.0.typelib')
    with open(gir, 'w', encoding='utf-8') as f:
        f.write(xml)
    try:
        os.unlink(out)
    except FileNotFoundError:
        pass
    p = subprocess.run([b.driver('drv_layout'), tools.DEPS, gir, out], stdout=subprocess.PIPE,
                       stderr=subprocess.PIPE, env=b.env(), cwd=wd)
    data = None
    if p.returncode == 0 and os.path.exists(out):
        with open(out, 'rb') as f:
            data = f.read()
    return p.returncode, (p.stdout + p.stderr).decode('utf-8', 'replace'), data


def compile_doc(b, cases, order, wd, driver=False):
    """-> (rc, stderr, {entry name: decoded entry} or None, xml)"""
    hfirst, perm = order
    groups = []
    for pfx, c in cases:
        groups.append((pfx, M.order_decls(c['d'], perm), set(d[1] for d in c['d'])))
    h = ('', HELPERS if perm != 'rev' else list(reversed(HELPERS)), HLOCAL)
    groups = ([h] + groups) if hfirst else (groups + [h])
    xml = M.gir_doc(groups).xml()
    rc, err, data = compile_with_driver(b, xml, wd) if driver else tools.compile_gir(b, xml, wd)
    err = _clean(err)
    if rc != 0 or data is None:
        return rc, err, None, xml
    model, fprobs = typelib.decode(data)
    if model is None:
        return rc, 'typelib undecodable: %r' % (fprobs,), None, xml
    ents = {}
    for e in model['entries']:
        if e.get('local'):
            ents[e['name']] = e
    return rc, err, ents, xml


TAGSZ = {'gint8': (1, 1), 'guint8': (1, 0), 'gint16': (2, 1), 'guint16': (2, 0), 'gint32': (4, 1),
         'guint32': (4, 0), 'gint64': (8, 1), 'guint64': (8, 0)}


def stored_offset(o):
    return o if o <= 0xFFFE else 0xFFFF      # 0xFFFF: "struct offset is unknown" (gitypelib-internal.h)


def plausible(size, align):
    return size < 0x80000000 and align in (1, 2, 4, 8, 16, 32)


def compare_decl(d, env, gcc, ent, part=None):
    """-> list of (aspect, text); [] = the typelib agrees with the C ABI (or the outcome is UNSPECIFIED)"""
    name = d[1]
    if d[0] in ('C', 'O', 'P', 'A'):
        return []
    if ent is None:
        return [('missing-entry', '%s has no typelib entry' % name)]
    if d[0] == 'E':
        st = TAGSZ.get(ent.get('storage_type'))
        if st is None:
            return [('storage-type', '%s: EnumBlob.storage_type=%r is not an integer type' % (name, ent.get('storage_type')))]
        if st[0] != gcc[0]:
            return [('storage-size', '%s {%s}: EnumBlob.storage_type=%s (%d bytes), gcc sizeof=%d'
                     % (name, ','.join(map(str, d[2])), ent['storage_type'], st[0], gcc[0]))]
        if st[1] != gcc[2]:
            return [('storage-sign', '%s {%s}: EnumBlob.storage_type=%s, gcc says %s'
                     % (name, ','.join(map(str, d[2])), ent['storage_type'], 'signed' if gcc[2] else 'unsigned'))]
        return []
    members = d[2]
    union = d[0] == 'U'
    if ent.get('kind') not in (('union',) if union else ('struct', 'boxed')):
        return [('kind', '%s: typelib entry is a %s' % (name, ent.get('kind')))]
    fields = dict((f['name'], f) for f in ent['fields'])
    tsize, talign = ent['size'], ent['alignment']
    probs = []
    if M.decl_has_kind(d, ('bits',)):
        return []                                  # UNSPECIFIED (counted by the caller)
    fu = M.first_unknown(d, env)
    if fu is None:
        if gcc is None:        # the case as a whole is not valid C (void member elsewhere): x86-64 ABI calculator
            lay = M.compound_layout(d, env)
            gcc = [lay['size'], lay['align']] + lay['offsets']
        size, align, offs = gcc[0], gcc[1], gcc[2:]
        if tsize != size:
            probs.append(('size', '%s: typelib size %d, gcc sizeof %d' % (name, tsize, size)))
        if talign != align:
            probs.append(('alignment', '%s: typelib alignment %d, gcc _Alignof %d' % (name, talign, align)))
        nf = len([t for t in members if t[0] != 'icb'])      # a bare <callback> member has no FieldBlob
        if len(ent['fields']) != nf:
            probs.append(('n_fields', '%s: %d field members in C, %d FieldBlobs' % (name, nf, len(ent['fields']))))
        for i, o in enumerate(offs):
            if members[i][0] == 'icb':
                continue
            f = fields.get('m%d' % i)
            if f is None:
                probs.append(('field-missing', '%s.m%d has no FieldBlob' % (name, i)))
            elif f['struct_offset'] != stored_offset(o):
                probs.append(('offset', '%s.m%d: typelib struct_offset %d, gcc offsetof %d%s'
                              % (name, i, f['struct_offset'], o, ' (must be stored as 0xFFFF)' if o > 0xFFFE else '')))
        return probs
    # a member of unknown size: unknown layout, or exactly what gcc says - never another finite number
    if gcc is not None:
        gsize, galign, goffs = gcc[0], gcc[1], gcc[2:]
    else:
        gsize = galign = None
        pre = M.compound_layout([d[0], name, members[:fu]], env)
        goffs = pre['offsets'] + [None] * (len(members) - fu)
    if plausible(tsize, talign) and not (tsize == gsize and talign == galign):
        probs.append(('unknown-member:finite-size',
                      '%s has a member of unknown size (m%d) but the typelib records size %d alignment %d (gcc: %s)'
                      % (name, fu, tsize, talign, 'sizeof %s _Alignof %s' % (gsize, galign) if gcc else 'cannot know')))
    for i in range(len(members)):
        f = fields.get('m%d' % i)
        if f is None:
            probs.append(('field-missing', '%s.m%d has no FieldBlob' % (name, i)))
            continue
        so = f['struct_offset']
        if i < fu or union:
            ok = so == (0 if union else stored_offset(goffs[i])) or (i >= fu and so == 0xFFFF)
        else:
            ok = so == 0xFFFF or (goffs[i] is not None and so == stored_offset(goffs[i]))
        if not ok:
            probs.append(('unknown-member:finite-offset' if i >= fu else 'offset',
                          '%s.m%d: typelib struct_offset %d, %s' % (
                              name, i, so, ('gcc offsetof %s' % goffs[i]) if goffs[i] is not None
                              else 'but the offset is not knowable (must be 0xFFFF)')))
    return probs


def compare_case(c, pfx, gcc, ents, part=None):
    env = dict(HENV)
    env.update((d[1], d) for d in c['d'])
    probs = []
    for d in c['d']:
        probs += compare_decl(d, env, gcc.get((pfx, d[1])), ents.get(pfx + d[1]))
    return probs


def has_unknown(c):
    env = dict(HENV)
    env.update((d[1], d) for d in c['d'])
    return any(d[0] in M.COMPOUND and M.first_unknown(d, env) is not None for d in c['d'])


def remap(gcc, pfx):
    """numbers of one case of a batch, keyed as if the case had been measured alone"""
    return dict((('', k[1]), v) for k, v in gcc.items() if k[0] in (pfx, ''))


def solo(b, spec, order, wd, gcc=None):
    """Run one case alone (helpers + the case).  -> (problems, info dict)"""
    c = expand(spec)
    if gcc is None:
        gcc = gcc_numbers([('', c)], wd, 'solo')
    if spec[0] == 'ns':
        return ns_solo(b, spec, order, wd, gcc)
    rc, err, ents, xml = compile_doc(b, [('', c)], order, wd, driver=(spec[0] == 'unk'))
    info = {'rc': rc, 'stderr': err.strip()[-400:], 'gir': xml}
    if ents is None:
        if (has_unknown(c) or c['u']) and spec[0] != 'unk':
            return [], info
        return [('rejected', 'g-ir-compiler exit %d: %s' % (rc, err.strip()[-300:]))], info
    probs = compare_case(c, '', gcc, ents)
    hp = []
    for d in HELPERS:
        hp += compare_decl(d, HENV, gcc.get(('', d[1])), ents.get(d[1]))
    info['typelib'] = dict((d[1], _brief(ents.get(d[1]))) for d in c['d'])
    return probs + [('helper:' + a, t) for a, t in hp], info


def _brief(e):
    if e is None:
        return None
    if e.get('kind') in ('enum', 'flags'):
        return {'storage_type': e.get('storage_type')}
    return {'size': e.get('size'), 'alignment': e.get('alignment'),
            'offsets': [(f['name'], f['struct_offset']) for f in e.get('fields', [])]}


def report(part, seen, c, spec, order, probs, tier, extra=None):
    aspect, text = probs[0]
    key = c['m'] if c['m'] else '%s|%s' % (c['k'], aspect)
    if key in seen:
        return
    seen.add(key)
    case = {'spec': list(spec), 'order': list(order), 'tier': tier, 'key': c['k'], 'c': M.show_c(c['d']),
            'problems': [t for _, t in probs][:8]}
    if extra:
        case.update(extra)
    desc = text if not c['m'] else '[%s] %s' % (c['k'], text)
    part.violation(key, desc, case)


def _work(chunk):
    part = Part()
    tier, batches = chunk
    b = cbuild.build(False)
    wd = tools.workdir('c08')
    try:
        # one C program for the whole chunk (gcc's fixed cost dominates), one GIR per batch and order
        allcases = []
        for j, (fam, specs) in enumerate(batches):
            allcases.append([('B%dL%d' % (j, i), expand(s)) for i, s in enumerate(specs)])
        gcc = gcc_numbers([x for cs in allcases for x in cs], wd, 'b')
        for (fam, specs), cases in zip(batches, allcases):
            # caps and de-duplication are per batch, so that counts do not depend on how batches are grouped
            isolations = 0
            confirmed = 0
            seen = set()
            part.add(states=len(cases), transitions=sum(len(d[2]) for _, c in cases for d in c['d'] if d[0] != 'C'))
            orders = orders_for(fam, tier)
            for pfx, c in cases:
                if c['u']:
                    part.add(unspecified=1)
                else:
                    part.nontrivial(c['k'])
            if fam in ('xs', 'ns'):
                # each case alone: these make the compiler abort
                for (pfx, c), spec in zip(cases, specs):
                    for order in orders:
                        probs, info = solo(b, spec, order, wd, remap(gcc, pfx))
                        part.add(evaluations=1, traces_validated_against_impl=1)
                        part.outcome(('xs', c['k'], info['rc'], bool(probs)))
                        if probs:
                            report(part, seen, c, spec, order, probs, tier, {'compiler': info['stderr']})
                if cases:
                    part.sample({'case': cases[0][1]['k'], 'c': M.show_c(cases[0][1]['d'])})
                continue
            for order in orders:
                rc, err, ents, xml = compile_doc(b, cases, order, wd, driver=(fam == 'unk'))
                part.add(evaluations=1)
                if ents is None:
                    part.outcome(('batch-rejected', fam))
                    if isolations >= 1:
                        part.violation('rejected-batch:%s' % fam, 'g-ir-compiler exit %d on a batch of %d %s layouts: %s'
                                       % (rc, len(cases), fam, err.strip()[-300:]),
                                       {'batch': [list(s) for s in specs], 'order': list(order), 'tier': tier})
                        continue
                    isolations += 1
                    for (pfx, c), spec in zip(cases, specs):
                        probs, info = solo(b, spec, order, wd, remap(gcc, pfx))
                        part.add(evaluations=1)
                        if probs:
                            report(part, seen, c, spec, order, probs, tier, {'compiler': info['stderr']})
                    continue
                hp = []
                for d in HELPERS:
                    hp += compare_decl(d, HENV, gcc.get(('', d[1])), ents.get(d[1]))
                for a, t in hp:
                    part.violation('helper|%s|%s' % (t.split(':')[0].split(' ')[0].split('.')[0], a), t,
                                   {'spec': list(specs[0]), 'order': list(order), 'tier': tier})
                for (pfx, c), spec in zip(cases, specs):
                    probs = compare_case(c, pfx, gcc, ents)
                    part.add(traces_validated_against_impl=1)
                    e = ents.get(pfx + c['d'][-1][1]) or {}
                    part.outcome((e.get('kind'), e.get('size'), e.get('alignment'), len(e.get('fields', ()))))
                    if not probs:
                        continue
                    key = c['m'] if c['m'] else '%s|%s' % (c['k'], probs[0][0])
                    if key in seen:
                        continue
                    if confirmed >= 30:
                        report(part, seen, c, spec, order, probs, tier)
                        continue
                    # reproduce alone, so that the replay file is minimal
                    confirmed += 1
                    p1, info = solo(b, spec, order, wd, remap(gcc, pfx))
                    part.add(evaluations=1)
                    if p1:
                        report(part, seen, c, spec, order, p1, tier)
                    else:
                        part.violation('batch-only|%s|%s' % (c['k'], probs[0][0]), probs[0][1],
                                       {'batch': [list(s) for s in specs], 'order': list(order), 'tier': tier,
                                        'key': c['k']})
            if cases:
                c = cases[len(cases) // 2][1]
                part.sample({'case': c['k'], 'c': M.show_c(c['d'])})
    finally:
        tools.cleanup(wd)
    return part.result()


def run(ctx):
    if not os.path.exists(GCC):
        raise HarnessBroken('no %s' % GCC)
    cbuild.build(False)
    specs = all_specs(ctx.tier)
    only = os.environ.get('C08_FAMILIES')       # development aid: restrict to some families (marks the run capped)
    if only:
        specs = [x for x in specs if x[0] in only.split(',')]
        ctx.cap('C08_FAMILIES=%s (development filter)' % only)
    by_fam = {}
    for s in specs:
        by_fam.setdefault(s[0], []).append(s)
    batches = []
    for fam in ('seq', 'n1', 'n2', 'en', 'x', 'unk', 'xs', 'ns'):
        ss = by_fam.get(fam, [])
        size = 12 if fam in ('xs', 'ns') else BATCH
        for i in range(0, len(ss), size):
            batches.append((fam, ss[i:i + size]))
    thorough = ctx.tier == 'thorough'
    ctx.set(rule='every declaration of the bounded space is rendered from one model as C (gcc prints sizeof/_Alignof/'
                 'offsetof/enum signedness) and as GIR (rebuilt g-ir-compiler; StructBlob/UnionBlob size+alignment, '
                 'FieldBlob.struct_offset, EnumBlob.storage_type read by vt/typelib.py); both must agree, with helper/'
                 'inner types declared before and after their users. seq: all member sequences of length <= %d over %d '
                 'core kinds and of length <= 2%s over all %d kinds, struct and union; n1/n2: nesting depth 1 and 2 with '
                 'every inner layout of length <= 2 over %d kinds and over the 6 zero-length arrays; seq also has %d array-typed pointer kinds '
                 '(gchar**, gint*, GArray*, GPtrArray*, GByteArray*, and [1],[2],[3] of those and of GList*/GHashTable*) alone '
                 'and in first/middle/last position among i8,i32,ptr,dbl, nested by value through n1/n2, and every '
                 'length-3 sequence over {i8,i32,ptr,dbl, T[0] for 6 element types} with a zero-length array; en: all %d (min,max) pairs over %d boundary values x '
                 '{enumeration, bitfield}; x: %d scanner-producible special shapes (one violation key per mechanism); unk: %d aggregates with void members / embedded '
                 'unknown-layout records compiled by vt/c/drv_layout.c (same parser and typelib builder, warnings not fatal) '
                 'and required to carry the unknown encodings; ns: %d two-namespace cases '
                 '(App embeds Dep.Outer whose members are unqualified Dep names, without/with same-named local types). '
                 'non-trivial = every case except bit-field ones'
                 % (4 if thorough else 3, NCORE, ' (plus length 3 with exactly one non-core kind)' if thorough else '',
                    NALL, len(INNER), len(EXTRA),
                    len(ENUM_VALUES) * (len(ENUM_VALUES) + 1) // 2, len(ENUM_VALUES), len(X_CASES), len(UNK_CASES),
                    len(NS_INNER) * len(NS_VALUE) * len(NS_LOCAL)),
            bounds={'core_len': 4 if thorough else 3, 'variant_len': '2 + one-variant triples' if thorough else 2, 'core_kinds': NCORE,
                    'kinds': NALL, 'pointer_array_kinds': len(EXTRA), 'inner_kinds': len(INNER), 'inner_len': 2, 'enum_values': len(ENUM_VALUES),
                    'cases': dict((f, len(v)) for f, v in sorted(by_fam.items())), 'batch': BATCH,
                    'orders': dict((f, len(orders_for(f, ctx.tier))) for f in sorted(by_fam))})
    nchunks = max(32, len(batches) // 3)
    chunks = [(ctx.tier, c) for c in chunked(rotate(batches, ctx.seed), nchunks) if c]
    for r in pmap(_work, chunks):
        ctx.merge(r)
    ctx.assumptions += [
        'x86-64 SysV / LP64, gcc without -fshort-enums; /usr/bin/gcc is the reference for the C ABI',
        'glibshim headers declare the GLib ABI correctly (trusted base); miniature dependency GIRs in deps/',
        'decoder vt/typelib.py written from gitypelib-internal.h is the reference reader',
        'a GIR rejected by g-ir-compiler is an acceptable outcome for a container with a member of unknown size '
        '(nothing wrong is recorded); for members of known size it is a violation',
        'FieldBlob.struct_offset is 16 bits and 0xFFFF means unknown: offsets above 0xFFFE must be stored as 0xFFFF',
        'bit-fields are executed but UNSPECIFIED (no offset semantics in the format); the field offsets of <class> '
        'entries are not compared (the statement covers structures and unions)',
    ]
    if not only and (ctx.cov['evaluations'] < 10 or len(ctx._outcomes) < 20):
        raise HarnessBroken('vacuous exploration: %d compiler runs, %d outcomes' % (ctx.cov['evaluations'],
                                                                                   len(ctx._outcomes)))


def replay(ctx, case):
    b = cbuild.build(False)
    wd = tools.workdir('c08r')
    try:
        order = case['order']
        order = (order[0], order[1])
        if 'batch' in case:
            specs = [tuple(_tup(x) for x in s) for s in case['batch']]
            cases = [('L%d' % i, expand(s)) for i, s in enumerate(specs)]
            gcc = gcc_numbers(cases, wd, 'b')
            rc, err, ents, xml = compile_doc(b, cases, order, wd)
            print('compiler exit', rc, err.strip()[-300:])
            if ents is None:
                return False
            ok = True
            for pfx, c in cases:
                for a, t in compare_case(c, pfx, gcc, ents):
                    print('  %s: %s' % (c['k'], t))
                    ok = False
            return ok
        spec = tuple(_tup(x) for x in case['spec'])
        c = expand(spec)
        print('case %s, GIR order %r' % (c['k'], order))
        print(M.show_c(c['d']))
        gcc = gcc_numbers([('', c)], wd, 'solo')
        for d in c['d']:
            if ('', d[1]) in gcc:
                print('gcc      %-3s %r' % (d[1], gcc[('', d[1])]))
        probs, info = solo(b, spec, order, wd, gcc)
        print('compiler exit %s %s' % (info['rc'], info['stderr']))
        for k, v in sorted((info.get('typelib') or {}).items()):
            print('typelib  %-3s %r' % (k, v))
        for a, t in probs:
            print('  MISMATCH %s: %s' % (a, t))
        return not probs
    finally:
        tools.cleanup(wd)


def _tup(x):
    return tuple(x) if isinstance(x, list) else x
