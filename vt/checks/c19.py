"""C19 - library names resolve to the right shared objects or fail loudly.

Generation-tree search (E1).  A node is a loader listing (a sequence of lines over a
line alphabet: one listed file in ldd / bare-path / otool / BSD-ldd style, a header
line naming the binary, or wrapper noise) extended line by line; under every complete
listing hangs the tree of request lists (ordered, with repetition) over the name
alphabet.  Every (listing, request list) leaf is executed on the real
giscanner.shlibs.resolve_from_ldd_output + sanitize_shlib_path and compared with a
character-level reference resolver written from the property statement:

    a listed file satisfies request <name>  iff  its base name (text after the last
    '/') starts with 'lib' + <name> and the next character exists and is not a
    letter, digit, '_' or '-';
    each request resolves to the FIRST listed file satisfying it, reported by base
    name; header lines contribute no files; if any request has no satisfying file
    the call must raise SystemExit with a message naming exactly the unresolved
    requests.

The reference works on the generator's structured listing (which tokens are listed
files is known by construction), never on the implementation's regular expression.
Pairs outside the quantifier (one listed file could satisfy two of the requests) are
executed (no crash) and counted as UNSPECIFIED.

Libtool archives: .la files are written to /verif/.build/c19/<pid>/ and read back
through giscanner.utils.extract_libtool_shlib; a small end-to-end family drives
giscanner.shlibs.resolve_shlibs with `cat <listing>` as the ldd wrapper, mixing .la
requests and plain names.

Several files on one line: space M has lines carrying two or three listed files
(space / tab separated, or `soname => path (addr)` groups) in every order, alone or with
a second line; "first listed" is reading order (left to right, then line by line).

Working-directory states: the implementation asks the file system about every
requested name, so the scratch working directory is part of the alphabet: for each
requested name it holds nothing, a regular file, a directory, or a symlink to a
directory of that name, crossed with the name being listed or not (see FS_* below).
"""
import itertools
import os
import shutil
import string
import sys
import types

from vt.core import Part, pmap, rotate, ROOT, HarnessBroken
from vt.scan import fake  # noqa: F401  (puts VERIF_REPO on sys.path, stubs the C module)

from giscanner import shlibs as impl_shlibs
from giscanner import utils as impl_utils

LEVEL = 'model_checking'

# ------------------------------------------------------------------ alphabets ---
NAMES = ['foo', 'foo-bar', 'foobar', 'libfoo', 'foo2', 'foo_x', 'foo+', 'f.o', 'c++',
         'pango', 'pangoft2', 'pango-1.0']
TAILS = ['.so', '.so.0', '-1.0.so.0', '2.so', '_x.so', '-bar.so', '.dylib', '.1.dylib', '']
# listed files that are not of the form lib<name><tail>
EXTRA_BASES = ['foo.so', 'xlibfoo.so', 'x.libfoo.so', 'my-libfoo.so.0', 'libFOO.so', 'Foo-1.0', 'linux-vdso.so.1', 'ld-linux-x86-64.so.2']
STYLES = ['ldd', 'bare', 'otool', 'bsd']
DIRKINDS = ['none', 'usr', 'opt', 'sod', 'rpath']

# 3-line spaces (thorough): two name families, reduced tails
FAMILY1 = ['foo', 'foo-bar', 'foobar', 'libfoo', 'foo2', 'foo_x', 'foo+']
FAMILY2 = ['pango', 'pangoft2', 'pango-1.0', 'f.o', 'c++']
TAILS3 = ['.so.0', '-1.0.so.0', '2.so', '']

# space B: independent directories, mixed styles, header and noise lines
B_TAILS = ['.so.0', '-1.0.so.0', '2.so', '']
B_DIRS = ['', '/usr/lib/', '@rpath/', '.libs/', '/opt/libfoo/', '/opt/libpango/', '/x/libfoo.so.d/', '/x/libpango.so.d/']
B3_DIRS = ['', '/usr/lib/', '/opt/libfoo/', '/x/libpango.so.d/']
B3_TAILS = ['.so.0', '-1.0.so.0', '']
HEADERS = ['Foo-1.0:', '/tmp/tmp-introspect8x/libfoo.so.999:', '/b/libpango-1.0/tmp-introspect/libfoo-bar.so.0:',
           '/usr/lib/libpango.so.0:', '/opt/libfoo/libfoo-1.0.so.0:', 'libfoo-bar.so.0:']
# (text, listed file tokens): wrapper chatter, table headers, and lines listing files that are no libraries
NOISE = [('\tStart            End              Type  Open Ref GrpRef Name', ()),
         ('\tstatically linked', ()),
         ('wrapper: running ldd in sysroot', ()),
         ('', ()),
         ('\t0000000000000000 0000000000000000 exe   2    0   0      /b/libfoo-0.6.0/tmp-introspect/Foo-0.6',
          ('/b/libfoo-0.6.0/tmp-introspect/Foo-0.6',)),
         ('\tlinux-vdso.so.1 (0x00007ffd3b1f2000)', ('linux-vdso.so.1',)),
         ('\t/lib64/ld-linux-x86-64.so.2 (0x00007f3a5c400000)', ('/lib64/ld-linux-x86-64.so.2',))]

NAMECHARS = frozenset(string.ascii_letters + string.digits + '_-')


# ------------------------------------------------------ reference resolver ---
def base_name(path):
    return path[path.rfind('/') + 1:]


def ref_satisfies(path, name):
    """Statement: base name is lib<name> followed by a character other than a
    letter, digit, underscore or hyphen."""
    base = base_name(path)
    pre = 'lib' + name
    if len(base) <= len(pre):
        return False
    if base[:len(pre)] != pre:
        return False
    return base[len(pre)] not in NAMECHARS


def ref_line(files, names):
    """(first satisfying base name per name, set of (a, b) name pairs one file satisfies)"""
    first = {}
    pairs = set()
    for f in files:
        sat = [n for n in names if ref_satisfies(f, n)]
        for n in sat:
            if n not in first:
                first[n] = base_name(f)
        for a in sat:
            for b in sat:
                if a != b:
                    pairs.add((a, b))
    return first, pairs


def ref_verdict(first, pairs, req):
    """-> ('unspecified',) | ('ok', sorted base names) | ('exit', unresolved set, resolved set)"""
    n = len(req)
    for i in range(n):
        a = req[i]
        for j in range(i + 1, n):
            b = req[j]
            if a == b:
                if a in first:
                    return ('unspecified',)
            elif (a, b) in pairs:
                return ('unspecified',)
    unresolved = [r for r in req if r not in first]
    if unresolved:
        return ('exit', frozenset(unresolved), frozenset(r for r in req if r in first))
    return ('ok', sorted(first[r] for r in req))


_TOKCACHE = {}


def named_tokens(msg):
    t = _TOKCACHE.get(msg)
    if t is None:
        t = set()
        for w in msg.replace(',', ' ').split():
            w = w.strip('\'"`()[]')
            t.add(w)
            t.add(w.rstrip(':;'))
            if w.endswith('.'):
                t.add(w[:-1])
        if len(_TOKCACHE) > 5000:
            _TOKCACHE.clear()
        _TOKCACHE[msg] = t
    return t


def judge(verdict, obs):
    """None if the observation agrees with a MUST verdict, else a description."""
    if obs[0] == 'crash':
        return 'implementation raised %s' % obs[1]
    if verdict[0] == 'ok':
        if obs[0] != 'ok':
            return 'expected %r, got SystemExit(%r)' % (verdict[1], obs[1])
        if sorted(obs[1]) != verdict[1]:
            return 'expected %r, got %r' % (verdict[1], obs[1])
        return None
    # exit
    if obs[0] != 'exit':
        return 'expected SystemExit naming %r, got %r' % (sorted(verdict[1]), obs[1])
    code = obs[1]
    if not isinstance(code, str) or not code:
        return 'SystemExit without a message (code %r); unresolved %r' % (code, sorted(verdict[1]))
    toks = named_tokens(code)
    miss = [u for u in sorted(verdict[1]) if u not in toks]
    if miss:
        return 'error message %r does not name unresolved %r' % (code, miss)
    extra = [r for r in sorted(verdict[2]) if r not in verdict[1] and r in toks]
    if extra:
        return 'error message %r names %r which is resolvable' % (code, extra)
    return None


# ------------------------------------------------------------ implementation ---
def run_impl(req, text):
    try:
        raw = impl_shlibs.resolve_from_ldd_output(list(req), text)
        out = [impl_shlibs.sanitize_shlib_path(x) for x in raw]
    except SystemExit as e:
        return ('exit', e.code)
    except Exception as e:  # noqa
        return ('crash', '%s: %s' % (type(e).__name__, e))
    if not isinstance(raw, list) or not all(isinstance(x, str) for x in out):
        return ('crash', 'non-list/str result %r' % (raw,))
    return ('ok', out)


# -------------------------------------------------------------- line alphabet ---
def dir_of(kind, n):
    return {'none': '', 'usr': '/usr/lib/', 'opt': '/opt/lib%s/' % n, 'sod': '/x/lib%s.so.d/' % n,
            'rpath': '@rpath/'}[kind]


def render(style, d, base):
    """-> (line text, listed file tokens in order)"""
    p = d + base
    if style == 'ldd':
        if d:
            return '\t%s => %s (0x00007f3a5c000000)' % (base, p), (base, p)
        return '\t%s (0x00007ffd3b1f2000)' % base, (base,)
    if style == 'bare':
        return p, (p,)
    if style == 'otool':
        return '\t%s (compatibility version 1.0.0, current version 1.2.3)' % p, (p,)
    if style == 'bsd':
        return '\t00000710f9b39000 00000710f9d51000 rlib  0    1   0      %s' % p, (p,)
    raise ValueError(style)


class Line(object):
    __slots__ = ('text', 'files', 'kind', 'first', 'pairs', 'mask')

    def __init__(self, text, files, kind):
        self.text = text
        self.files = tuple(files)
        self.kind = kind
        self.first, self.pairs = ref_line(self.files if kind != 'header' else (), NAMES)
        self.mask = 0


def uniq_lines(lines):
    seen = set()
    out = []
    for l in lines:
        if l.text not in seen:
            seen.add(l.text)
            out.append(l)
    return out


def a_lines(style, dirkind, names, tails, extras=True):
    out = []
    for n in names:
        for t in tails:
            text, files = render(style, dir_of(dirkind, n), 'lib' + n + t)
            out.append(Line(text, files, 'file'))
    if extras:
        for e in EXTRA_BASES:
            text, files = render(style, dir_of(dirkind, 'foo'), e)
            out.append(Line(text, files, 'file'))
    return uniq_lines(out)


def b_lines(names, tails, dirs, styles, headers, noise):
    out = []
    for n in names:
        for t in tails:
            for d in dirs:
                for s in styles:
                    text, files = render(s, d, 'lib' + n + t)
                    out.append(Line(text, files, 'file'))
    for h in headers:
        out.append(Line(h, (h[:-1],), 'header'))
    for text, files in noise:
        out.append(Line(text, files, 'noise'))
    return uniq_lines(out)


# space M: wrapper output that puts two or three listed files on ONE line.  "First listed"
# (statement) is reading order: left to right within a line, then line by line.
M_NAMES = ['foo', 'foo-bar', 'pango']
M_BASES = ['lib%s.so.%d' % (n, v) for n in M_NAMES for v in (1, 2)]
M_DECOS = ['space', 'tab', 'arrow']


def m_render(deco, bases):
    if deco == 'space':
        return ' '.join(bases), tuple(bases)
    if deco == 'tab':
        paths = ['/usr/lib/' + b for b in bases]
        return '\t' + '\t'.join(paths), tuple(paths)
    if deco == 'arrow':
        toks = []
        for b in bases:
            toks += [b, '/usr/lib/' + b]
        return '\t' + '  '.join('%s => /usr/lib/%s (0x00007f3a5c000000)' % (b, b) for b in bases), tuple(toks)
    raise ValueError(deco)


def m_lines(decos):
    out = []
    for b in M_BASES:
        out.append(Line(b, (b,), 'file'))
    for deco in decos:
        for k in (2, 3):
            for bases in itertools.permutations(M_BASES, k):
                text, files = m_render(deco, bases)
                out.append(Line(text, files, 'file'))
    return uniq_lines(out)


def req_lists(names, maxreq):
    out = []
    for k in range(1, maxreq + 1):
        out.extend(itertools.product(names, repeat=k))
    return out


class Space(object):
    def __init__(self, tag, lines, minlen, maxlen, names, maxreq):
        self.tag = tag
        self.lines = lines
        self.minlen = minlen
        self.maxlen = maxlen
        self.names = list(names)
        self.maxreq = maxreq
        self.reqs = req_lists(self.names, maxreq)
        self.textset = frozenset(l.text for l in lines)
        self.req_mask = {}
        self.len_mask = {}

    def size(self):
        n = len(self.lines)
        return sum(n ** k for k in range(self.minlen, self.maxlen + 1)) * len(self.reqs)


R_QUICK = [('ldd', 'usr'), ('bare', 'opt'), ('bsd', 'sod')]
R_THREE = [('ldd', 'usr'), ('bare', 'opt'), ('otool', 'rpath'), ('bsd', 'sod')]
R_ALL = [(s, d) for s in STYLES for d in DIRKINDS]

_SPACES = {}


def build_spaces(tier):
    if tier in _SPACES:
        return _SPACES[tier]
    sp = []
    if tier == 'quick':
        for s, d in R_QUICK:
            sp.append(Space('A2:%s/%s' % (s, d), a_lines(s, d, NAMES, TAILS), 0, 2, NAMES, 2))
        nb = ['foo', 'foo-bar', 'pango']
        sp.append(Space('B2', b_lines(nb, B_TAILS, B_DIRS, STYLES, HEADERS, NOISE), 0, 2, nb, 2))
        for deco in M_DECOS:
            sp.append(Space('M2:%s' % deco, m_lines([deco]), 0, 2, M_NAMES, 2))
    else:
        for s, d in R_ALL:
            sp.append(Space('A2:%s/%s' % (s, d), a_lines(s, d, NAMES, TAILS), 0, 2, NAMES, 2))
        for s, d in R_THREE:
            sp.append(Space('A3f1:%s/%s' % (s, d), a_lines(s, d, FAMILY1, TAILS3, False), 3, 3, FAMILY1, 3))
            sp.append(Space('A3f2:%s/%s' % (s, d), a_lines(s, d, FAMILY2, TAILS3, False), 3, 3, FAMILY2, 3))
        nb = ['foo', 'foo-bar', 'pango', 'pango-1.0']
        sp.append(Space('B2', b_lines(nb, B_TAILS, B_DIRS, STYLES, HEADERS, NOISE), 0, 2, nb, 2))
        nb3 = ['foo', 'foo-bar', 'pango']
        sp.append(Space('B3', b_lines(nb3, B3_TAILS, B3_DIRS, ['ldd', 'bare', 'bsd'], HEADERS[:4], NOISE[:4]), 3, 3, nb3, 2))
        sp.append(Space('M2', m_lines(M_DECOS), 0, 2, M_NAMES, 2))
    # membership masks: a (listing, request list) pair that already belongs to an earlier
    # space is skipped there, so every counted pair is a distinct canonical input
    for k, s in enumerate(sp):
        for l in s.lines:
            m = 0
            for j in range(k):
                if l.text in sp[j].textset:
                    m |= 1 << j
            l.mask = m
        for n in range(s.minlen, s.maxlen + 1):
            m = 0
            for j in range(k):
                if sp[j].minlen <= n <= sp[j].maxlen:
                    m |= 1 << j
            s.len_mask[n] = m
        for r in s.reqs:
            m = 0
            for j in range(k):
                if len(r) <= sp[j].maxreq and all(x in sp[j].names for x in r):
                    m |= 1 << j
            s.req_mask[r] = m
    _SPACES[tier] = sp
    return sp


# --------------------------------------------------------------- exploration ---
def listing_text(lines):
    return ''.join(l.text + '\n' for l in lines)


def case_obj(lines, req, verdict, obs):
    return {'kind': 'listing', 'lines': [[l.text, list(l.files), l.kind] for l in lines], 'requests': list(req),
            'expected': _jsonable(verdict), 'observed': _jsonable(obs)}


def _jsonable(x):
    if isinstance(x, (set, frozenset)):
        return sorted(x)
    if isinstance(x, (tuple, list)):
        return [_jsonable(y) for y in x]
    return x


def explore_listing(part, sp, lines):
    """All request lists of the space against one listing."""
    mask = sp.len_mask[len(lines)]
    first = {}
    pairs = set()
    for l in lines:
        mask &= l.mask
        for n, b in l.first.items():
            if n not in first:
                first[n] = b
        if l.pairs:
            pairs |= l.pairs
    text = listing_text(lines)
    fresh_listing = mask == 0
    if fresh_listing:
        part.add(states=1, transitions=1 if lines else 0)
    req_mask = sp.req_mask
    n_ok = n_exit = n_unspec = n_skip = 0
    for req in sp.reqs:
        if mask & req_mask[req]:
            n_skip += 1
            continue
        verdict = ref_verdict(first, pairs, req)
        obs = run_impl(req, text)
        if verdict[0] == 'unspecified':
            n_unspec += 1
            if obs[0] == 'crash':
                part.violation('crash|%r|%r' % (req, text), 'outside the quantifier, but: ' + obs[1],
                               case_obj(lines, req, verdict, obs))
            continue
        if verdict[0] == 'ok':
            n_ok += 1
            part.outcome(('ok', len(req), len(set(obs[1])) if obs[0] == 'ok' else obs[0]))
        else:
            n_exit += 1
            part.outcome(('exit', len(req), len(verdict[1]), obs[0]))
        err = judge(verdict, obs)
        if err:
            part.violation('%r|%r' % (req, text), err, case_obj(lines, req, verdict, obs))
    n = n_ok + n_exit
    part.add(evaluations=n + n_unspec, traces_validated_against_impl=n, transitions=n + n_unspec,
             distinct_nontrivial=n, unspecified=n_unspec, expected_resolved=n_ok, expected_error=n_exit,
             skipped_already_in_earlier_space=n_skip)
    if n_ok and len(lines) == sp.maxlen and len(part.samples) < 2:
        for req in sp.reqs:
            v = ref_verdict(first, pairs, req)
            if v[0] == 'ok' and len(req) == sp.maxreq and not (mask & req_mask[req]):
                part.sample({'space': sp.tag, 'listing': text, 'requests': list(req), 'expected': v[1]})
                break


def _work_space(chunk):
    tier, k, firsts = chunk
    sp = build_spaces(tier)[k]
    part = Part()
    lines = sp.lines

    def rec(seq):
        if len(seq) >= sp.minlen:
            explore_listing(part, sp, seq)
        if len(seq) < sp.maxlen:
            for l in lines:
                rec(seq + [l])

    for f in firsts:
        if f is None:
            if sp.minlen == 0:
                explore_listing(part, sp, [])
        else:
            rec([lines[f]])
    return part.result()


# ------------------------------------------------------------------- libtool ---
LA_HEAD = ("# lib%(n)s.la - a libtool library file\n# Generated by libtool (GNU libtool) 2.4.7\n#\n"
           "# Please DO NOT delete this file!\n# It is necessary for linking the library.\n\n")
LA_REST = ("# Linker flags that cannot go in dependency_libs.\ninherited_linker_flags=''\n\n"
           "# Libraries that this one depends upon.\ndependency_libs=' -L/usr/lib /usr/lib/libbar.la -lglib-2.0'\n\n"
           "# Names of additional weak libraries provided by this library\nweak_library_names=''\n\n"
           "# Version information for lib%(n)s.\ncurrent=0\nage=0\nrevision=0\n\n"
           "# Is this an already installed library?\ninstalled=no\n\n"
           "# Should we warn about portability when linking against -modules?\nshouldnotlink=no\n\n"
           "# Files to dlopen/dlpreopen\ndlopen=''\ndlpreopen=''\n\n")
LA_FIELDS = {
    'dlname': ("# The name that we can dlopen(3).\n", "%(dl)s\n"),
    'library_names': ("# Names of this library.\n", "library_names='%(v)s.0.0 %(v)s lib%(n)s.so'\n"),
    'old_library': ("# The name of the static archive.\n", "old_library='lib%(n)s.a'\n"),
    'libdir': ("# Directory that this library needs to be installed in:\n", "libdir='/usr/lib'\n"),
}
LA_TAILS = ['.so', '.so.0', '-1.0.so.0', '2.so', '_x.so', '-bar.so', '.dylib', '.1.dylib']
LA_EXTRA_VALUES = [('foo', 'libfoo-0.dll'), ('foo', 'cygfoo-0.dll'), ('foo', 'libfoo.so.0.0.0'), ('foo', 'foo.so')]
# variants of the dlname line whose outcome the statement does not fix; a result, if any,
# must still be the dlname's base name ("must_be_none": there is no dlname to resolve to)
LA_VARIANTS = [
    ('empty', "dlname=''", 'none'),
    ('absent', None, 'none'),
    ('path_rel', "dlname='.libs/%(v)s'", 'v_or_none'),
    ('path_up', "dlname='../bin/%(v)s'", 'v_or_none'),
    ('path_abs', "dlname='/usr/lib/%(v)s'", 'v_or_none'),
    ('dquote', 'dlname="%(v)s"', 'v_or_none'),
    ('spaces', "dlname = '%(v)s'", 'v_or_none'),
    ('oddchar', "dlname='%(v)s~1'", 'any'),
    ('commented_decoy', "# dlname='libdecoy.so'\ndlname='%(v)s'", 'any'),
]


def la_content(order, comments, dl, n, v, crlf=False, noeol=False):
    d = {'n': n, 'v': v, 'dl': dl}
    out = LA_HEAD % d if comments else ''
    for i, f in enumerate(order):
        if f == 'dlname' and dl is None:
            continue
        c, body = LA_FIELDS[f]
        out += (c if comments else '') + body % d + '\n'
        if i == 1:
            out += LA_REST % d if comments else "dependency_libs=''\n"
    if noeol:
        out = out.rstrip('\n')
    if crlf:
        out = out.replace('\n', '\r\n')
    return out


def scratch_dir():
    d = os.path.join(ROOT, '.build', 'c19', 'w%d' % os.getpid())
    os.makedirs(d, exist_ok=True)
    return d


def run_la(content, fname='libx.la'):
    d = scratch_dir()
    path = os.path.join(d, fname)
    with open(path, 'w', encoding='utf-8', newline='') as f:
        f.write(content)
    try:
        r = impl_utils.extract_libtool_shlib(path)
    except SystemExit as e:
        return ('exit', e.code)
    except Exception as e:  # noqa
        return ('crash', '%s: %s' % (type(e).__name__, e))
    return ('ok', r)


def la_values():
    vals = []
    for n in NAMES:
        for t in LA_TAILS:
            vals.append((n, 'lib' + n + t))
    return vals + LA_EXTRA_VALUES


def judge_la(mode, v, obs):
    if obs[0] != 'ok':
        return 'extract_libtool_shlib raised %r' % (obs[1],)
    r = obs[1]
    if mode == 'must':
        return None if r == v else 'dlname %r resolved to %r' % (v, r)
    if r is not None and not isinstance(r, str):
        return 'result %r is neither a name nor None' % (r,)
    if mode == 'none' and r is not None:
        return 'no dlname, but resolved to %r' % (r,)
    if mode == 'v_or_none' and r is not None and r != v:
        return 'dlname with base name %r resolved to %r' % (v, r)
    return None


def _work_la(chunk):
    part = Part()
    try:
        for n, v in chunk:
            for order in itertools.permutations(['dlname', 'library_names', 'old_library', 'libdir']):
                for comments in (True, False):
                    content = la_content(order, comments, "dlname='%s'" % v, n, v)
                    obs = run_la(content)
                    part.add(evaluations=1, states=1, transitions=1, traces_validated_against_impl=1,
                             distinct_nontrivial=1, la_must=1)
                    part.outcome(('la', 'must', obs[0], obs[1] == v))
                    err = judge_la('must', v, obs)
                    if err:
                        part.violation('la|%r' % content, err, {'kind': 'la', 'content': content, 'mode': 'must',
                                                                'value': v, 'observed': _jsonable(obs)})
            order = ('dlname', 'library_names', 'old_library', 'libdir')
            variants = [(tag, (dl % {'v': v}) if dl else None, mode, False, False) for tag, dl, mode in LA_VARIANTS]
            variants.append(('crlf', "dlname='%s'" % v, 'v_or_none', True, False))
            variants.append(('noeol', "dlname='%s'" % v, 'v_or_none', False, True))
            for tag, dl, mode, crlf, noeol in variants:
                o = ('library_names', 'old_library', 'libdir', 'dlname') if noeol else order
                content = la_content(o, not noeol, dl, n, v, crlf, noeol)
                obs = run_la(content)
                part.add(evaluations=1, states=1, transitions=1, unspecified=1, la_unspecified=1)
                part.outcome(('la', tag, obs[0], None if obs[0] != 'ok' else
                              ('none' if obs[1] is None else ('v' if obs[1] == v else 'other'))))
                err = judge_la(mode, v, obs)
                if err:
                    part.violation('la|%r' % content, err, {'kind': 'la', 'content': content, 'mode': mode,
                                                            'value': v, 'observed': _jsonable(obs)})
        if chunk:
            n, v = chunk[0]
            part.sample({'la_file': la_content(('dlname', 'library_names', 'old_library', 'libdir'), False,
                                               "dlname='%s'" % v, n, v), 'expected': v})
    finally:
        shutil.rmtree(scratch_dir(), ignore_errors=True)
    return part.result()


# ---------------------------------------------------------------- end to end ---
E2E_LISTINGS = [
    [],
    [('ldd', '/usr/lib/', 'libfoo-bar.so.0'), ('ldd', '/usr/lib/', 'libpango-1.0.so.0'), ('ldd', '/usr/lib/', 'libpango.so.0')],
    [('header', '/tmp/tmp-introspect8x/libpango.so.999:'), ('bsd', '/opt/libpango/', 'libfoo-bar.so.0'),
     ('bsd', '/usr/local/lib/', 'libpango.so.12.0')],
    [('otool', '@rpath/', 'libpangoft2.1.dylib'), ('otool', '/x/libfoo-bar.so.d/', 'libfoobar.dylib')],
]
E2E_LA = {'la_foo': ('foo', "dlname='libfoo.so.0'", 'libfoo.so.0'),
          'la_pango': ('pango-1.0', "dlname='libpango-1.0.so.0'", 'libpango-1.0.so.0'),
          'la_static': ('foo_x', "dlname=''", None)}
E2E_LA_SETS = [[], ['la_foo'], ['la_foo', 'la_pango'], ['la_static'], ['la_foo', 'la_static']]
E2E_STDERR_NAMES = ['foo-bar', 'pango', 'foobar', 'pangoft2', 'pango-1.0', 'foo']
E2E_NAME_SETS = [[], ['foo-bar'], ['pango'], ['foo-bar', 'pango'], ['foobar'], ['pango', 'pangoft2']]


def e2e_lines(spec):
    out = []
    for item in spec:
        if item[0] == 'header':
            out.append(Line(item[1], (), 'header'))
        else:
            text, files = render(*item)
            out.append(Line(text, files, 'file'))
    return out


def run_e2e(lines, la_tags, names, la_first, stderr_noise=False):
    d = scratch_dir()
    lpath = os.path.join(d, 'listing.txt')
    with open(lpath, 'w') as f:
        f.write(listing_text(lines))
    las = []
    for tag in la_tags:
        n, dl, _ = E2E_LA[tag]
        p = os.path.join(d, 'lib%s.la' % n)
        with open(p, 'w') as f:
            f.write(la_content(('dlname', 'library_names', 'old_library', 'libdir'), True, dl, n, 'lib%s.so.0' % n))
        las.append(p)
    libs = las + list(names) if la_first else list(names) + las
    wrapper = ['/bin/cat']
    if stderr_noise:
        # a wrapper that, like ldd, prints diagnostics on STDERR before the listing on stdout;
        # the diagnostics mention look-alike paths for every name of the alphabet
        wpath = os.path.join(d, 'lddwrap.sh')
        with open(wpath, 'w') as f:
            f.write('#!/bin/sh\n')
            for n in E2E_STDERR_NAMES:
                f.write("echo \"ldd: warning: you do not have execution permission for \\`/build/.libs/lib%s.so'\" >&2\n" % n)
                f.write("echo '/build/.libs/lib%s.so.77' >&2\n" % n)
            f.write('exec /bin/cat \"$1\"\n')
        os.chmod(wpath, 0o755)
        wrapper = ['/bin/sh', wpath]
    options = types.SimpleNamespace(ldd_wrapper=wrapper, nolibtool=True, libtool_path=None)
    binary = types.SimpleNamespace(args=[lpath])
    # the unchanged code lets the wrapper's stderr through to ours: keep it off the check's output
    sys.stderr.flush()
    saved = os.dup(2)
    devnull = os.open(os.devnull, os.O_WRONLY)
    os.dup2(devnull, 2)
    try:
        r = impl_shlibs.resolve_shlibs(options, binary, libs)
    except SystemExit as e:
        return ('exit', e.code)
    except Exception as e:  # noqa
        return ('crash', '%s: %s' % (type(e).__name__, e))
    finally:
        os.dup2(saved, 2)
        os.close(saved)
        os.close(devnull)
    return ('ok', list(r))


def e2e_expect(lines, la_tags, names):
    """-> (verdict, has_static)"""
    first = {}
    pairs = set()
    for l in lines:
        for n, b in l.first.items():
            first.setdefault(n, b)
        pairs |= l.pairs
    v = ref_verdict(first, pairs, tuple(names)) if names else ('ok', [])
    dl = [E2E_LA[t][2] for t in la_tags]
    static = any(x is None for x in dl)
    if v[0] == 'ok':
        v = ('ok', sorted(v[1] + [x for x in dl if x is not None]))
    return v, static


def _work_e2e(chunk):
    part = Part()
    try:
        for li, la_tags, names, la_first, noise in chunk:
            lines = e2e_lines(E2E_LISTINGS[li])
            verdict, static = e2e_expect(lines, la_tags, names)
            obs = run_e2e(lines, la_tags, names, la_first, noise)
            part.add(evaluations=1, states=1, transitions=1)
            case = {'kind': 'e2e', 'listing': li, 'la': la_tags, 'names': names, 'la_first': la_first,
                    'stderr_noise': noise,
                    'expected': _jsonable(verdict), 'observed': _jsonable(obs)}
            key = 'e2e|%d|%r|%r|%r|stderr=%r' % (li, la_tags, names, la_first, noise)
            if verdict[0] == 'unspecified' or (static and verdict[0] == 'ok'):
                # a libtool archive without a dlname: whether the scan must stop is not fixed
                # by the statement's quantifier (loader listings); record what happens
                part.add(unspecified=1)
                part.outcome(('e2e', 'la-without-dlname', obs[0],
                              'dropped-silently' if obs[0] == 'ok' and sorted(obs[1]) == verdict[1] else 'other'))
                if obs[0] == 'crash':
                    part.violation(key, obs[1], case)
                continue
            part.add(traces_validated_against_impl=1, distinct_nontrivial=1, e2e_must=1)
            part.outcome(('e2e', verdict[0], obs[0]))
            err = judge(verdict, obs)
            if err:
                part.violation(key, err, case)
        if chunk:
            li, la_tags, names, la_first, noise = chunk[-1]
            part.sample({'resolve_shlibs': {'ldd_wrapper_output': listing_text(e2e_lines(E2E_LISTINGS[li])),
                                            'libraries': (la_tags + names) if la_first else (names + la_tags)}})
    finally:
        shutil.rmtree(scratch_dir(), ignore_errors=True)
    return part.result()


# ------------------------------------------------------------ line terminators ---
# Listings with a header line naming the inspected binary (its base name looks like
# lib<name>), file lines in every style, and LF / CRLF / CR line ends, with and without
# a terminator after the last line.  Header lines are never listed files (statement).
T_NAMES = ['foo', 'foo-bar', 'pango']
T_TERMS = [('LF', '\n'), ('CRLF', '\r\n'), ('CR', '\r')]
T_HEADERS = ['/tmp/tmp-introspect8x/lib%s.so.999:' % n for n in T_NAMES] + ['Foo-1.0:']


def t_file_lines():
    out = []
    for n in T_NAMES:
        for st in STYLES:
            text, files = render(st, '/usr/lib/', 'lib%s.so.4' % n)
            out.append(Line(text, files, 'file'))
    return out


def t_text(lines, term, final):
    return term.join(l.text for l in lines) + (term if final and lines else '')


def _work_term(chunk):
    part = Part()
    flines = t_file_lines()
    reqs = req_lists(T_NAMES, 2)
    for h in chunk:
        hl = Line(h, (h[:-1],), 'header')
        seqs = [[hl]]
        seqs += [[hl, a] for a in flines] + [[a, hl] for a in flines]
        seqs += [[hl, a, b] for a in flines for b in flines] + [[a, hl, b] for a in flines for b in flines]
        for lines in seqs:
            first = {}
            pairs = set()
            for l in lines:
                for n, b in l.first.items():
                    first.setdefault(n, b)
                pairs |= l.pairs
            for tname, term in T_TERMS:
                for final in (True, False):
                    text = t_text(lines, term, final)
                    part.add(states=1, transitions=1)
                    for req in reqs:
                        verdict = ref_verdict(first, pairs, req)
                        obs = run_impl(req, text)
                        part.add(evaluations=1, transitions=1)
                        if verdict[0] == 'unspecified':
                            part.add(unspecified=1)
                            continue
                        part.add(traces_validated_against_impl=1, distinct_nontrivial=1, term_must=1)
                        part.outcome(('term', tname, verdict[0], obs[0]))
                        err = judge(verdict, obs)
                        if err:
                            c = case_obj(lines, req, verdict, obs)
                            c.update(kind='term', terminator=term, final=final)
                            part.violation('term|%r|%r' % (req, text), err, c)
        part.sample({'listing': t_text(seqs[-1], '\r\n', True), 'requests': list(reqs[-1])})
    return part.result()


# ------------------------------------------------- working-directory states ---
# The implementation consults the file system for every requested name.  For each
# requested name the working directory holds nothing, a regular file, a directory or
# a symlink to a directory of that name; crossed with the name being listed or not.
# Statement: every requested library NAME resolves from the listing or the scan stops
# naming it.  A request that is an existing regular file is a file to link as-is
# (giscanner/ccompiler.py: "If we get a real filename, just use it as-is"): what it
# contributes to the result is UNSPECIFIED; a directory is not a file to link, so such
# a name is an ordinary library name.
FS_NAMES = ['foo', 'foo-bar', 'pango', 'gd', 'src']
FS_STATES = ['none', 'file', 'dir', 'dirlink']
FS_STYLES = [('ldd', 'usr'), ('bare', 'opt')]


def fs_make(root, fs):
    shutil.rmtree(root, ignore_errors=True)
    os.makedirs(root)
    for name, st in sorted(fs.items()):
        p = os.path.join(root, name)
        if st == 'file':
            with open(p, 'w') as f:
                f.write('!<arch>\n')
        elif st == 'dir':
            os.mkdir(p)
        elif st == 'dirlink':
            os.mkdir(os.path.join(root, '.target-' + name))
            os.symlink('.target-' + name, p)


def fs_cases():
    out = []
    for k in (1, 2):
        for req in itertools.permutations(FS_NAMES, k):
            for states in itertools.product(FS_STATES, repeat=k):
                out.append((list(req), dict(zip(req, states))))
    return out


def fs_listings(req):
    """every subset of the requests listed, every order, two styles"""
    out = []
    for style, dk in FS_STYLES:
        for r in range(len(req) + 1):
            for sub in itertools.permutations(req, r):
                out.append([render(style, dir_of(dk, n), 'lib%s.so.0' % n) for n in sub])
    return out


def judge_fs(req, fs, first, obs):
    names = [r for r in req if fs.get(r, 'none') != 'file']       # library names proper
    nfiles = len(req) - len(names)
    if obs[0] == 'crash':
        return 'implementation raised %s' % obs[1]
    unresolved = [r for r in names if r not in first]
    if unresolved:
        if obs[0] != 'exit':
            return 'expected SystemExit naming %r, got %r' % (unresolved, obs[1])
        code = obs[1]
        if not isinstance(code, str) or not code:
            return 'SystemExit without a message (code %r); unresolved %r' % (code, unresolved)
        toks = named_tokens(code)
        miss = [u for u in unresolved if u not in toks]
        if miss:
            return 'error message %r does not name unresolved %r' % (code, miss)
        extra = [r for r in names if r in first and r in toks]
        if extra:
            return 'error message %r names %r which is resolvable' % (code, extra)
        return None
    want = sorted(first[r] for r in names)
    if obs[0] != 'ok':
        return 'expected %r, got SystemExit(%r)' % (want, obs[1])
    got = list(obs[1])
    for w in want:
        if w not in got:
            return 'expected %r (plus at most %d entries for file requests), got %r' % (want, nfiles, obs[1])
        got.remove(w)
    if len(got) > nfiles:
        return 'expected %r (plus at most %d entries for file requests), got %r' % (want, nfiles, obs[1])
    return None


def run_fs_case(req, fs, rendered):
    """-> (first, obs); runs the implementation with a scratch working directory"""
    lines = [Line(t, f, 'file') for t, f in rendered]
    first = {}
    for l in lines:
        f1, _ = ref_line(l.files, req)
        for n, b in f1.items():
            first.setdefault(n, b)
    root = os.path.join(scratch_dir(), 'cwd')
    fs_make(root, fs)
    old = os.getcwd()
    os.chdir(root)
    try:
        obs = run_impl(tuple(req), listing_text(lines))
    finally:
        os.chdir(old)
    return lines, first, obs


def _work_fs(chunk):
    part = Part()
    try:
        for req, fs in chunk:
            for rendered in fs_listings(req):
                lines, first, obs = run_fs_case(req, fs, rendered)
                anyfile = any(st == 'file' for st in fs.values())
                part.add(evaluations=1, states=1, transitions=1, traces_validated_against_impl=1,
                         distinct_nontrivial=1, fs_must=1, fs_with_file_request=1 if anyfile else 0)
                part.outcome(('fs', tuple(sorted(set(fs.values()))), obs[0],
                              len(obs[1]) if obs[0] == 'ok' else None))
                err = judge_fs(req, fs, first, obs)
                if err:
                    part.violation('fs|%r|%r|%r' % (req, sorted(fs.items()), listing_text(lines)), err,
                                   {'kind': 'fs', 'requests': req, 'cwd': fs,
                                    'lines': [[l.text, list(l.files), l.kind] for l in lines],
                                    'observed': _jsonable(obs)})
        if chunk:
            req, fs = chunk[-1]
            part.sample({'cwd_contains': fs, 'requests': req,
                         'listing': listing_text([Line(t, f, 'file') for t, f in fs_listings(req)[-1]])})
    finally:
        shutil.rmtree(scratch_dir(), ignore_errors=True)
    return part.result()


# ------------------------------------------------------------------------ run ---
def self_test():
    """The reference resolver against the examples spelled out in the statement."""
    t = ref_satisfies
    ok = (t('/usr/lib/libpango.so.0', 'pango') and not t('libpangoft2.so.0', 'pango')
          and not t('/opt/libpango-1.0/libfoo.so', 'pango') and not t('libpango-1.0.so.0', 'pango')
          and not t('libfoo-bar.so', 'foo') and not t('liblibfoo.so', 'foo') and t('liblibfoo.so', 'libfoo')
          and not t('libfoo', 'foo') and t('@rpath/libfoo+.1.dylib', 'foo+') and not t('libfoo.so', 'f.o')
          and t('libc++.so.1', 'c++'))
    if not ok:
        raise HarnessBroken('reference resolver fails the statement\'s own examples')
    for n in NAMES:
        if os.path.lexists(n):
            raise HarnessBroken('something named %r exists in the working directory' % n)


def run(ctx):
    os.environ.pop('GI_HOST_OS', None)
    self_test()
    spaces = build_spaces(ctx.tier)
    chunks = []
    for k, sp in enumerate(spaces):
        if sp.minlen == 0:
            chunks.append((ctx.tier, k, [None]))
        per = 1 if len(sp.lines) ** (sp.maxlen - 1) * len(sp.reqs) > 20000 else 8
        idx = list(range(len(sp.lines)))
        for i in range(0, len(idx), per):
            chunks.append((ctx.tier, k, idx[i:i + per]))
    for r in pmap(_work_space, rotate(chunks, ctx.seed)):
        ctx.merge(r)
    vals = la_values()
    la_chunks = [vals[i:i + 4] for i in range(0, len(vals), 4)]
    for r in pmap(_work_la, rotate(la_chunks, ctx.seed)):
        ctx.merge(r)
    e2e = [(li, la, nm, lf, noise) for li in range(len(E2E_LISTINGS)) for la in E2E_LA_SETS for nm in E2E_NAME_SETS
           for lf in ((True, False) if la and nm else (True,)) for noise in (False, True)]
    e2e_chunks = [e2e[i:i + 12] for i in range(0, len(e2e), 12)]
    for r in pmap(_work_e2e, rotate(e2e_chunks, ctx.seed)):
        ctx.merge(r)
    for r in pmap(_work_term, rotate([[h] for h in T_HEADERS], ctx.seed)):
        ctx.merge(r)
    fsc = fs_cases()
    fs_chunks = [fsc[i:i + 12] for i in range(0, len(fsc), 12)]
    for r in pmap(_work_fs, rotate(fs_chunks, ctx.seed)):
        ctx.merge(r)
    shutil.rmtree(scratch_dir(), ignore_errors=True)

    ctx.set(rule='every loader listing of min..max lines over each space\'s line alphabet (all orders, repetition '
                 'allowed) x every ordered request list (repetition allowed) over the space\'s names; each pair is run '
                 'on resolve_from_ldd_output+sanitize_shlib_path and compared with the character-level reference '
                 'resolver; pairs in which one listed file satisfies two requests are outside the quantifier '
                 '(executed, counted unspecified). non-trivial = pair with a MUST verdict (resolved multiset or '
                 'SystemExit naming exactly the unresolved names). Plus every libtool .la layout (4! field orders x '
                 'comments on/off) x dlname value, resolve_shlibs end-to-end with `cat listing` as ldd wrapper, and every '
                 'request list of 1-2 distinct names x working directory holding nothing / a regular file / a '
                 'directory / a symlink to a directory of each name x each subset and order of the names listed.',
            bounds={'spaces': [{'tag': s.tag, 'lines': len(s.lines), 'listing_len': [s.minlen, s.maxlen],
                                'names': s.names, 'max_requests': s.maxreq, 'pairs': s.size()} for s in spaces],
                    'multi_file_line_bases': M_BASES, 'multi_file_line_decorations': M_DECOS,
                    'names': NAMES, 'tails': TAILS, 'styles': STYLES, 'dirkinds': DIRKINDS,
                    'la_values': len(vals), 'la_layouts': 48, 'la_unspecified_variants': len(LA_VARIANTS) + 2,
                    'e2e_cases': len(e2e), 'line_terminators': [t for t, _ in T_TERMS], 'terminator_headers': T_HEADERS, 'fs_names': FS_NAMES, 'fs_states': FS_STATES,
                    'fs_request_x_cwd_states': len(fsc)})
    ctx.assumptions += [
        'which whitespace-separated tokens of a listing are listed files is known from the generator (ldd: soname and '
        'path, same base name; bare/otool/BSD: the path); other tokens (=>, addresses, version text) are not files',
        'main spaces run with none of the names present in the working directory; the working-directory family '
        'creates them: a request that is an existing regular file is a file to link as-is (its contribution to the '
        'result is UNSPECIFIED), a directory or symlink to one is an ordinary library name',
        'order of the returned list is not fixed by the statement: compared as a multiset',
        'a .la file without a usable dlname (empty, absent, path, other quoting) is UNSPECIFIED: executed, and a '
        'non-None result must still be the dlname base name',
        'platform: Linux (sanitize_shlib_path and extract_libtool_shlib take the non-Darwin branch)',
    ]
    cov = ctx.cov
    if (len(ctx._outcomes) < 8 or not cov.get('expected_resolved') or not cov.get('expected_error')
            or not cov.get('la_must') or not cov.get('e2e_must') or not cov.get('fs_must') or not cov.get('term_must')
            or not cov.get('fs_with_file_request')):
        raise HarnessBroken('vacuous exploration: outcomes=%d resolved=%s error=%s' % (
            len(ctx._outcomes), cov.get('expected_resolved'), cov.get('expected_error')))


def replay(ctx, case):
    os.environ.pop('GI_HOST_OS', None)
    kind = case.get('kind')
    try:
        if kind == 'listing':
            lines = [Line(t, f, k) for t, f, k in case['lines']]
            req = tuple(case['requests'])
            first = {}
            pairs = set()
            for l in lines:
                f1, p1 = ref_line(l.files if l.kind != 'header' else (), sorted(set(req)))
                for n, b in f1.items():
                    first.setdefault(n, b)
                pairs |= p1
            verdict = ref_verdict(first, pairs, req)
            text = listing_text(lines)
            obs = run_impl(req, text)
            print('listing:\n%s' % text)
            print('requests: %r' % (list(req),))
            print('expected: %r' % (_jsonable(verdict),))
            print('observed: %r' % (_jsonable(obs),))
            if verdict[0] == 'unspecified':
                return obs[0] != 'crash'
            err = judge(verdict, obs)
        elif kind == 'la':
            obs = run_la(case['content'])
            print('la file:\n%s' % case['content'])
            print('dlname base name: %r  mode: %s' % (case['value'], case['mode']))
            print('observed: %r' % (_jsonable(obs),))
            err = judge_la(case['mode'], case['value'], obs)
        elif kind == 'e2e':
            lines = e2e_lines(E2E_LISTINGS[case['listing']])
            verdict, static = e2e_expect(lines, case['la'], case['names'])
            obs = run_e2e(lines, case['la'], case['names'], case['la_first'], case.get('stderr_noise', False))
            print('wrapper prints look-alike paths on stderr: %r' % case.get('stderr_noise', False))
            print('listing:\n%s' % listing_text(lines))
            print('libraries: la=%r names=%r' % (case['la'], case['names']))
            print('expected: %r' % (_jsonable(verdict),))
            print('observed: %r' % (_jsonable(obs),))
            if verdict[0] == 'unspecified' or (static and verdict[0] == 'ok'):
                return obs[0] != 'crash'
            err = judge(verdict, obs)
        elif kind == 'term':
            lines = [Line(t, f, k) for t, f, k in case['lines']]
            req = tuple(case['requests'])
            first = {}
            pairs = set()
            for l in lines:
                for n, b in l.first.items():
                    first.setdefault(n, b)
                pairs |= l.pairs
            verdict = ref_verdict(first, pairs, req)
            text = t_text(lines, case['terminator'], case['final'])
            obs = run_impl(req, text)
            print('listing: %r' % text)
            print('requests: %r' % (list(req),))
            print('expected: %r' % (_jsonable(verdict),))
            print('observed: %r' % (_jsonable(obs),))
            if verdict[0] == 'unspecified':
                return obs[0] != 'crash'
            err = judge(verdict, obs)
        elif kind == 'fs':
            req, fs = list(case['requests']), dict(case['cwd'])
            lines, first, obs = run_fs_case(req, fs, [(t, tuple(f)) for t, f, _k in case['lines']])
            print('working directory contains: %r' % (fs,))
            print('listing:\n%s' % listing_text(lines))
            print('requests: %r' % (req,))
            print('reference resolution of the names: %r' % (first,))
            print('observed: %r' % (_jsonable(obs),))
            err = judge_fs(req, fs, first, obs)
        else:
            raise HarnessBroken('unknown replay kind %r' % kind)
    finally:
        shutil.rmtree(scratch_dir(), ignore_errors=True)
    print('result: %s' % (err or 'ok'))
    return err is None
