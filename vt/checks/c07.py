"""C07 - GIR files survive a read/write cycle unchanged.

Generation-tree search (E1) + corpus.  Oracle: vt/scan/c07_roundtrip (byte equality of
GIRWriter output before and after a GIRParser pass, once more from the written bytes,
agreement of the independent reader's view, and agreement of the API-relevant projection
of the written and the re-read giscanner.ast model).

 (i)   AST-level generator: giscanner.ast namespaces built directly, ONE node kind at a
       time (alias, constant, enumeration, bitfield, member, callback, function, method,
       constructor, static function, inline function, function macro, parameter, instance
       parameter, return value, record, union, field, callback field, anonymous record/
       union field, boxed, class, interface, property, signal, virtual method, docsection,
       namespace header, every type shape), every optional attribute of that kind present or
       absent (2^k, k<=13; larger k: the attribute groups are enumerated one group at a time
       against all-absent and all-present backgrounds in the quick tier and fully crossed in
       the thorough tier up to 2^13), and every text slot filled with every text class
       {plain, XML-special characters, leading/trailing whitespace, newline, non-ASCII, very
       long, tab}.  The text values are not invented: each class is pushed through the real
       GtkDocCommentBlockParser in the slot's syntactic position (description, parameter
       description, Since/Deprecated/Stability value and description, (attributes k=v)) and
       the value the parser DELIVERS is what is written - so only deliverable values are in
       the quantifier.
 (ii)  scanned namespaces: every API description of the C05 generator (vt/checks/c05.py,
       parts A-D; all node kinds incl. classes with properties/signals/vfuncs from a runtime
       dump) plus a documented "kitchen sink" namespace is scanned by the real pipeline, the
       GIR is round-tripped and the scanner's namespace is compared with the one read back.
 (iii) all GIR files of the repository: the 12 scanner-written tests/scanner/*-expected.gir
       must round-trip byte-identically; for the 12 hand-written gir/*.gir the file produced
       by one write must be a fixed point and carry the same model as the original.
"""
import glob
import itertools
import os

from vt.core import Part, pmap, chunked, rotate, HarnessBroken, REPO
from vt.scan import fake  # noqa: F401
from vt.scan import run as scanrun
from vt.scan import c07_roundtrip as rt
from vt.checks import c05 as c05gen

from giscanner import ast, message
from giscanner.annotationparser import GtkDocCommentBlockParser
from giscanner.message import Position

LEVEL = 'model_checking'

# ----------------------------------------------------------------- text menu --
LONG = ' '.join(['verylongword%02d' % i for i in range(40)])
TEXT_CLASSES = {
    'plain': 'plain text',
    'xml': 'a <b> & "q" \'s\' ]]> &amp; &#10; <!-- c --> </doc>',
    'ws': '   lead and trail   ',
    'nl': 'line one\n *\n * line two\n *   indented\n * ',
    'nonascii': 'caf\u00e9 \u4e2d\u6587 \U0001f600',
    'long': LONG,
    'tab': 'a\tb',
}
ATTR_CLASSES = {      # (attributes k=v): one token
    'plain': 'value', 'xml': '<&>"\'', 'ws': 'x', 'nl': 'y', 'nonascii': 'caf\u00e9\u4e2d', 'long': 'L' * 120, 'tab': 'z',
}


def harvest_texts():
    """{slot-type: {class: delivered value}} from the real comment parser.
    slot types: 'doc' (block description), 'pdoc' (parameter description), 'tdoc' (tag
    description), 'version', 'stability', 'attr'."""
    message.MessageLogger._instance = None
    # 'raw': values that do not come from comments at all - C string constants and GValue contents printed
    # by the runtime dump (property default values) can be any string
    out = {'doc': {}, 'pdoc': {}, 'tdoc': {}, 'version': {}, 'stability': {}, 'attr': {},
           'raw': dict((k, v.replace('\n *', '\n')) for k, v in TEXT_CLASSES.items())}
    out['raw']['cr'] = 'a\rb'          # carriage returns survive only as character references in attributes
    out['raw']['crlf'] = 'a\r\nb\r\n'
    out['raw']['zero'] = '0'        # "present with value 0 / empty" must stay distinct from "absent"
    out['raw']['empty'] = ''
    parser = GtkDocCommentBlockParser()
    for cls, v in TEXT_CLASSES.items():
        first = v.split('\n')[0]
        text = ('/**\n * foo_f: (attributes k=%s)\n * @p: %s\n *\n * %s\n *\n * Returns: %s\n * Since: 1.2: %s\n'
                ' * Deprecated: 0.9: %s\n * Stability: Unstable: %s\n */' % (ATTR_CLASSES[cls], v, v, v, v, first, first))
        blocks = parser.parse_comment_blocks([(text, '/src/foo.c', 10)])
        b = blocks.get('foo_f')
        if b is None:
            continue
        if b.description:
            out['doc'][cls] = b.description
        p = b.params.get('p')
        if p is not None and p.description:
            out['pdoc'][cls] = p.description
        t = b.tags.get('since')
        if t is not None and t.description:
            out['tdoc'][cls] = t.description
        a = b.annotations.get('attributes')
        if a:
            val = list(a.values())[0]
            if val:
                out['attr'][cls] = val
    for cls, v in (('cr', 'a\rb'), ('crlf', 'a\r\nb'), ('tab2', 'a\tb')):
        blocks = parser.parse_comment_blocks([('/**\n * foo_f: (attributes k=%s)\n *\n * d\n */' % v, '/src/foo.c', 10)])
        b = blocks.get('foo_f')
        a = b.annotations.get('attributes') if b is not None else None
        if a:
            val = list(a.values())[0]
            if val:
                out['attr'][cls] = val
    for v in ('1.2', '0', '2.80.1', '1.', '.5'):
        blocks = parser.parse_comment_blocks([('/**\n * foo_f:\n *\n * d\n *\n * Since: %s\n */' % v, '/src/foo.c', 10)])
        t = blocks['foo_f'].tags.get('since')
        if t is not None and t.value:
            out['version'][v] = t.value
    for v in ('Stable', 'unstable', 'PRIVATE', 'internal', 'bogus'):
        blocks = parser.parse_comment_blocks([('/**\n * foo_f:\n *\n * d\n *\n * Stability: %s\n */' % v, '/src/foo.c', 10)])
        t = blocks['foo_f'].tags.get('stability')
        if t is not None and t.value:
            out['stability'][v] = t.value
    message.MessageLogger._instance = None
    return out


_TEXTS = None


def texts():
    global _TEXTS
    if _TEXTS is None:
        _TEXTS = harvest_texts()
    return _TEXTS


# --------------------------------------------------------------- choice points --
class Opt(object):
    """Toggle oracle.  o('name') -> bool; o.text(slot, slottype) -> str."""

    def __init__(self, on=(), text=None, record=False):
        self.on = set(on)
        self.names = []
        self.slots = []
        self.record = record
        self.textsel = text        # (slot, class) or None

    def __call__(self, name):
        if name not in self.names:
            self.names.append(name)
        return self.record or name in self.on

    def text(self, slot, slottype):
        if (slot, slottype) not in self.slots:
            self.slots.append((slot, slottype))
        t = texts()[slottype]
        if self.textsel is not None and self.textsel[0] == slot:
            return t[self.textsel[1]]
        if slottype == 'version':
            return t['1.2']
        if slottype == 'stability':
            return t['Stable']
        return t['plain']


# ------------------------------------------------------------------ builders --
INT = lambda: ast.Type(target_fundamental='gint', ctype='int')            # noqa: E731
VOID = lambda: ast.Type(target_fundamental='none', ctype='void')          # noqa: E731
UTF8 = lambda: ast.Type(target_fundamental='utf8', ctype='const char*')   # noqa: E731
PTR = lambda: ast.Type(target_fundamental='gpointer', ctype='gpointer')   # noqa: E731


def new_ns():
    return ast.Namespace('Foo', '1.0')


def generic(o, n, node_level=True, tags=True):
    """every attribute of ast.Annotated (+ positions) the pipeline can deliver for the subject node, as toggles.
    node_level=False: parameters, return values, fields - the comment syntax gives them a description and
    (attributes) only, no Since/Deprecated/Stability tags."""
    if node_level and tags:
        if o('g.version'):
            n.version = o.text('version', 'version')
        if o('g.version_doc'):
            n.version_doc = o.text('version_doc', 'tdoc')
        if o('g.stability'):
            n.stability = o.text('stability', 'stability')
        if o('g.stability_doc'):
            n.stability_doc = o.text('stability_doc', 'tdoc')
        if o('g.deprecated'):
            n.deprecated = o.text('deprecated', 'version')
        if o('g.deprecated_doc'):
            n.deprecated_doc = o.text('deprecated_doc', 'tdoc')
    if o('h.doc'):
        n.doc = o.text('doc', 'doc' if node_level else 'pdoc')
        n.doc_position = Position('/src/foo.c', 12, 5 if o('h.doc_column') else None)
    if not tags:
        return n
    if o('h.attr1'):
        n.attributes['org.k1'] = o.text('attr1', 'attr')
    if o('h.attr2'):
        n.attributes['k2'] = o.text('attr2', 'attr')
    if node_level or isinstance(n, ast.Field):
        if o('h.not_introspectable'):
            n.introspectable = False
    if node_level and o('h.skip'):
        n.skip = True
    if hasattr(n, 'add_file_position') and o('h.position'):
        n.add_file_position(Position('/src/foo.h', 42, 3 if o('h.position_column') else None))
    return n


def plain_func(name='f', symbol='foo_f', params=None, ret=None):
    return ast.Function(name, ret or ast.Return(VOID(), transfer='none'), params or [], False, symbol)


def b_alias(o):
    ns = new_ns()
    tgt = INT()
    if o('target_local'):
        ns.append(ast.Record('Rec', ctype='FooRec'))
        tgt = ast.Type(target_giname='Foo.Rec', ctype='FooRec*')
    elif o('target_list'):
        tgt = ast.List('GLib.List', PTR(), ctype='GList*')
    elif o('target_array'):
        tgt = ast.Array(None, INT(), ctype='int*')
    elif o('target_foreignns'):
        tgt = ast.Type(target_giname='GLib.Quark', ctype='GQuark')
    elif o('target_prefixns'):
        tgt = ast.Type(target_giname='FooDep.Thing', ctype='FooDepThing')
    a = ast.Alias('Al', tgt, 'FooAl' if not o('no_ctype') else None)
    ns.append(generic(o, a))
    return ns


def b_constant(o):
    ns = new_ns()
    if o('string'):
        c = ast.Constant('C', UTF8(), o.text('value', 'raw'), 'FOO_C')
    elif o('bool'):
        c = ast.Constant('C', ast.Type(target_fundamental='gboolean', ctype='gboolean'), 'true', 'FOO_C')
    elif o('double'):
        c = ast.Constant('C', ast.Type(target_fundamental='gdouble', ctype='gdouble'), '1.500000', 'FOO_C')
    elif o('zero'):
        c = ast.Constant('C', INT(), '0', 'FOO_C')
    else:
        c = ast.Constant('C', INT(), '-5', 'FOO_C')
    ns.append(generic(o, c))
    return ns


def b_enum(o, cls=ast.Enum):
    ns = new_ns()
    members = []
    if o('member1'):
        members.append(ast.Member('a', 0, 'FOO_E_A', 'a' if o('nicks') else None, 'FOO_E_A' if o('nicks') else None))
    if o('member2'):
        members.append(ast.Member('b', '4294967295', 'FOO_E_B', 'b' if o('nicks') else None, None))
    reg = o('registered')
    e = cls('E', 'FooE', gtype_name='FooE' if reg else None, get_type='foo_e_get_type' if reg else None,
            c_symbol_prefix='e', members=members)
    if cls is ast.Enum and o('error_domain'):
        e.error_domain = 'foo-e-quark'
    if o('static_method'):
        f = plain_func('quark', 'foo_e_quark')
        e.static_methods.append(f)
    if o('static_method2'):
        e.static_methods.append(plain_func('a_first', 'foo_e_a_first'))
    ns.append(generic(o, e))
    return ns


def b_bitfield(o):
    return b_enum(o, ast.Bitfield)


def b_member(o):
    ns = new_ns()
    m = ast.Member('a', 0 if o('zero') else '1', 'FOO_E_A', 'nick-a' if o('nick') else None,
                   'FOO_E_A' if o('dump_name') else None)
    generic(o, m, node_level=True)
    e = ast.Enum('E', 'FooE', members=[m, ast.Member('b', 2, 'FOO_E_B')])
    ns.append(e)
    return ns


def some_params(o, n=2):
    ps = []
    if o('param1'):
        ps.append(ast.Parameter('a', INT(), direction='in', transfer='none'))
    if n > 1 and o('param2'):
        ps.append(ast.Parameter('b', UTF8(), direction='in', transfer='none', nullable=True))
    return ps


def callable_common(o, f):
    if o('throws'):
        f.throws = True
    if o('finish_func'):
        f.finish_func = 'f_finish'
    if o('sync_func'):
        f.sync_func = 'f_sync'
    if o('async_func'):
        f.async_func = 'f_async'
    return f


def b_callback(o):
    ns = new_ns()
    c = ast.Callback('Cb', ast.Return(VOID(), transfer='none'), some_params(o), False,
                     'Cb' if o('ctype_is_name') else 'FooCb')
    callable_common(o, c)
    ns.append(generic(o, c))
    return ns


def function_specific(o, f):
    if o('shadows'):
        f.shadows = 'other'
    elif o('shadowed_by'):
        f.shadowed_by = 'other_full'
    if o('moved_to'):
        f.moved_to = 'Rec.f'
    if o('set_property'):
        f.set_property = 'prop-a'
    if o('get_property'):
        f.get_property = 'prop-b'
    return f


def b_function(o, where='top'):
    ns = new_ns()
    f = ast.Function('f', ast.Return(VOID(), transfer='none'), some_params(o), False, 'foo_f')
    callable_common(o, f)
    function_specific(o, f)
    generic(o, f)
    if where == 'inline':
        f.is_inline = True
        f.introspectable = False        # IntrospectablePass: inline functions are never introspectable
    if where in ('top', 'inline'):
        ns.append(f)
        return ns
    rec = ast.Record('Rec', ctype='FooRec')
    if where in ('method', 'method_inline'):
        f.is_method = True
        f.instance_parameter = ast.Parameter('self', ast.Type(target_giname='Foo.Rec', ctype='FooRec*'),
                                             direction='in', transfer='none')
        if where == 'method_inline':
            f.is_inline = True
            f.introspectable = False
        rec.methods.append(f)
    elif where == 'constructor':
        f.is_constructor = True
        f.retval = ast.Return(ast.Type(target_giname='Foo.Rec', ctype='FooRec*'), transfer='full')
        rec.constructors.append(f)
    else:
        rec.static_methods.append(f)
    ns.append(rec)
    return ns


def b_method(o):
    return b_function(o, 'method')


def b_constructor(o):
    return b_function(o, 'constructor')


def b_static(o):
    return b_function(o, 'static')


def b_inline(o):
    return b_function(o, 'inline')


def b_method_inline(o):
    return b_function(o, 'method_inline')


def b_macro(o):
    ns = new_ns()
    ps = []
    if o('param1'):
        p = ast.Parameter('a', None)
        if o('param1_doc'):
            p.doc = o.text('pdoc', 'pdoc')
            p.doc_position = Position('/src/foo.c', 13)
        ps.append(p)
    if o('param2'):
        ps.append(ast.Parameter('b', None))
    m = ast.FunctionMacro('M', ps, 'FOO_M')
    ns.append(generic(o, m))
    return ns


TYPE_SHAPES = ['int', 'utf8', 'local', 'foreign', 'unresolved', 'carray', 'carray_len', 'carray_fixed', 'carray_nozero',
               'carray_zero_len', 'garray', 'ptrarray', 'bytearray', 'list', 'slist', 'list_nested', 'map', 'map_bare',
               'varargs', 'array_of_array', 'noctype', 'complete_ctype', 'garray_fixed', 'ptrarray_len',
               'carray_fixed0', 'carray_fixed1', 'garray_fixed0', 'prefix_ns', 'prefix_ns_list', 'prefix_ns_array',
               'prefix_ns_map', 'prefix_ns_noctype',
               # containers whose element is itself an array / container
               'list_of_carray', 'slist_of_bytearray', 'list_of_ptrarray', 'ptrarray_of_carray', 'garray_of_bytearray',
               'list_of_list', 'list_of_map', 'map_value_list', 'map_value_carray', 'map_key_carray', 'map_value_ptrarray']


def type_shape(shape):
    """-> (type, needs_len_param)"""
    if shape == 'int':
        return INT(), False
    if shape == 'utf8':
        return UTF8(), False
    if shape == 'local':
        return ast.Type(target_giname='Foo.Rec', ctype='FooRec*'), False
    if shape == 'foreign':
        return ast.Type(target_giname='GLib.Variant', ctype='GVariant*'), False
    if shape == 'unresolved':
        return ast.Type(ctype='FooUnknown*'), False
    if shape == 'carray':
        return ast.Array(None, UTF8(), ctype='char**'), False
    if shape == 'carray_len':
        a = ast.Array(None, INT(), ctype='int*')
        a.zeroterminated = False
        a.length_param_name = 'n'
        return a, True
    if shape == 'carray_fixed':
        a = ast.Array(None, INT(), ctype='int*')
        a.zeroterminated = False
        a.size = 4
        return a, False
    if shape == 'carray_nozero':
        a = ast.Array(None, INT(), ctype='int*')
        a.zeroterminated = False
        return a, False
    if shape == 'carray_zero_len':
        a = ast.Array(None, UTF8(), ctype='char**')
        a.zeroterminated = True
        a.length_param_name = 'n'
        a.size = 2
        return a, True
    if shape == 'garray':
        return ast.Array('GLib.Array', INT(), ctype='GArray*'), False
    def strv():
        return ast.Array(None, ast.Type(target_fundamental='utf8'))        # (element-type GStrv)

    def bytearr():
        return ast.Array('GLib.ByteArray', ast.Type(target_fundamental='guint8', ctype='guint8'))

    def ptrarr():
        return ast.Array('GLib.PtrArray', ast.Type(target_fundamental='utf8'))

    nested = {
        'list_of_carray': lambda: ast.List('GLib.List', strv(), ctype='GList*'),
        'slist_of_bytearray': lambda: ast.List('GLib.SList', bytearr(), ctype='GSList*'),
        'list_of_ptrarray': lambda: ast.List('GLib.List', ptrarr(), ctype='GList*'),
        'ptrarray_of_carray': lambda: ast.Array('GLib.PtrArray', strv(), ctype='GPtrArray*'),
        'garray_of_bytearray': lambda: ast.Array('GLib.Array', bytearr(), ctype='GArray*'),
        'list_of_list': lambda: ast.List('GLib.List', ast.List('GLib.List', ast.Type(target_fundamental='utf8')), ctype='GList*'),
        'list_of_map': lambda: ast.List('GLib.List', ast.Map(ast.Type(target_fundamental='utf8'),
                                                             ast.Type(target_fundamental='utf8')), ctype='GList*'),
        'map_value_list': lambda: ast.Map(ast.Type(target_fundamental='utf8'),
                                          ast.List('GLib.List', ast.Type(target_fundamental='utf8')), ctype='GHashTable*'),
        'map_value_carray': lambda: ast.Map(ast.Type(target_fundamental='utf8'), strv(), ctype='GHashTable*'),
        'map_key_carray': lambda: ast.Map(strv(), ast.Type(target_fundamental='utf8'), ctype='GHashTable*'),
        'map_value_ptrarray': lambda: ast.Map(ast.Type(target_fundamental='utf8'), ptrarr(), ctype='GHashTable*'),
    }
    if shape in nested:
        return nested[shape](), False
    if shape in ('carray_fixed0', 'carray_fixed1'):     # char data[0]; / (array fixed-size=0)
        a = ast.Array(None, ast.Type(target_fundamental='gchar', ctype='char'), ctype='char*')
        a.zeroterminated = False
        a.size = 0 if shape.endswith('0') else 1
        return a, False
    if shape == 'garray_fixed0':
        a = ast.Array('GLib.Array', ast.Type(target_fundamental='gint'), ctype='GArray*')
        a.zeroterminated = False
        a.size = 0
        return a, False
    # the written namespace is Foo; FooDep / FooBar are OTHER namespaces whose names start with "Foo"
    if shape == 'prefix_ns':
        return ast.Type(target_giname='FooDep.Thing', ctype='FooDepThing*'), False
    if shape == 'prefix_ns_noctype':
        return ast.Type(target_giname='FooBar.Rec'), False
    if shape == 'prefix_ns_list':
        return ast.List('GLib.List', ast.Type(target_giname='FooDep.Thing', ctype='FooDepThing*'), ctype='GList*'), False
    if shape == 'prefix_ns_array':
        return ast.Array(None, ast.Type(target_giname='FooDep.Thing', ctype='FooDepThing*'), ctype='FooDepThing**'), False
    if shape == 'prefix_ns_map':
        return ast.Map(ast.Type(target_giname='FooBar.Key', ctype='FooBarKey*'),
                       ast.Type(target_giname='FooDep.Thing', ctype='FooDepThing*'), ctype='GHashTable*'), False
    if shape == 'garray_fixed':          # (array fixed-size=4) (element-type int) on a GArray*
        a = ast.Array('GLib.Array', ast.Type(target_fundamental='gint'), ctype='GArray*')
        a.zeroterminated = False
        a.size = 4
        return a, False
    if shape == 'ptrarray_len':          # (array length=n) (element-type utf8) on a GPtrArray*
        a = ast.Array('GLib.PtrArray', ast.Type(target_fundamental='utf8'), ctype='GPtrArray*')
        a.zeroterminated = False
        a.length_param_name = 'n'
        return a, True
    if shape == 'ptrarray':
        return ast.Array('GLib.PtrArray', ast.Type(target_giname='Foo.Rec', ctype='FooRec*'), ctype='GPtrArray*'), False
    if shape == 'bytearray':
        return ast.Array('GLib.ByteArray', ast.Type(target_fundamental='guint8', ctype='guint8'), ctype='GByteArray*'), False
    if shape == 'list':
        return ast.List('GLib.List', UTF8(), ctype='GList*'), False
    if shape == 'slist':
        return ast.List('GLib.SList', PTR(), ctype='GSList*'), False
    if shape == 'list_nested':
        return ast.List('GLib.List', ast.List('GLib.SList', INT(), ctype='GSList*'), ctype='GList*'), False
    if shape == 'map':
        return ast.Map(UTF8(), ast.Type(target_giname='Foo.Rec', ctype='FooRec*'), ctype='GHashTable*'), False
    if shape == 'map_bare':
        return ast.Map(PTR(), PTR(), ctype='GHashTable*'), False
    if shape == 'varargs':
        return ast.Varargs(), False
    if shape == 'array_of_array':
        return ast.Array(None, ast.Array(None, INT(), ctype='int*'), ctype='int**'), False
    if shape == 'noctype':
        return ast.Type(target_giname='Foo.Rec'), False
    if shape == 'complete_ctype':
        return ast.Type(target_fundamental='utf8', ctype='char*', complete_ctype='const char* const'), False
    raise ValueError(shape)


def b_parameter(o, shape='int'):
    ns = new_ns()
    ns.append(ast.Record('Rec', ctype='FooRec'))
    t, needs_len = type_shape(shape)
    direction = 'out' if o('out') else ('inout' if o('inout') else 'in')
    transfer = 'full' if o('transfer_full') else ('container' if o('transfer_container') else
                                                   (None if o('no_transfer') else 'none'))
    p = ast.Parameter('p', t, direction=direction, transfer=transfer,
                      nullable=o('nullable'), optional=o('optional'),
                      scope=('call' if o('scope_call') else ('notified' if o('scope_notified') else None)),
                      caller_allocates=o('caller_allocates'))
    others = [ast.Parameter('n', INT(), direction='in', transfer='none'),
              ast.Parameter('data', PTR(), direction='in', transfer='none')]
    if o('closure'):
        p.closure_name = 'n' if o('closure_first') else 'data'      # with 'last': index 0
    if o('destroy'):
        p.destroy_name = 'n'
    if o('param_skip'):
        p.skip = True
    generic(o, p, node_level=False)
    f = ast.Function('f', ast.Return(VOID(), transfer='none'), [p] + others if not o('last') else others + [p], False, 'foo_f')
    ns.append(f)
    return ns


def b_parameter_direction(o):
    """full cross product direction {in,out,inout} x nullable x optional x caller-allocates x not-nullable"""
    ns = new_ns()
    direction = 'out' if o('out') else ('inout' if o('inout') else 'in')
    p = ast.Parameter('p', ast.Type(target_fundamental='utf8', ctype='char**' if direction != 'in' else 'char*'),
                      direction=direction, transfer='full', nullable=o('nullable'), optional=o('optional'),
                      caller_allocates=o('caller_allocates'), not_nullable=o('not_nullable'))
    f = ast.Function('f', ast.Return(VOID(), transfer='none'), [p], False, 'foo_f')
    ns.append(f)
    return ns


def b_instance_parameter(o):
    ns = new_ns()
    rec = ast.Record('Rec', ctype='FooRec')
    p = ast.Parameter('self', ast.Type(target_giname='Foo.Rec', ctype='FooRec*'), direction='in',
                      transfer='full' if o('transfer_full') else 'none', nullable=o('nullable'))
    generic(o, p, node_level=False)
    f = ast.Function('m', ast.Return(VOID(), transfer='none'), some_params(o, 1), False, 'foo_rec_m')
    f.is_method = True
    f.instance_parameter = p
    rec.methods.append(f)
    ns.append(rec)
    return ns


def b_return(o, shape='int'):
    ns = new_ns()
    ns.append(ast.Record('Rec', ctype='FooRec'))
    t, needs_len = type_shape(shape)
    transfer = 'full' if o('transfer_full') else ('container' if o('transfer_container') else
                                                   (None if o('no_transfer') else 'none'))
    r = ast.Return(t, nullable=o('nullable'), transfer=transfer)
    if o('ret_skip'):
        r.skip = True
    generic(o, r, node_level=False)
    f = ast.Function('f', r, [ast.Parameter('n', INT(), direction='out' if o('len_out') else 'in', transfer='none')],
                     False, 'foo_f')
    ns.append(f)
    return ns


def compound_common(o, c):
    if o('registered'):
        c.gtype_name = 'FooRec'
        c.get_type = 'foo_rec_get_type'
        c.c_symbol_prefix = 'rec'
    elif o('symbol_prefix_only'):
        c.c_symbol_prefix = 'rec'
    if o('copy_func'):
        c.copy_func = 'foo_rec_copy'
    if o('free_func'):
        c.free_func = 'foo_rec_free'
    if o('field'):
        c.fields.append(ast.Field('x', INT(), True, True))
    if o('method'):
        m = plain_func('m', 'foo_rec_m')
        m.is_method = True
        m.instance_parameter = ast.Parameter('self', ast.Type(target_giname='Foo.Rec', ctype='FooRec*'), direction='in',
                                             transfer='none')
        c.methods.append(m)
    if o('constructor'):
        k = plain_func('new', 'foo_rec_new', ret=ast.Return(ast.Type(target_giname='Foo.Rec', ctype='FooRec*'), transfer='full'))
        k.is_constructor = True
        c.constructors.append(k)
    if o('static'):
        c.static_methods.append(plain_func('s', 'foo_rec_s'))
    return c


def b_record(o):
    ns = new_ns()
    r = ast.Record('Rec', ctype=None if o('no_ctype') else 'FooRec', disguised=o('disguised'), opaque=o('opaque'),
                   pointer=o('pointer'))
    if o('foreign'):
        r.foreign = True
    if o('gtype_struct_for'):
        ns.append(ast.Class('Obj', None, ctype='FooObj', gtype_name='FooObj', get_type='foo_obj_get_type',
                            c_symbol_prefix='obj'))
        r.is_gtype_struct_for = ast.Type(target_giname='Foo.Obj')
    compound_common(o, r)
    ns.append(generic(o, r))
    return ns


def b_union(o):
    ns = new_ns()
    u = ast.Union('Rec', ctype=None if o('no_ctype') else 'FooRec')
    compound_common(o, u)
    ns.append(generic(o, u))
    return ns


def b_field(o, shape='int'):
    ns = new_ns()
    r = ast.Record('Rec', ctype='FooRec')
    t, needs_len = type_shape(shape)
    f = ast.Field('f', t, not o('not_readable'), o('writable'), (1 if o('bits_one') else 3) if o('bits') else None)
    if o('private'):
        f.private = True
    generic(o, f, node_level=False)
    r.fields.append(ast.Field('n', INT(), True, False))
    r.fields.append(f)
    ns.append(r)
    return ns


def b_field_callback(o):
    ns = new_ns()
    r = ast.Record('Rec', ctype='FooRec')
    c = ast.Callback('fcb', ast.Return(VOID(), transfer='none'), some_params(o), o('throws'), None if o('cb_no_ctype') else 'fcb')
    if o('cb_position'):
        c.add_file_position(Position('/src/foo.h', 44))
    if o('cb_dead'):
        c.introspectable = False
    f = ast.Field('fcb', None, True, False, anonymous_node=c)
    generic(o, f, node_level=False)
    r.fields.append(f)
    ns.append(r)
    return ns


def b_field_anon(o):
    ns = new_ns()
    r = ast.Record('Rec', ctype='FooRec')
    cls = ast.Union if o('union') else ast.Record
    inner = cls(None if o('unnamed') else 'inner', ctype=None)
    inner.fields.append(ast.Field('a', INT(), True, True))
    if o('inner_second'):
        inner.fields.append(ast.Field('b', UTF8(), True, False))
    if o('inner_position'):
        inner.add_file_position(Position('/src/foo.h', 45))
    f = ast.Field(inner.name, None, True, False, anonymous_node=inner)
    r.fields.append(ast.Field('before', INT(), True, False))
    r.fields.append(f)
    if o('after'):
        r.fields.append(ast.Field('after', INT(), True, False))
    if o('length_after'):      # an array field whose length field is 'before': written as a field index
        a = ast.Array(None, ast.Type(target_fundamental='guint8', ctype='guint8'), ctype='guint8*')
        a.zeroterminated = False
        a.length_param_name = 'before'
        r.fields.append(ast.Field('data', a, True, True))
    ns.append(r)
    return ns


def b_boxed(o):
    ns = new_ns()
    b = ast.Boxed('Bx', gtype_name='FooBx', get_type='foo_bx_get_type', c_symbol_prefix='bx')
    if o('method'):
        m = plain_func('m', 'foo_bx_m')
        m.is_method = True
        b.methods.append(m)
    if o('constructor'):
        k = plain_func('new', 'foo_bx_new')
        b.constructors.append(k)
    if o('static'):
        b.static_methods.append(plain_func('s', 'foo_bx_s'))
    ns.append(b)       # MainTransformer applies no comment block to a bare boxed type: no generic attributes
    return ns


def b_class(o, iface=False):
    ns = new_ns()
    if iface:
        c = ast.Interface('Obj', None, ctype='FooObj', gtype_name='FooObj', get_type='foo_obj_get_type',
                          c_symbol_prefix='obj')
        if o('prerequisite'):
            c.prerequisites.append(ast.Type(target_giname='GObject.Object'))
        if o('prerequisite2'):
            c.prerequisites.append(ast.Type(target_giname='Foo.Another'))
        if o('prerequisite_prefixns'):
            c.prerequisites.append(ast.Type(target_giname='FooDep.Obj'))
    else:
        parent = ast.Type(target_giname='GObject.Object') if not o('no_parent') else None
        if o('parent_prefixns'):
            parent = ast.Type(target_giname='FooDep.Obj')
        c = ast.Class('Obj', parent, ctype='FooObj',
                      gtype_name='FooObj', get_type='foo_obj_get_type', c_symbol_prefix='obj',
                      is_abstract=o('abstract'), is_final=o('final'))
        if o('fundamental'):
            c.fundamental = True
            c.ref_func = 'foo_obj_ref'
            c.unref_func = 'foo_obj_unref'
        if o('value_funcs'):
            c.set_value_func = 'foo_value_set_obj'
            c.get_value_func = 'foo_value_get_obj'
        if o('implements'):
            c.interfaces.append(ast.Type(target_giname='Foo.Iface'))
            c.interfaces.append(ast.Type(target_giname='Bar.Iface'))
        if o('implements_prefixns'):
            c.interfaces.append(ast.Type(target_giname='FooDep.Iface'))
        if o('constructor'):
            k = plain_func('new', 'foo_obj_new', ret=ast.Return(ast.Type(target_giname='Foo.Obj', ctype='FooObj*'), transfer='full'))
            k.is_constructor = True
            c.constructors.append(k)
    if o('type_struct'):
        c.glib_type_struct = ast.Type(target_giname='Foo.ObjClass')
        r = ast.Record('ObjClass', ctype='FooObjClass')
        r.is_gtype_struct_for = ast.Type(target_giname='Foo.Obj')
        ns.append(r)
    if o('members'):
        m = plain_func('m', 'foo_obj_m')
        m.is_method = True
        m.instance_parameter = ast.Parameter('self', ast.Type(target_giname='Foo.Obj', ctype='FooObj*'), direction='in',
                                             transfer='none')
        c.methods.append(m)
        c.static_methods.append(plain_func('s', 'foo_obj_s'))
        v = ast.VFunction('vf', ast.Return(VOID(), transfer='none'), [], False)
        v.instance_parameter = ast.Parameter('self', ast.Type(target_giname='Foo.Obj', ctype='FooObj*'), direction='in',
                                             transfer='none')
        c.virtual_methods.append(v)
        c.properties.append(ast.Property('p', INT(), True, True, False, False))
        c.fields.append(ast.Field('parent_instance', ast.Type(target_giname='GObject.Object', ctype='GObject'), True, False))
        c.signals.append(ast.Signal('sig', ast.Return(VOID(), transfer='none'), []))
    ns.append(generic(o, c))
    return ns


def b_interface(o):
    return b_class(o, iface=True)


def class_with(member_list, member):
    ns = new_ns()
    c = ast.Class('Obj', ast.Type(target_giname='GObject.Object'), ctype='FooObj', gtype_name='FooObj',
                  get_type='foo_obj_get_type', c_symbol_prefix='obj')
    getattr(c, member_list).append(member)
    ns.append(c)
    return ns


def b_property(o, shape='int'):
    t, _ = type_shape(shape)
    p = ast.Property('prop-a', t, not o('not_readable'), o('writable'), o('construct'), o('construct_only'),
                     'full' if o('transfer_full') else None)
    if o('setter'):
        p.setter = 'set_prop_a'
    if o('getter'):
        p.getter = 'get_prop_a'
    if o('default_value'):
        p.default_value = o.text('default_value', 'raw')
    generic(o, p)
    return class_with('properties', p)


def b_signal(o):
    s = ast.Signal('sig-a', ast.Return(VOID(), transfer='none'),
                   [ast.Parameter('object', ast.Type(target_giname='Foo.Obj'), transfer='none')] + some_params(o, 1),
                   when=('first' if o('when_first') else ('last' if o('when_last') else ('cleanup' if o('when_cleanup') else None))),
                   no_recurse=o('no_recurse'), detailed=o('detailed'), action=o('action'), no_hooks=o('no_hooks'))
    if o('emitter'):
        s.emitter = 'emit_sig_a'
    generic(o, s)
    return class_with('signals', s)


def b_vfunc(o):
    v = ast.VFunction('vf', ast.Return(VOID(), transfer='none'), some_params(o), False)
    if not o('no_instance'):
        v.instance_parameter = ast.Parameter('self', ast.Type(target_giname='Foo.Obj', ctype='FooObj*'), direction='in',
                                             transfer='none')
    if o('invoker'):
        v.invoker = 'vf'
    callable_common(o, v)
    generic(o, v)
    return class_with('virtual_methods', v)


def b_docsection(o):
    ns = new_ns()
    ns.append(ast.Record('Rec', ctype='FooRec'))
    d = ast.DocSection('section-a')
    generic(o, d, tags=False)      # _add_standalone_doc_sections delivers the description only
    ns.append(d)
    return ns


def b_namespace(o):
    ns = ast.Namespace('Foo', '1.0',
                       identifier_prefixes=['Foo', 'Fo'] if o('two_id_prefixes') else (['Fu'] if o('other_id_prefix') else None),
                       symbol_prefixes=['foo', 'fo_o'] if o('two_sym_prefixes') else None)
    if o('include1'):
        ns.includes.add(ast.Include('GObject', '2.0'))
    if o('include2'):
        ns.includes.add(ast.Include('Atk', '1.0'))
    if o('package'):
        ns.exported_packages = ['foo-1.0', 'bar-2.0', 'foo-1.0']
    if o('c_include'):
        ns.c_includes = ['foo/foo.h', 'bar.h', 'bar.h']
    if o('shlib1'):
        ns.shared_libraries = ['libfoo.so.1']
    if o('shlib2'):
        ns.shared_libraries = list(ns.shared_libraries) + ['libbar.so.0']
    if o('doc_format'):
        ns.doc_format = 'gi-docgen'
    if o('content'):
        ns.append(ast.Record('Rec', ctype='FooRec'))
        ns.append(ast.Alias('Zz', INT(), 'FooZz'))
        ns.append(plain_func('a', 'foo_a'))
    return ns


KINDS = {
    'alias': b_alias, 'constant': b_constant, 'enumeration': b_enum, 'bitfield': b_bitfield, 'member': b_member,
    'callback': b_callback, 'function': b_function, 'method': b_method, 'constructor': b_constructor,
    'static-function': b_static, 'function-inline': b_inline, 'method-inline': b_method_inline,
    'function-macro': b_macro, 'parameter': b_parameter, 'parameter-direction': b_parameter_direction,
    'instance-parameter': b_instance_parameter, 'return-value': b_return, 'record': b_record, 'union': b_union,
    'field': b_field, 'field-callback': b_field_callback, 'field-anonymous': b_field_anon, 'boxed': b_boxed,
    'class': b_class, 'interface': b_interface, 'property': b_property, 'signal': b_signal, 'virtual-method': b_vfunc,
    'docsection': b_docsection, 'namespace': b_namespace,
}
SHAPED = {'parameter': b_parameter, 'return-value': b_return, 'field': b_field, 'property': b_property}

# Attribute combinations that the scanner pipeline cannot produce (outside the quantifier "namespace
# models the scanner pipeline can produce"); each entry: (kind, predicate over the set of toggles, why)
EXCLUDED = [
    ('parameter', lambda on: 'caller_allocates' in on and not ({'out', 'inout'} & on),
     'caller-allocates is only set together with direction out/inout (maintransformer._apply_annotations_param_ret_common)'),
    ('parameter-direction', lambda on: 'caller_allocates' in on and not ({'out', 'inout'} & on), 'same'),
]


def discover(builder, **kw):
    """Names of all toggles and text slots of a builder.  Toggles may be queried only on some paths
    (elif chains, toggles nested under another toggle), so the builder is run with: nothing on, each known
    toggle alone, everything on, everything but one - until no new name appears."""
    names, slots = [], []

    def run_with(on):
        o = Opt(on=on)
        builder(o, **kw)
        new = False
        for n in o.names:
            if n not in names:
                names.append(n)
                new = True
        for sl in o.slots:
            if sl not in slots:
                slots.append(sl)
        return new

    changed = True
    while changed:
        changed = run_with(())
        for n in list(names):
            changed |= run_with((n,))
        changed |= run_with(tuple(names))
        for n in list(names):
            changed |= run_with(tuple(x for x in names if x != n))
    return names, slots


def group_of(name):
    return name.split('.', 1)[0] if '.' in name else 's'


def assignments(names, tier):
    """Enumerate toggle assignments.  Full 2^k when k <= limit, otherwise group-wise."""
    k = len(names)
    limit = 12 if tier == 'thorough' else 7
    if k <= limit:
        for bits in itertools.product((False, True), repeat=k):
            yield frozenset(n for n, b in zip(names, bits) if b)
        return
    groups = {}
    for n in names:
        groups.setdefault(group_of(n), []).append(n)
    # split groups larger than the limit into consecutive sub-groups
    for g in sorted(groups):
        lst = groups[g]
        if len(lst) > limit:
            del groups[g]
            for i in range(0, len(lst), limit):
                groups['%s%d' % (g, i // limit)] = lst[i:i + limit]
    seen = set()
    gkeys = sorted(groups)
    if tier == 'thorough':
        # every pair of groups fully crossed, the remaining group all-absent / all-present
        for ga, gb in itertools.combinations(gkeys, 2):
            rest = [n for g in gkeys if g not in (ga, gb) for n in groups[g]]
            sub = groups[ga] + groups[gb]
            if len(sub) > 14:
                continue
            for bits in itertools.product((False, True), repeat=len(sub)):
                base = frozenset(n for n, b in zip(sub, bits) if b)
                for bg in (frozenset(), frozenset(rest)):
                    a = base | bg
                    if a not in seen:
                        seen.add(a)
                        yield a
    for g in gkeys:
        sub = groups[g]
        rest = [n for n in names if n not in sub]
        for bits in itertools.product((False, True), repeat=len(sub)):
            base = frozenset(n for n, b in zip(sub, bits) if b)
            for bg in (frozenset(), frozenset(rest)):
                a = base | bg
                if a not in seen:
                    seen.add(a)
                    yield a


def ast_cases_of(kind, tier):
    """-> list of JSON-able cases {'mode':'ast','kind':..,'on':[..],'text':[slot,class]|None,'shape':..}"""
    cases = []
    builder = KINDS[kind]
    names, slots = discover(builder)
    for on in assignments(names, tier):
        if any(k == kind and pred(on) for k, pred, _ in EXCLUDED):
            continue
        cases.append({'mode': 'ast', 'kind': kind, 'on': sorted(on), 'text': None, 'shape': None})
    # text classes: every slot x every class, all attributes present / only that slot's toggle path
    for slot, slottype in slots:
        for cls in sorted(texts()[slottype]):
            for bg in ('all', 'min'):
                on = set(names) if bg == 'all' else set(n for n in names if n.endswith('.' + slot) or n == slot or
                                                        n in ('h.doc', 'string', 'default_value', 'param1', 'param1_doc'))
                if any(k == kind and pred(on) for k, pred, _ in EXCLUDED):
                    on.discard('caller_allocates')
                cases.append({'mode': 'ast', 'kind': kind, 'on': sorted(on), 'text': [slot, cls], 'shape': None})
    # type shapes in every typed slot, with the slot's own attributes all-absent and all-present
    if kind in SHAPED:
        for shape in TYPE_SHAPES:
            if shape in ('carray_len', 'carray_zero_len', 'ptrarray_len') and kind == 'property':
                continue        # a property has no sibling to name as length
            if shape == 'varargs' and kind != 'parameter':
                continue
            for on in (frozenset(), frozenset(n for n in names if n not in ('caller_allocates', 'no_transfer'))):
                cases.append({'mode': 'ast', 'kind': kind, 'on': sorted(on), 'text': None, 'shape': shape})
    return cases


def ast_cases(tier):
    out = []
    for kind in KINDS:
        out += ast_cases_of(kind, tier)
    return out


def build_ast_case(case):
    builder = KINDS[case['kind']]
    o = Opt(on=case['on'], text=tuple(case['text']) if case['text'] else None)
    if case.get('shape'):
        return builder(o, shape=case['shape'])
    return builder(o)


def check_ast_case(case):
    """-> (error or None, xml or None)"""
    ns = build_ast_case(case)
    try:
        xml = rt.write_ns(ns, ['/src'])
    except Exception as e:   # noqa
        return 'GIRWriter raised %s: %s' % (type(e).__name__, e), None
    r = rt.roundtrip(xml)
    if r:
        return r, xml
    try:
        r = rt.model_agree(ns, rt.read_ns(xml), ['/src'])
    except Exception as e:   # noqa
        return 'reading back raised %s: %s' % (type(e).__name__, e), xml
    if r:
        return 'model read back differs from the model written: ' + r, xml
    return None, xml


def _work_ast(task):
    tier, kind, i, n = task
    chunk = ast_cases_of(kind, tier)[i::n]
    part = Part()
    best = {}
    part.add(ast_documents=len(chunk))
    for case in chunk:
        err, xml = check_ast_case(case)
        part.add(evaluations=3, states=1, transitions=len(case['on']) + 1, traces_validated_against_impl=1)
        part.outcome((case['kind'], len(case['on']), len(xml) // 64 if xml else -1))
        if case['on'] or case['text'] or case['shape']:
            part.nontrivial(repr((case['kind'], case['on'], case['text'], case['shape'])))
        if err:
            key = 'ast:%s:%s' % (case['kind'], _err_class(err))
            if (case.get('shape') or '').startswith('map_') and 'array' in case['shape']:
                key = 'ast:map-of-array'        # GIRParser reads only <type> children of a GLib.HashTable
            if case['kind'] == 'field-anonymous' and 'length_after' in case['on']:
                key = 'ast:anon-member-and-array-length'     # one root cause, two symptoms (crash / length lost)
            size = (len(case['on']), repr(case))
            if key not in best or size < best[key][0]:
                best[key] = (size, err, case)
        elif len(part.samples) < 1 and len(case['on']) > 3:
            part.sample({'mode': 'ast', 'kind': case['kind'], 'on': case['on'], 'text': case['text'],
                         'gir': xml.decode('utf-8')[xml.index(b'<namespace'):][:1500]})
    for key, (size, err, case) in sorted(best.items()):
        part.violation(key, '%s [%s on=%s text=%s shape=%s]' % (err, case['kind'], case['on'], case['text'], case['shape']), case)
    return part.result()


def _err_class(err):
    """stable class of an error text: which check failed and the model path, without indices and values"""
    import re
    e = re.sub(r'\[\d+\]', '[]', err)
    m = re.match(r'(model read back differs from the (?:model written|scanner.s model): [^:]*)', e)
    if m:
        return 'model ' + m.group(1).rsplit(': ', 1)[1]
    m = re.match(r'(models of first and second read differ: [^:]*)', e)
    if m:
        return 'reread ' + m.group(1).rsplit(': ', 1)[1]
    if 'raised' in e:
        return re.sub(r'raised (\w+): .*', r'raised \1', e, flags=re.S)[:100]
    m = re.search(r"line \d+: b'\s*(<[/\w:-]+)?", e)
    if m:
        return e.split(':')[0] + ' at ' + (m.group(1) or 'text')
    return e[:100]


# ------------------------------------------------------------- (ii) scanned --
SINK_DECLS = None


def sink_case():
    """A documented namespace touching every node kind through the real pipeline."""
    T = fake
    decls = [
        T.Typedef('FooThing', 'struct _FooThing'), T.Typedef('FooThingClass', 'struct _FooThingClass'),
        T.Typedef('FooIface', 'struct _FooIface'), T.Typedef('FooIfaceInterface', 'struct _FooIfaceInterface'),
        T.Struct('_FooThing', [T.Field('parent_instance', 'GObject'), T.Field('flags', 'guint', bits=3),
                               T.Field('priv', 'gpointer', private=True)]),
        T.Struct('_FooThingClass', [T.Field('parent_class', 'GObjectClass'),
                                    T.FieldCb('vf', 'int', [('FooThing*', 'self'), ('const char*', 's')]),
                                    T.FieldCb('_reserved', 'void', [])]),
        T.Struct('_FooIfaceInterface', [T.Field('g_iface', 'GTypeInterface'),
                                        T.FieldCb('ivf', 'void', [('FooIface*', 'self')])]),
        T.Func('foo_thing_get_type', 'GType', []), T.Func('foo_iface_get_type', 'GType', []),
        T.Func('foo_thing_new', 'FooThing*', []),
        T.Func('foo_thing_vf', 'int', [('FooThing*', 'self'), ('const char*', 's')]),
        T.Func('foo_thing_set_count', 'void', [('FooThing*', 'self'), ('int', 'count')]),
        T.Func('foo_thing_get_count', 'int', [('FooThing*', 'self')]),
        T.Func('foo_thing_static', 'void', [('int', 'a')]),
        T.Func('foo_thing_do_async', 'void', [('FooThing*', 'self'), ('GCancellable*', 'c'), ('GAsyncReadyCallback', 'cb'),
                                              ('gpointer', 'user_data')]),
        T.Func('foo_thing_do_finish', 'gboolean', [('FooThing*', 'self'), ('GAsyncResult*', 'res'), ('GError**', 'error')]),
        T.Func('foo_thing_do', 'gboolean', [('FooThing*', 'self'), ('GError**', 'error')]),
        T.Func('foo_thing_watch', 'void', [('FooThing*', 'self'), ('FooCb', 'cb'), ('gpointer', 'user_data')]),
        T.Func('foo_thing_watch_full', 'void', [('FooThing*', 'self'), ('FooCb', 'cb'), ('gpointer', 'user_data'),
                                                ('GDestroyNotify', 'd')]),
        T.Callback('FooCb', 'gboolean', [('FooThing*', 't'), ('gpointer', 'user_data')]),
        T.Typedef('FooBoxed', 'struct _FooBoxed'), T.Struct('_FooBoxed', [T.Field('a', 'int'), T.Field('arr', 'int', array=4),
                                                                           T.Field('n', 'guint'), T.Field('data', 'guint8*'),
                                                                           T.FieldAnon('u', [T.Field('x', 'int'), T.Field('y', 'double')], union=True)]),
        T.Func('foo_boxed_get_type', 'GType', []), T.Func('foo_boxed_copy', 'FooBoxed*', [('FooBoxed*', 'b')]),
        T.Func('foo_boxed_free', 'void', [('FooBoxed*', 'b')]),
        T.Typedef('FooU', 'union _FooU'), T.Struct('_FooU', [T.Field('i', 'int'), T.Field('p', 'gpointer')], union=True),
        T.Enum('FooE', [('FOO_E_A', 0), ('FOO_E_B', 1)]), T.Enum('FooFlags', [('FOO_FLAGS_X', 1), ('FOO_FLAGS_Y', 2)], bitfield=True),
        T.Enum('FooErr', [('FOO_ERR_FAILED', 0)]), T.Func('foo_err_quark', 'GQuark', []),
        T.Func('foo_e_get_type', 'GType', []),
        T.Const('FOO_INT', 5), T.Const('FOO_STR', 'a <b> & "c"\n'), T.Const('FOO_CR', 'a\rb\r\nc\td'), T.Const('FOO_D', 1.5), T.Const('FOO_B', True),
        T.Macro('FOO_MACRO', ['a', 'b']),
        T.Typedef('FooAl', 'int'), T.Typedef('FooOpaque', 'struct _FooOpaque'),
        T.Func('foo_arr', 'int*', [('int*', 'in_arr'), ('int', 'n'), ('int*', 'n_out'), ('char**', 'strv'), ('GList*', 'l'),
                                   ('GHashTable*', 'h'), ('GPtrArray*', 'pa')]),
        T.Func('foo_va', 'void', [('int', 'a')], varargs=True),
        T.Func('foo_inl', 'int', [('int', 'a')], inline=True),
        T.Func('foo_old', 'void', []),
    ]
    xml_special = 'a <b> & "q" \'s\' ]]> &amp; caf\u00e9 ' + LONG
    comments = [
        scanrun.block('SECTION:foo-section', desc='Section doc %s' % xml_special),
        scanrun.block('FooThing', desc='A thing.\n *\n *   indented %s' % xml_special, ident_ann='(attributes org.x=y k=<&>)',
                      tags=[('Since', '1.2: since doc'), ('Stability', 'Unstable: stab doc'), ('Deprecated', '2.0: Use <other> & co')]),
        scanrun.block('FooThing:count', desc='prop doc', tags=[('Since', '1.4')]),
        scanrun.block('FooThing::changed', params=[('thing', '', 'the thing'), ('n', '', 'count')], desc='signal doc'),
        scanrun.block('foo_thing_vf', params=[('self', '', 'a thing'), ('s', '(nullable)', 'string <&>')],
                      ret=('', 'an int'), desc='vf doc'),
        scanrun.block('foo_thing_watch_full', ident_ann='(rename-to foo_thing_watch)', params=[('cb', '(scope notified)', 'cb')]),
        scanrun.block('foo_arr', params=[('in_arr', '(array length=n)', 'in'), ('n_out', '(out)', 'len'),
                                         ('strv', '(array zero-terminated=1) (transfer full)', 'strv'),
                                         ('l', '(element-type utf8) (transfer container)', 'l'),
                                         ('h', '(element-type utf8 Foo.Boxed)', 'h'), ('pa', '(element-type Foo.Thing)', 'pa')],
                      ret=('(array length=n_out) (transfer full)', 'ret doc')),
        scanrun.block('foo_old', tags=[('Deprecated', 'just text, no version')]),
        scanrun.block('FooBoxed', params=[('data', '(array length=n)', 'data'), ('a', '', 'field doc')], ident_ann='(copy-func foo_boxed_copy) (free-func foo_boxed_free)'),
        scanrun.block('FooE', params=[('FOO_E_A', '', 'member doc')], desc='enum doc'),
        scanrun.block('FOO_INT', desc='constant doc', tags=[('Since', '0.1')]),
        scanrun.block('FOO_MACRO', params=[('a', '', 'macro param doc')], desc='macro doc'),
        scanrun.block('FooAl', desc='alias doc'),
        scanrun.block('FooCb', params=[('user_data', '(closure)', 'data')], desc='cb doc'),
    ]
    dump = ('<?xml version="1.0"?><dump>'
            '<class name="FooThing" get-type="foo_thing_get_type" parents="GObject" abstract="1">'
            '<implements name="FooIface"/>'
            '<property name="count" type="gint" flags="227" default-value="0"/>'
            '<property name="name" type="gchararray" flags="11" default-value="a &lt;b&gt; &amp; c"/>'
            '<property name="sep" type="gchararray" flags="3" default-value="x&#13;&#10;y&#9;z"/>'
            '<signal name="changed" return="gboolean" when="last" detailed="1" action="1" no-hooks="1" no-recurse="1">'
            '<param type="FooThing"/><param type="gint"/></signal>'
            '<signal name="first" return="void" when="first"><param type="FooThing"/></signal>'
            '</class>'
            '<interface name="FooIface" get-type="foo_iface_get_type"><prerequisite name="GObject"/>'
            '<property name="iprop" type="GStrv" flags="1"/></interface>'
            '<boxed name="FooBoxed" get-type="foo_boxed_get_type"/>'
            '<enum name="FooE" get-type="foo_e_get_type"><member name="FOO_E_A" nick="a" value="0"/>'
            '<member name="FOO_E_B" nick="b" value="1"/></enum>'
            '<error-quark function="foo_err_quark" domain="foo-err-quark"/>'
            '</dump>')
    return decls, comments, dump


PREFIX_DEP_GIR = """<?xml version="1.0"?>
<!-- Miniature hand-written dependency GIR for the verification harness (input, trusted base): a namespace
     whose name has the scanned namespace's name "Foo" as a proper prefix. Generated by vt/checks/c07.py -->
<repository version="1.2" xmlns="http://www.gtk.org/introspection/core/1.0" xmlns:c="http://www.gtk.org/introspection/c/1.0" xmlns:glib="http://www.gtk.org/introspection/glib/1.0">
  <include name="GObject" version="2.0"/>
  <namespace name="FooDep" version="1.0" shared-library="libfoodep.so.0" c:identifier-prefixes="FooDep" c:symbol-prefixes="foo_dep">
    <callback name="Cb" c:type="FooDepCb">
      <return-value transfer-ownership="none"><type name="none" c:type="void"/></return-value>
      <parameters>
        <parameter name="user_data" transfer-ownership="none" nullable="1" allow-none="1" closure="0"><type name="gpointer" c:type="gpointer"/></parameter>
      </parameters>
    </callback>
    <enumeration name="E" c:type="FooDepE"><member name="a" value="0" c:identifier="FOO_DEP_E_A"/></enumeration>
    <interface name="Iface" c:symbol-prefix="iface" c:type="FooDepIface" glib:type-name="FooDepIface" glib:get-type="foo_dep_iface_get_type"/>
    <class name="Obj" c:symbol-prefix="obj" c:type="FooDepObj" parent="GObject.Object" glib:type-name="FooDepObj" glib:get-type="foo_dep_obj_get_type" glib:type-struct="ObjClass">
      <field name="parent_instance"><type name="GObject.Object" c:type="GObject"/></field>
    </class>
    <record name="ObjClass" c:type="FooDepObjClass" glib:is-gtype-struct-for="Obj">
      <field name="parent_class"><type name="GObject.ObjectClass" c:type="GObjectClass"/></field>
    </record>
    <record name="Thing" c:type="FooDepThing" glib:type-name="FooDepThing" glib:get-type="foo_dep_thing_get_type" c:symbol-prefix="thing">
      <field name="x" writable="1"><type name="gint" c:type="int"/></field>
    </record>
  </namespace>
</repository>
"""


def prefix_dep_dir():
    """Directory holding FooDep-1.0.gir (written once under .build/, atomically)."""
    from vt.core import ROOT
    d = os.path.join(ROOT, '.build', 'c07deps')
    p = os.path.join(d, 'FooDep-1.0.gir')
    data = PREFIX_DEP_GIR.encode('utf-8')
    try:
        with open(p, 'rb') as f:
            if f.read() == data:
                return d
    except OSError:
        pass
    os.makedirs(d, exist_ok=True)
    tmp = '%s.%d.tmp' % (p, os.getpid())
    with open(tmp, 'wb') as f:
        f.write(data)
    os.replace(tmp, p)
    return d


def prefix_ns_cases():
    """Scanned namespace Foo that includes FooDep (a namespace whose name starts with "Foo") and refers to
    FooDep types in every typed slot: the reference must stay qualified through write and re-read."""
    g = c05gen
    cases = []
    class_head = g.CLASS_DECLS_HEAD + [g.GET_TYPE]
    slots = {
        'parameter': ([g.fn('foo_p', 'void', [('FooDepThing*', 't')])], [], None),
        'return': ([g.fn('foo_r', 'const FooDepThing*', [])], [], None),
        'out-parameter': ([g.fn('foo_o', 'void', [('FooDepThing**', 't')])], [g.blk('foo_o', params=[('t', '(out)', 't')])], None),
        'field': ([g.td('FooS', 'struct _FooS'), g.st('_FooS', [['f', 'f', 'FooDepThing*'], ['f', 'e', 'FooDepE'], ['f', 'cb', 'FooDepCb']])], [], None),
        'field-callback': ([g.td('FooS', 'struct _FooS'), g.st('_FooS', [['fcb', 'fcb', 'FooDepThing*', [['FooDepObj*', 'o']], False]])], [], None),
        'alias': ([g.td('FooAl', 'FooDepThing')], [], None),
        'callback': ([g.cb('FooCb', 'void', [('FooDepObj*', 'o'), ('FooDepE', 'e')])], [], None),
        'list-element': ([g.fn('foo_l', 'void', [('GList*', 'l')])], [g.blk('foo_l', params=[('l', '(element-type FooDep.Thing)', 'l')])], None),
        'array-element': ([g.fn('foo_a', 'void', [('FooDepThing**', 'a')])], [g.blk('foo_a', params=[('a', '(array zero-terminated=1)', 'a')])], None),
        'map-element': ([g.fn('foo_h', 'void', [('GHashTable*', 'h')])], [g.blk('foo_h', params=[('h', '(element-type utf8 FooDep.Obj)', 'h')])], None),
        'type-annotation': ([g.fn('foo_t', 'void', [('gpointer', 'p')])], [g.blk('foo_t', params=[('p', '(type FooDep.Obj)', 'p')])], None),
        'method-of-own-record': ([g.td('FooObj', 'struct _FooObj'), g.fn('foo_obj_m', 'void', [('FooObj*', 'self'), ('FooDepThing*', 't')])], [], None),
        'parent': (class_head + [g.st('_FooThingClass', [['f', 'parent_class', 'FooDepObjClass']])], [],
                   '<?xml version="1.0"?><dump><class name="FooThing" get-type="foo_thing_get_type" parents="FooDepObj,GObject"/></dump>'),
        'implements': (class_head + [g.st('_FooThingClass', [['f', 'parent_class', 'GObjectClass']])], [],
                       '<?xml version="1.0"?><dump><class name="FooThing" get-type="foo_thing_get_type" parents="GObject">'
                       '<implements name="FooDepIface"/></class></dump>'),
        'property-signal': (class_head + [g.st('_FooThingClass', [['f', 'parent_class', 'GObjectClass']])], [],
                            '<?xml version="1.0"?><dump><class name="FooThing" get-type="foo_thing_get_type" parents="GObject">'
                            '<property name="obj" type="FooDepObj" flags="3"/><property name="thing" type="FooDepThing" flags="1"/>'
                            '<signal name="sig" return="FooDepObj"><param type="FooThing"/><param type="FooDepThing"/></signal>'
                            '</class></dump>'),
        'prerequisite': ([g.td('FooIf', 'struct _FooIf'), g.td('FooIfInterface', 'struct _FooIfInterface'),
                          g.st('_FooIfInterface', [['f', 'g_iface', 'GTypeInterface']]), g.fn('foo_if_get_type', 'GType', [])], [],
                         '<?xml version="1.0"?><dump><interface name="FooIf" get-type="foo_if_get_type">'
                         '<prerequisite name="FooDepObj"/><prerequisite name="FooDepIface"/></interface></dump>'),
    }
    for name in sorted(slots):
        d, com, dump = slots[name]
        cases.append({'part': 'P', 'decls': d + [g.fn('foo_other', 'void', [])], 'comments': com, 'dump': dump,
                      'includes': ['Gio-2.0', 'FooDep-1.0'], 'prefixdep': True, 'expect_ref': 'FooDep.',
                      'note': 'namespace Foo including FooDep: FooDep type as %s' % name})
    return cases


def extra_scan_cases():
    """Small scanned namespaces for node kinds the C05 generator does not produce: a boxed GType
    without a visible struct (glib:boxed) with constructor/method/static function, registered
    enum/flags, an error domain, documented aliases/constants/members/fields."""
    g = c05gen
    cases = []
    boxed_dump = '<?xml version="1.0"?><dump><boxed name="FooBx" get-type="foo_bx_get_type"/></dump>'
    base = [g.fn('foo_bx_get_type', 'GType', [])]
    members = [g.fn('foo_bx_new', 'FooBx*', []), g.fn('foo_bx_m', 'void', [('FooBx*', 'b')]),
               g.fn('foo_bx_s', 'void', [('int', 'a')])]
    for bits in range(8):
        d = base + [m for i, m in enumerate(members) if bits >> i & 1]
        cases.append({'part': 'X', 'decls': d, 'comments': [], 'dump': boxed_dump,
                      'note': 'glib:boxed with constructor/method/static function subset %d' % bits})
    # numeric attributes with value 0 / 1: zero-length array member, (array fixed-size=0), length/closure/destroy index 0
    cases.append({'part': 'X', 'decls': [g.td('FooZ', 'struct _FooZ'),
                                         g.st('_FooZ', [['f', 'n', 'int'], ['fa', 'data', 'char', 0], ['fa', 'one', 'char', 1]])],
                  'comments': [], 'dump': None, 'note': 'zero-length and one-element array members'})
    for n in (0, 1):
        cases.append({'part': 'X', 'decls': [g.fn('foo_z', 'int*', [('int*', 'a')])],
                      'comments': [g.blk('foo_z', params=[('a', '(array fixed-size=%d)' % n, 'a')], ret=('(array fixed-size=%d)' % n, 'r'))],
                      'dump': None, 'note': '(array fixed-size=%d) on parameter and return value' % n})
    cases.append({'part': 'X', 'decls': [g.fn('foo_i', 'int*', [('int', 'n'), ('int*', 'a'), ('gpointer', 'data'), ('GDestroyNotify', 'd'),
                                                               ('FooXCb', 'cb')]),
                                         g.cb('FooXCb', 'void', [('gpointer', 'data')])],
                  'comments': [g.blk('foo_i', params=[('a', '(array length=n)', 'a'), ('cb', '(closure data) (destroy d)', 'cb')],
                                     ret=('(array length=n)', 'r')),
                               g.blk('FooXCb', params=[('data', '(closure)', 'd')])],
                  'dump': None, 'note': 'length index 0 on parameter and return, closure=0 in a callback'})
    # anonymous struct/union member at every position relative to an (array length=n) field and its length field
    for union in (True, False):
        anon = ['fu', 'u', [['x', 'int'], ['y', 'double']], union]
        nf, df = ['f', 'n', 'guint'], ['f', 'data', 'guint8*']
        for pos, fields in (('first', [anon, nf, df]), ('between', [nf, anon, df]), ('last', [nf, df, anon]),
                            ('between-reversed', [df, anon, nf]), ('first-reversed', [anon, df, nf])):
            cases.append({'part': 'X', 'decls': [g.td('FooB', 'struct _FooB'), g.st('_FooB', fields)],
                          'comments': [g.blk('FooB', params=[('data', '(array length=n)', 'data')])], 'dump': None,
                          'keytag': 'anon-member-and-array-length',
                          'note': 'record with anonymous %s member %s, field data (array length=n)' % (
                              'union' if union else 'struct', pos)})
    # containers whose element is itself an array / container, as parameter and return value
    for atom, ann in (('GList*', '(element-type GStrv)'), ('GSList*', '(element-type GByteArray)'),
                      ('GList*', '(element-type GLib.PtrArray)'), ('GList*', '(element-type GLib.PtrArray(utf8))'),
                      ('GPtrArray*', '(element-type GStrv)'), ('GArray*', '(element-type GByteArray)'),
                      ('GList*', '(element-type GLib.List(utf8))'), ('GList*', '(element-type GLib.HashTable(utf8,utf8))'),
                      ('GHashTable*', '(element-type utf8 GLib.List(utf8))'),
                      ('GHashTable*', '(element-type utf8 GStrv)'), ('GHashTable*', '(element-type GStrv utf8)'),
                      ('GHashTable*', '(element-type utf8 GLib.PtrArray(utf8))'), ('GHashTable*', '(element-type utf8 GByteArray)')):
        case = {'part': 'X', 'decls': [g.fn('foo_n', atom, [(atom, 'p')])],
                'comments': [g.blk('foo_n', params=[('p', ann + ' (transfer none)', 'p')], ret=(ann + ' (transfer full)', 'r'))],
                'dump': None, 'note': 'nested container %s %s' % (atom, ann)}
        if atom == 'GHashTable*' and 'GLib.List' not in ann:
            case['keytag'] = 'map-of-array'
        cases.append(case)
    # direction x nullable x optional through the real annotation path
    for d_ann in ('', '(out)', '(inout)', '(out caller-allocates)', '(out callee-allocates)'):
        for n_ann in ('', '(nullable)', '(optional)', '(nullable) (optional)', '(allow-none)', '(not nullable)'):
            ann = (d_ann + ' ' + n_ann).strip()
            if not ann:
                continue
            cases.append({'part': 'X', 'decls': [g.fn('foo_d', 'void', [('char**', 'p'), ('FooRecD*', 'q')]), g.td('FooRecD', 'struct _FooRecD'),
                                                 g.st('_FooRecD', [['f', 'x', 'int']])],
                          'comments': [g.blk('foo_d', params=[('p', ann, 'p'), ('q', ann, 'q')])], 'dump': None,
                          'note': 'parameters annotated %s' % ann})
    for tag in ('Since: 1.2', 'Deprecated: 1.4: gone', 'Stability: Unstable', 'Since: 1.2: why'):
        for what, decl in (('FooAl', g.td('FooAl', 'int')), ('foo_f', g.fn('foo_f', 'void', [])),
                           ('FooCb', g.cb('FooCb', 'void', [])), ('FooRec', g.td('FooRec', 'struct _FooRec'))):
            cases.append({'part': 'X', 'decls': [decl, g.fn('foo_other', 'void', [])],
                          'comments': ['/**\n * %s:\n *\n * doc\n *\n * %s\n */' % (what, tag)], 'dump': None,
                          'note': '%s documented with %s' % (what, tag)})
    return cases


def check_scanned(decls, comments, dump, includes, prefixdep=False, expect_ref=None):
    """-> (status, err, xml)"""
    fake.number(decls)
    include_paths = [scanrun.DEPS, prefix_dep_dir()] if prefixdep else None
    if isinstance(prefixdep, str):          # a directory under deps/ (C05 part E: deps/c15/FooDep-1.0.gir)
        include_paths = [os.path.join(scanrun.DEPS, prefixdep), scanrun.DEPS]
    r = scanrun.scan(decls, comments, includes=includes, dump=dump, include_paths=include_paths,
                     shared_libraries=['libfoo.so.0'], c_includes=['foo.h'], packages=['foo-1.0'])
    if r.error is not None:
        return 'noscan', r.error, None
    e = rt.roundtrip(r.xml)
    if e:
        return 'ok', e, r.xml
    try:
        e = rt.model_agree(r.namespace, rt.read_ns(r.xml), ['/src'])
    except Exception as ex:   # noqa
        return 'ok', 'reading back raised %s: %s' % (type(ex).__name__, ex), r.xml
    if e:
        return 'ok', 'model read back differs from the scanner\'s model: ' + e, r.xml
    if expect_ref and expect_ref.encode() not in r.xml:
        # prefix-namespace family: the model agreed, yet the file holds no qualified reference at all
        return 'ok', 'the scanned GIR holds no reference starting with %r although the input uses one' % expect_ref, r.xml
    return 'ok', None, r.xml


def _includes_of(case):
    if case.get('includes'):
        return case['includes']
    return c05gen.INCLUDES + (['FooDep-1.0'] if case.get('dep') else [])


def _work_scanned(chunk):
    part = Part()
    best = {}
    for case in chunk:
        decls = [c05gen.build(s) for s in case['decls']]
        comments = [scanrun.comment(t, line=100 + 40 * i) for i, t in enumerate(case['comments'])]
        status, err, xml = check_scanned(decls, comments, case.get('dump'), _includes_of(case),
                                         case.get('dep') or case.get('prefixdep', False), case.get('expect_ref'))
        part.add(evaluations=4, states=1, transitions=len(case['decls']), traces_validated_against_impl=1)
        if status == 'noscan':
            part.add(rejected=1)
            continue
        part.outcome(('scan', case['part'], len(xml) // 512))
        part.nontrivial('scan:' + case['note'])
        if err:
            key = 'scan:%s' % _err_class(err)
            if case.get('keytag'):
                key = 'scan:%s' % case['keytag']
            size = (len(case['decls']), case['note'])
            if key not in best or size < best[key][0]:
                best[key] = (size, err, case)
    for key, (size, err, case) in sorted(best.items()):
        part.violation(key, '%s [%s]' % (err, case['note']), dict(case, mode='scan'))
    return part.result()


# --------------------------------------------------------------- (iii) corpus --
def run_corpus(ctx):
    exp = sorted(glob.glob(os.path.join(REPO, 'tests', 'scanner', '*-expected.gir')))
    hand = sorted(glob.glob(os.path.join(REPO, 'gir', '*.gir')))
    if len(exp) < 10 or len(hand) < 10:
        raise HarnessBroken('corpus incomplete: %d expected, %d hand-written GIR files' % (len(exp), len(hand)))
    for p, identical in [(p, True) for p in exp] + [(p, False) for p in hand]:
        rel = os.path.relpath(p, REPO)
        with open(p, 'rb') as f:
            data = f.read()
        err = rt.roundtrip(data, identical=identical)
        ctx.add(evaluations=4, states=1, traces_validated_against_impl=1, corpus_files=1)
        ctx.outcome(('corpus', rel, len(data) // 1024))
        ctx.nontrivial('corpus:' + rel)
        if err:
            ctx.violation('corpus:%s' % rel, '%s: %s' % (rel, err), {'mode': 'corpus', 'file': rel, 'identical': identical})


def run(ctx):
    tier = ctx.tier
    t = texts()
    for st, need in (('doc', 6), ('pdoc', 6), ('tdoc', 5), ('attr', 5), ('version', 3), ('stability', 3)):
        if len(t[st]) < need:
            raise HarnessBroken('comment parser delivered only %d values for slot type %s' % (len(t[st]), st))
    kinds = sorted(KINDS)
    nsplit = 24 if tier == 'thorough' else 4
    tasks = [(tier, k, i, nsplit) for k in KINDS for i in range(nsplit)]
    ctx.set(rule='(i) one giscanner.ast node kind per document x every subset of its optional attributes x every text '
                 'class per text slot (values as delivered by the real comment parser) x every type shape per typed slot: '
                 'GIRWriter -> bytes; bytes must be a fixed point of GIRParser->GIRWriter twice and the model read back '
                 'must equal the model written on the API-relevant projection (vt/scan/c07_roundtrip.ast_view); '
                 '(ii) the same for every namespace scanned from the C05 generator (parts A-D) and a kitchen-sink '
                 'namespace, comparing the scanner\'s own namespace with the one read back; (iii) every *.gir of the '
                 'repository (expected files byte-identical; hand-written files: one write reaches a fixed point that '
                 'carries the same model).  evaluations = reader/writer executions',
            bounds={'node_kinds': len(kinds), 'type_shapes': len(TYPE_SHAPES),
                    'text_classes': sorted(TEXT_CLASSES), 'max_full_toggle_product': 12 if tier == 'thorough' else 7})
    run_corpus(ctx)
    for r in pmap(_work_ast, rotate(tasks, ctx.seed)):
        ctx.merge(r)
    # (ii)
    decls, comments, dump = sink_case()
    status, err, xml = check_scanned(decls, [scanrun.comment(t_, line=100 + 40 * i) for i, t_ in enumerate(comments)],
                                     dump, ['Gio-2.0'])
    ctx.add(evaluations=4, states=1, traces_validated_against_impl=1)
    if status != 'ok':
        raise HarnessBroken('kitchen-sink namespace does not scan: %s' % err)
    tags = set(e.tag for e in __import__('vt.scan.girread', fromlist=['x']).parse(xml).iter())
    need = {'alias', 'constant', 'enumeration', 'bitfield', 'member', 'callback', 'function', 'method', 'constructor',
            'virtual-method', 'function-macro', 'function-inline', 'record', 'union', 'field', 'class', 'interface',
            'property', 'glib:signal', 'docsection', 'doc', 'doc-version', 'doc-deprecated', 'doc-stability', 'attribute',
            'source-position', 'array', 'varargs', 'implements', 'prerequisite', 'instance-parameter', 'include',
            'package', 'c:include'}
    if not need <= tags:
        raise HarnessBroken('kitchen-sink namespace lacks element kinds: %s' % sorted(need - tags))
    ctx.nontrivial('scan:kitchen-sink')
    ctx.sample({'mode': 'scan', 'note': 'kitchen sink', 'element_kinds': sorted(tags)})
    if err:
        ctx.violation('scan:sink:%s' % _err_class(err), 'kitchen-sink namespace: %s' % err, {'mode': 'sink'})
    prefix_dep_dir()
    scases = extra_scan_cases() + prefix_ns_cases()
    for name in 'ABCDE':
        scases += c05gen.PARTS[name](tier)
    # parts B and C of the C05 generator differ mostly in declaration order: every 4th description of
    # part C (and of part B in the quick tier) is taken, in enumeration order
    sub = 'BC' if tier != 'thorough' else 'C'
    scases = [c for i, c in enumerate(scases) if c['part'] not in sub or i % 4 == 0]      # parts X, P and E are always complete
    ctx.cov['bounds']['scanned_namespaces'] = len(scases) + 1
    for r in pmap(_work_scanned, rotate(chunked(scases, 64), ctx.seed)):
        ctx.merge(r)
    c05gen._stable_first(ctx)
    ctx.assumptions += [
        'text values are exactly those the real GtkDocCommentBlockParser delivers for each text class in each slot '
        '(leading/trailing whitespace and comment decoration are removed by the parser before the writer sees them)',
        'versions are [0-9.]* and stability one of Stable/Unstable/Private/Internal (what the tag grammar delivers)',
        'attribute combinations the pipeline cannot produce are excluded: ' + '; '.join(w for _, _, w in EXCLUDED),
        'model agreement uses the explicit projection ast_view; scanner-internal fields are not compared',
        'symbol trees instead of C text; miniature dependency GIRs',
    ]
    if len(ctx._outcomes) < 50 or ctx.cov['traces_validated_against_impl'] < 2000:
        raise HarnessBroken('vacuous exploration')


def replay(ctx, case):
    mode = case.get('mode')
    if mode == 'corpus':
        p = os.path.join(REPO, case['file'])
        with open(p, 'rb') as f:
            err = rt.roundtrip(f.read(), identical=case['identical'])
        print(p, '->', err or 'ok')
        return err is None
    if mode == 'ast':
        ns = build_ast_case(case)
        print('kind:', case['kind'], 'attributes present:', case['on'], 'text:', case['text'], 'shape:', case['shape'])
        err, xml = check_ast_case(case)
        if xml:
            print(xml.decode('utf-8'))
            try:
                print('--- after one GIRParser/GIRWriter pass:')
                print(rt.write_ns(rt.read_ns(xml)).decode('utf-8'))
            except Exception as e:   # noqa
                print('raised', type(e).__name__, e)
        print('result:', err or 'ok')
        del ns
        return err is None
    if mode == 'sink':
        decls, comments, dump = sink_case()
        status, err, xml = check_scanned(decls, [scanrun.comment(t_, line=100 + 40 * i) for i, t_ in enumerate(comments)],
                                         dump, ['Gio-2.0'])
        print('result:', status, err or 'ok')
        return status == 'ok' and err is None
    decls = [c05gen.build(s) for s in case['decls']]
    comments = [scanrun.comment(t, line=100 + 40 * i) for i, t in enumerate(case['comments'])]
    print(c05gen.case_text(case))
    for t in case['comments']:
        print(t)
    if case.get('dump'):
        print('runtime dump:', case['dump'])
    status, err, xml = check_scanned(decls, comments, case.get('dump'), _includes_of(case),
                                     case.get('dep') or case.get('prefixdep', False), case.get('expect_ref'))
    if err and xml:
        text = xml.decode('utf-8')
        print(text[text.index('<namespace'):])
    print('result:', status, err or 'ok')
    return err is None
