"""C11 - comment parsing never aborts; diagnostics point at the source; every diagnostic counted.

Small-scope exhaustive exploration (E1) of malformed comment text.  Every input is handed to
the real `GtkDocCommentBlockParser.parse_comment_blocks([good1, INPUT, good2])` under a
recording `MessageLogger`, once with warnings displayed and once with display suppressed.

Families
  (i)   ALL strings over the alphabet ( ) : blank a = < @ up to length N, as the annotation
        field of the identifier line, of a parameter line and of a Returns: line of a fixed
        well-formed skeleton - written on the part's own line ("inline") and on a continuation
        line of its own ("cont")
  (ii)  the single-edit neighbourhood of well-formed blocks rendered by C10's generator:
        insert each of 20 characters (incl. 8 non-line-ending separators) at every position, delete every character, duplicate /
        delete / swap every line, truncate at every position
  (iv)  several blocks per run with one identifier documented twice (first / later, same / other file) and
        faulty blocks around it, logger working directory in {source dir, parent, unrelated dir, harness root}:
        every printed location, read relative to the working directory, names the source file and line
  (iii) degenerate blocks (empty, one-line, tokens only, missing identifier, deprecated tag forms,
        duplicate parameters / tags, CR/LF mixes, non-ASCII text, code around the tokens)

Oracle (three-valued; see judge() and judge_field())
  (a) no exception leaves parse_comment_blocks and none leaves parse_comment_block (the
      catch-all's "unrecoverable parse error" diagnostic is an escaped internal exception);
      good1 and good2 come back equal to their solo parse
  (b) family (i): a field whose parentheses are unbalanced / doubled / empty leaves the part's
      annotations EMPTY; a well-formed field gives exactly its annotations; anything else is
      all-or-nothing where the grammar decides it, UNSPECIFIED otherwise
  (c) every log() call: exactly the INPUT's file; 1-based line inside the block's source range
      (blocks whose /** stands alone); family (i): the line holding the injected field; quoted
      line == source line at that number and 0 <= caret <= len(quoted text) (unless that source
      line is a deprecated tag-style annotation; on the line that also holds the end token only
      "quoted text is part of that source line" is required - the rest is UNSPECIFIED); the
      displayed text names that file:line
  (d) get_warning_count() == number of log() calls, identical with display suppressed; and a
      stubbed `scanner_main --warn-error` over the same comments exits non-zero iff at least
      one diagnostic was logged (subset stated in bounds)
"""
import contextlib
import io
import itertools
import json
import os
import re

from vt.core import Part, pmap, rotate, stable_hash, HarnessBroken, ROOT
from vt.scan import c10_blocks as B
from vt.scan import fake
from vt.scan.run import RecLogger
from vt.checks import c10 as C10

from giscanner import message, scannermain

LEVEL = 'model_checking'

SIGMA = ['(', ')', ':', ' ', 'a', '=', '<', '@']
GOOD1 = ('/**\n * good_one: (skip)\n * @x: (in): first\n * Returns: (transfer none): a thing\n */', '/src/good1.c', 10)
GOOD2 = ('/**\n * good_two:\n * @y: a value\n *\n * Text.\n * Since: 2.0\n */', '/src/good2.c', 3000)
MUT_FILE, MUT_LINE = '/src/mut.c', 200

SKEL = ['/**', ' * foo_bar: (skip)', ' * @p: (in): a value', ' *', ' * Does things.', ' *',
        ' * Returns: (transfer none): a result', ' */']
SKEL_AT = {'ident': (1, ' * foo_bar:'), 'param': (2, ' * @p:'), 'returns': (6, ' * Returns:')}
POSITIONS = ('ident', 'param', 'returns')

INSERT_CHARS = ['(', ')', ':', ' ', '@', '*', '/', '\n', '\r', '=', 'x', '\u00e9'] + B.ODD_SEPARATORS

_GOOD_VIEWS = {}


def good_views():
    if not _GOOD_VIEWS:
        for name, c in (('good_one', GOOD1), ('good_two', GOOD2)):
            b, recs, exc = B.parse(*c)
            if b is None or recs or exc:
                raise HarnessBroken('neighbour block %s is not clean: %r %r' % (name, recs, exc))
            _GOOD_VIEWS[name] = B.abstract(b)
    return _GOOD_VIEWS


_HDR = re.compile(r'^(.*?):(\d+): (Warning|Error): ', re.M)
_OLD_ANN_LINE = re.compile(r'^\s*(attributes|get\svalue\sfunc|ref\sfunc|rename\sto|set\svalue\sfunc|transfer|type|'
                           r'unref\sfunc|value|virtual)\s*:', re.I)


def deprecated_tag_line(src):
    return bool(_OLD_ANN_LINE.match(re.sub(r'^\s*\*\s?', '', src)))


def has_continued_annotations(lines):
    """A line that continues an annotation field of the previous part."""
    return any(re.match(r'^\s*\*?\s*\(', ln) for ln in lines[2:])


class Obs(object):
    __slots__ = ('blocks', 'recs', 'count', 'output', 'exc', 'recs2', 'count2', 'exc2')


def observe(text, suppressed=True):
    o = Obs()
    comments = [GOOD1, (text, MUT_FILE, MUT_LINE), GOOD2]
    o.blocks, o.recs, o.count, o.output, o.exc = B.parse_many(comments, True)
    o.recs2 = o.count2 = o.exc2 = None
    if suppressed:
        _, o.recs2, o.count2, _, o.exc2 = B.parse_many(comments, False)
    return o


def judge(text, o, field_line=None, notes=None, allowed_lines=None):
    """Generic clauses (a), (c), (d).  -> [(kind, description)]"""
    P = []
    lines = B.split_lines(text)
    standalone = bool(re.match(r'^\s*/\*\*\s*$', lines[0]))
    if o.exc is not None:
        P.append(('raise', 'exception left parse_comment_blocks: %s' % o.exc))
        return P
    gv = good_views()
    for name in ('good_one', 'good_two'):
        b = o.blocks.get(name)
        if b is None or B.abstract(b) != gv[name]:
            P.append(('lost-neighbour', 'neighbour block %s lost or changed: %s' % (name, json.dumps(B.abstract(b)))))
    for r in o.recs:
        what = '%s %r' % ('Error' if r['type'] == message.ERROR else 'Warning', r['text'])
        if r['text'].startswith('unrecoverable parse error'):
            P.append(('internal', 'internal exception in parse_comment_block (caught by the catch-all): %s' % r['text'][-80:]))
            continue
        if r['type'] not in (message.WARNING, message.ERROR):
            P.append(('fatal', 'fatal diagnostic: %s' % what))
        pos = r['positions']
        if len(pos) != 1:
            P.append(('no-position', 'diagnostic without file/line (%d positions): %s' % (len(pos), what)))
            continue
        fn, line, col = pos[0]
        if fn != MUT_FILE:
            P.append(('wrong-file', 'diagnostic names %r, the text stands in %r: %s' % (fn, MUT_FILE, what)))
            continue
        if not isinstance(line, int) or line < 1:
            P.append(('line', 'line %r is not a 1-based line number: %s' % (line, what)))
            continue
        if not standalone:
            continue                                     # carve-out of the statement
        if not (MUT_LINE <= line < MUT_LINE + len(lines)):
            P.append(('line', 'line %d outside the block %d..%d: %s' % (line, MUT_LINE, MUT_LINE + len(lines) - 1, what)))
            continue
        if field_line is not None and line != MUT_LINE + field_line:
            P.append(('wrong-line', 'line %d reported, the offending field stands on line %d: %s' % (
                line, MUT_LINE + field_line, what)))
        if allowed_lines is not None and (line - MUT_LINE) not in allowed_lines:
            P.append(('wrong-line', 'line %d reported, the only offending text stands on line(s) %s: %s' % (
                line, [MUT_LINE + i for i in allowed_lines], what)))
        src = lines[line - MUT_LINE]
        if r['marker_line'] is not None and r['marker_pos'] is not None and not deprecated_tag_line(src):
            quoted = r['marker_line']
            if quoted != src:
                # text sharing the line with the end token: the parser quotes the line without the token and
                # the blanks around it.  The statement does not clearly exclude that (lead's ruling): UNSPECIFIED,
                # as long as what is quoted is part of that source line.
                if line - MUT_LINE == len(lines) - 1 and quoted in src:
                    if notes is not None:
                        notes.append('end-token-line')
                else:
                    P.append(('quoted-line', 'quoted %r but line %d is %r: %s' % (quoted, line, src, what)))
                    continue
            if not (isinstance(r['marker_pos'], int) and 0 <= r['marker_pos'] <= len(quoted)):
                P.append(('caret', 'caret at %r outside the quoted text of length %d: %s' % (r['marker_pos'], len(quoted), what)))
    # (d) counting
    if o.count != len(o.recs):
        P.append(('count', 'get_warning_count()=%d but %d diagnostics were logged' % (o.count, len(o.recs))))
    if o.recs2 is not None:
        if o.exc2 is not None:
            P.append(('raise', 'exception with display suppressed: %s' % o.exc2))
        elif o.count2 != o.count or len(o.recs2) != len(o.recs):
            P.append(('suppressed-count', 'count %d (%d log calls) with display suppressed, %d (%d) with display' % (
                o.count2, len(o.recs2), o.count, len(o.recs))))
    # the displayed text names file:line of each record, in order: the printed path, read relative to the
    # logger's working directory, is the source file
    P += judge_display(o.output, o.recs, os.getcwd()) if standalone else []
    return P


def judge_display(output, recs, cwd):
    if not all(len(r['positions']) == 1 for r in recs) or \
            any(_HDR.search(r['text'] + '\n' + (r['marker_line'] or '')) for r in recs):
        return []
    want = [(r['positions'][0][0], r['positions'][0][1], 'Error' if r['type'] == message.ERROR else 'Warning')
            for r in recs if r['type'] in (message.WARNING, message.ERROR)]
    got = B.printed_locations(output)
    if len(got) != len(want):
        return [('display', '%d diagnostics displayed, %d logged' % (len(got), len(want)))]
    for (path, line, typ), (fn, wline, wtyp) in zip(got, want):
        if not B.names_file(path, cwd, fn):
            return [('display-path', 'printed location %r does not name %r from the working directory %r' % (
                '%s:%d' % (path, line), fn, cwd))]
        if line != wline or typ != wtyp:
            return [('display', 'printed %s:%d %s, logged %s:%d %s' % (path, line, typ, fn, wline, wtyp))]
    return []


# ------------------------------------------------------------------ family (i) ---
def build_field(S, pos, placement):
    idx, head = SKEL_AT[pos]
    lines = list(SKEL)
    if placement == 'inline':
        lines[idx] = head + ' ' + S
        fl = idx
    else:
        lines[idx:idx + 1] = [head, ' *   ' + S]
        fl = idx + 1
    return '\n'.join(lines), fl


def classify(S):
    """-> ('reject', None, None) | ('well'|'unspec', [[name, opts]], rest)"""
    st = B.split_groups(S)
    if st[0] == 'reject':
        return 'reject', None, None
    _, groups, rest = st
    anns = []
    ok = True
    for g in groups:
        c = g.strip()
        if not c or '(' in c or ')' in c or '<' in c or '>' in c:
            ok = False
            continue
        name, _, r = c.partition(' ')
        r = r.strip()
        anns.append([name.lower(), ['raw', r] if r else None])
    names = [a[0] for a in anns]
    if len(set(names)) != len(names) or any(n in B.VOCAB or n in B.DEPRECATED_ANN for n in names):
        ok = False
    return ('well' if ok else 'unspec'), anns, rest


def judge_field(S, pos, placement, text, fl, o):
    """Clause (b) and the line rule for family (i).  -> (problems, class, stats)"""
    cls, anns, rest = classify(S)
    if placement == 'cont' and not S.lstrip().startswith('('):
        cls = 'text'                      # not an annotation continuation: only the generic clauses
    P = judge(text, o, field_line=None if cls == 'text' else fl)
    stats = {}
    if o.exc is not None:
        return P, 'crash', stats
    blk = o.blocks.get('foo_bar')
    if pos != 'ident' and blk is None:
        P.append(('lost-block', 'block foo_bar lost although its identifier line is intact'))
        return P, cls, stats
    if pos == 'ident':
        part = blk
    elif pos == 'param':
        part = blk.params.get('p')
    else:
        part = blk.tags.get('returns')
    if pos != 'ident' and part is None:
        P.append(('lost-part', '%s part lost' % pos))
        return P, cls, stats
    have = B._ann_view(part.annotations) if part is not None else None
    if cls == 'reject':
        if have:
            P.append(('half-applied', 'annotation field with broken parentheses left annotations %s on the %s' % (
                json.dumps(have), pos)))
    elif cls == 'well':
        pure = rest.strip() in ('', ':')
        if pos == 'ident' and not pure:
            if have is not None and have != [] and have != anns:
                P.append(('half-applied', 'identifier annotations %s are neither none nor all of %s' % (
                    json.dumps(have), json.dumps(anns))))
        elif pos == 'ident' and part is None:
            P.append(('lost-block', 'identifier line with well-formed annotations not recognised'))
        elif have != anns:
            P.append(('annotations', 'well-formed field gave %s, expected %s' % (json.dumps(have), json.dumps(anns))))
        if pos != 'ident' and part is not None:
            r = rest.strip()
            exp = None
            if anns and r.startswith(':'):
                exp = r[1:].strip()
            elif not anns and not r.startswith(':'):
                exp = r
            elif anns and not r:
                exp = ''
            if exp is not None and (part.description or '').strip() != exp:
                P.append(('description', 'description %r, expected %r' % (part.description, exp)))
    # informational: where the caret points
    for r in o.recs:
        if r['marker_pos'] is not None and len(r['positions']) == 1:
            line = B.split_lines(text)[fl]
            lo = len(line) - len(S)
            stats['caret_in_field' if lo - 1 <= r['marker_pos'] <= len(line) else 'caret_elsewhere'] = \
                stats.get('caret_in_field' if lo - 1 <= r['marker_pos'] <= len(line) else 'caret_elsewhere', 0) + 1
    return P, cls, stats


def _norm(t):
    return re.sub(r'\d+', 'N', t)[:48]


def _report(part, kind, desc, text, case):
    lines = B.split_lines(text)
    if kind == 'no-position' and has_continued_annotations(lines):
        key = 'no-position:continued-annotation-line'
    else:
        key = '%s:%s' % (kind, case.get('id') or stable_hash(text)[:12])
    part.violation(key, desc, dict(case, text=text))


def _work_fields(chunk):
    n, prefix, suppressed, placements = chunk
    part = Part()
    good_views()
    agg = {}
    for tail in itertools.product(SIGMA, repeat=n - len(prefix)):
        S = prefix + ''.join(tail)
        part.add(states=1, transitions=1)
        for pos in POSITIONS:
            for placement in placements:
                text, fl = build_field(S, pos, placement)
                o = observe(text, suppressed)
                P, cls, stats = judge_field(S, pos, placement, text, fl, o)
                part.add(evaluations=2 if suppressed else 1, traces_validated_against_impl=1)
                for k, v in stats.items():
                    agg[k] = agg.get(k, 0) + v
                if cls in ('unspec', 'text'):
                    part.add(unspecified=1)
                if cls in ('well', 'reject') or o.recs:
                    part.add(distinct_nontrivial=1)
                part.outcome('%s/%s/%s/%s' % (pos, placement, cls, '|'.join(sorted(set(_norm(r['text']) for r in o.recs)))))
                for kind, desc in P:
                    _report(part, kind, desc, text, {'family': 'field', 'S': S, 'pos': pos, 'placement': placement,
                                                     'id': 'field/%s/%s/%r' % (pos, placement, S)})
    if n >= 2:
        part.sample({'family': 'field', 'S': prefix + SIGMA[n % 8] * (n - len(prefix)),
                     'comment': build_field(prefix + SIGMA[n % 8] * (n - len(prefix)), 'param', 'inline')[0]})
    part.add(**agg)
    return part.result()


# ----------------------------------------------------------------- family (ii) ---
def base_blocks(count):
    """Well-formed blocks from C10's generator (models x layouts), deterministic."""
    rich = {'ident': ['symbol', 'foo_bar', None], 'ann': [['skip', None], ['rename-to', ['list', ['other']]]],
            'params': [{'name': 'p', 'ann': [['array', ['dict', [['length', 'n']]]], ['nullable', None]],
                        'desc': [['an', 'array'], ['of', 'things']]},
                       {'name': 'n', 'ann': [['out', None]], 'desc': [['the', 'length']]}],
            'desc': [[[0, ['Does', 'things:']], [2, ['code', '(1);']]], [[0, ['Second', 'one.']]]],
            'tags': [{'name': 'returns', 'ann': [['transfer', ['list', ['full']]]], 'value': None,
                      'desc': [[['a', 'new', 'thing']], [['free', 'it']]]},
                     {'name': 'since', 'ann': [], 'value': '2.0', 'desc': []}]}
    mB = C10.models_B('quick')
    models = [rich]
    step = len(mB) // 9
    models += [mB[(i * step + 7 * i + 1234) % len(mB)] for i in range(9)]
    lays = [C10.B_LAYOUTS[0], C10.B_LAYOUTS[1], C10.B_LAYOUTS[3]]
    out = []
    for li, lay in enumerate(lays):
        for mi, m in enumerate(models):
            out.append(('m%d/l%d' % (mi, li), B.render(m, lay)))
    # interleave so that a prefix of the list already mixes models and layouts
    order = sorted(range(len(out)), key=lambda i: (i % 10 + i // 10) % 10 * 3 + i // 10)
    out = [out[i] for i in order]
    return out[:count]


def edits(text):
    """Single-edit neighbourhood: (edit id, mutated text)."""
    n = len(text)
    for i in range(n + 1):
        for c in INSERT_CHARS:
            yield 'ins%d:%r' % (i, c), text[:i] + c + text[i:]
    for i in range(n):
        yield 'del%d' % i, text[:i] + text[i + 1:]
    for i in range(n):
        yield 'trunc%d' % i, text[:i]
    sep = '\r\n' if '\r\n' in text else ('\r' if '\r' in text else '\n')
    lines = text.split(sep)
    for i in range(len(lines)):
        yield 'dupline%d' % i, sep.join(lines[:i + 1] + lines[i:])
        yield 'delline%d' % i, sep.join(lines[:i] + lines[i + 1:])
        if i + 1 < len(lines):
            yield 'swapline%d' % i, sep.join(lines[:i] + [lines[i + 1], lines[i]] + lines[i + 2:])


def _work_edits(chunk):
    bid, text, lo, hi, warn_error = chunk
    part = Part()
    good_views()
    seen = set()
    for k, (eid, mut) in enumerate(edits(text)):
        if k < lo or k >= hi:
            continue
        part.add(transitions=1)
        if mut in seen:
            continue
        seen.add(mut)
        o = observe(mut, True)
        notes = []
        P = judge(mut, o, notes=notes)
        part.add(states=1, evaluations=2, traces_validated_against_impl=1, unspecified=len(notes))
        if o.recs:
            part.add(distinct_nontrivial=1)
        part.outcome('edit/%s' % '|'.join(sorted(set(_norm(r['text']) for r in o.recs))))
        case = {'family': 'text', 'id': 'edit/%s/%s' % (bid, eid)}
        for kind, desc in P:
            _report(part, kind, desc, mut, case)
        if warn_error:
            for kind, desc in judge_warn_error(mut, o):
                _report(part, kind, desc, mut, case)
            part.add(evaluations=1, warn_error_runs=1)
        if k == lo:
            part.sample({'family': 'edit', 'edit': eid, 'comment': mut})
    return part.result()


# ---------------------------------------------------------------- family (iii) ---
def degenerate():
    D = [
        '', ' ', '\n', '/', '*', '/*', '/**', '/***/', '/**/', '/** */', '/** x */', '/**x*/', '*/', '/**\n*/', '/**\n */',
        '/**\n\n */', '/**\n *\n */', '/**\n * \n */', '/**\n *\n *\n */', '/**\n * :\n */', '/**\n * ::\n */',
        '/**\n * @p: x\n */', '/**\n *\n * foo_bar:\n */', '/**\n * foo_bar\n */', '/**\n * foo bar\n */',
        '/**\n * foo_bar: text\n */', '/**\n foo_bar:\n */', '/**\nfoo_bar:\n*/', '/**\n * foo_bar:\n', '/**\n * foo_bar:',
        '/** foo_bar:\n */', '/** foo_bar: (skip)\n * @p: (frob): x\n */', 'int x; /**\n * foo_bar:\n */',
        '/**\n * foo_bar:\n */ int y;', '/**\n * foo_bar: */', '/**\n * foo_bar:\n * text */', 'x /** foo_bar: (\n * @p: )\n */ y',
        '/**\n * foo_bar:\n * @p: a\n * @p: b\n */', '/**\n * foo_bar:\n * @p: a\n * @P: b\n */',
        '/**\n * foo_bar:\n * @returns: a\n * @returns: b\n */', '/**\n * foo_bar:\n * @returns: a\n *\n * Returns: b\n */',
        '/**\n * foo_bar:\n *\n * Returns: a\n * Returns: b\n */', '/**\n * foo_bar:\n *\n * Since: 1\n * Since: 2\n */',
        '/**\n * foo_bar:\n *\n * Since: (skip): 2\n */', '/**\n * foo_bar:\n *\n * Deprecated: (a\n */',
        '/**\n * foo_bar:\n *\n * Stability: bogus\n */', '/**\n * foo_bar:\n *\n * Return value: (skip: a\n */',
        '/**\n * foo_bar:\n *\n * Returns value: a\n * Return: b\n */', '/**\n * foo_bar:\n *\n * Description: old\n */',
        '/**\n * foo_bar:\n *\n * text\n *\n * @p: late\n */', '/**\n * foo_bar:\n * @Varargs: x\n * @args...: y\n */',
        '/**\n * foo_bar:\n *\n * Attributes: (a b) (c d)\n */', '/**\n * foo_bar:\n *\n * Attributes: (a b c)\n */',
        '/**\n * foo_bar:\n *\n * Attributes: (a b))\n */', '/**\n * foo_bar:\n *\n * Attributes: (a b)\n * Attributes: (c d)\n */',
        '/**\n * foo_bar:\n *\n * Rename to: other\n */', '/**\n * foo_bar:\n *\n * Rename to: (x\n */',
        '/**\n * foo_bar:\n *\n * Type: a=b\n */', '/**\n * foo_bar:\n *\n * Transfer: none\n * Value: 5\n * Virtual: slot\n */',
        '/**\n * foo_bar:\n *\n * Ref func: a\n * Unref func: b\n * Get value func: c\n * Set value func: d\n */',
        '/**\n * foo_bar: (attribute a b)\n * @p: (attribute a): x\n * @q: (attribute a b c): x\n */',
        '/**\n * foo_bar: (in-out)\n * @p: (in-out): x\n */', '/**\n * foo_bar: (skip) (skip)\n */',
        '/**\n * foo_bar: (type a=b)\n */', '/**\n * foo_bar: (element-type <a>)\n */', '/**\n * foo_bar: (skip\n * (method)\n */',
        '/**\n * foo_bar: (frob)\n *   (frobnicate x)\n * @p:\n *   (frob)\n */',
        '/**\n * foo_bar:\n * @p: (array length=)\n * @q: (array =x)\n * @r: (array fixed-size=x): d\n */',
        '/**\n * foo_bar:\n * @p: (not): x\n * @q: (not nullable) (nullable): x\n * @r: (transfer): x\n */',
        '/**\r\n * foo_bar: (\r\n * @p: )\r\n */', '/**\r * foo_bar: (\r * @p: )\r */', '/**\n * foo_bar: (\r\n * @p: )\r */',
        '/**\r\n * foo_bar:\n\r * @p: (x\r\r * Returns: )\n */', '/**\n * foo_b\u00e4r: (\u00e9)\n * @\u00fc: (\u00e9: x\n */',
        '/**\n * foo_bar: (skip) \u00e9\n */', '/**\n \u00e9 * foo_bar:\n * @p: (\n */', '/**\n * SECTION:\n */',
        '/**\n * SECTION:x (skip)\n * @p: (\n */', '/**\n * Foo|a.b: (skip\n */', '/**\n * Foo:: (\n */', '/**\n * Foo.bar: )\n */',
        '/**\n * Foo:bar: ((\n */', '/**\n * foo_bar:\n text without asterisk (\n * @p: )\n */',
        '/**\n * foo_bar:\n x * @p: (\n */', '/**\n * foo_bar:\n *@p:(skip\n */', '/**\n *foo_bar:(\n */',
        '/**\n * foo_bar:\n * @: x\n * @@p: (\n */', '/**\n * foo_bar:\n * @p:: (skip): x\n * @q: :: (\n */',
        '/**\n * foo_bar:\n */\n', '/**\n * foo_bar:\n */\n\n',
        '\n/**\n * foo_bar: (\n */', '/**\n * foo_bar: (\n **/', '/**\n * foo_bar: (\n ***/', '/***\n * foo_bar: (\n */',
        '/**/\n * foo_bar: (\n */', '/**\n * foo_bar:\n *\n * (not an annotation\n */',
        '/**\n * foo_bar:\n * @p: x\n * (late (\n */', '/**\n * foo_bar:\n *\n * Returns:\n *   (\n */',
        '/**\n * foo_bar:\n *\n * Returns: x\n *   (late)\n */', '/**\n' + ' * foo_bar: (' + 'a' * 300 + '\n */',
    ]
    # every deprecated tag-style annotation, with and without a value, on a block whose identifier line has / has
    # no annotations: whatever is diagnosed (deprecation, option count) must carry one position in the block
    for tag, val in (('Attributes', '(a b)'), ('Get value func', 'f'), ('Ref func', 'f'), ('Rename to', 'other'),
                     ('Set value func', 'f'), ('Transfer', 'none'), ('Type', 'utf8'), ('Unref func', 'f'),
                     ('Value', '5'), ('Virtual', 'slot')):
        for name in (tag, tag.lower()):
            for ident in ('foo_bar:', 'foo_bar: (skip)'):
                for v in (' ' + val, ''):
                    D.append('/**\n * %s\n * @p: a value\n *\n * Does things.\n *\n * %s:%s\n */' % (ident, name, v))
                    D.append('/**\n * %s\n * %s:%s\n */' % (ident, name, v))
    # a character that str.splitlines() would break at, but that is not a comment line ending, stands on a line
    # BEFORE the diagnosed one: line number and quoted line of the later diagnostics must not shift
    for c in B.ODD_SEPARATORS:
        D.append('/**\n * foo_bar:\n * @p: a' + c + 'value\n * @q: (\n */')
        D.append('/**\n * foo_bar: (skip)\n *\n * Does' + c + 'things' + c + 'twice.\n *\n * Returns: (frob\n * Since: )\n */')
        D.append('/**\n * foo_bar: (attributes k=x' + c + 'y) (\n * @p: ' + c + ' x\n * @p: again\n */')
        D.append('/**\r\n * foo_bar:\r\n *\r\n * ' + c + '\r\n * Returns: a\r\n * Returns: ((\r\n */')
    return D


def deprecated_shapes():
    """(text, allowed diagnostic lines): deprecated tag form with no parameter / tag before it, something after it."""
    return [(t, info['offending']) for t, info in B.deprecated_tag_blocks() + B.odd_tag_blocks()]


def _work_texts(chunk):
    part = Part()
    good_views()
    for did, text in chunk:
        allowed = None
        if isinstance(text, tuple):
            text, allowed = text
        o = observe(text, True)
        notes = []
        P = judge(text, o, notes=notes, allowed_lines=allowed)
        if allowed is not None and o.exc is None and 'foo_bar' not in o.blocks:
            P.append(('lost-block', 'syntactically ordinary block using a deprecated tag form was dropped'))
        P += judge_warn_error(text, o)
        part.add(states=1, transitions=1, evaluations=3, traces_validated_against_impl=1, warn_error_runs=1,
                 unspecified=len(notes))
        if o.recs:
            part.add(distinct_nontrivial=1)
        part.outcome('deg/%s' % '|'.join(sorted(set(_norm(r['text']) for r in o.recs))))
        for kind, desc in P:
            _report(part, kind, desc, text, {'family': 'text', 'id': 'degenerate/%s' % did, 'allowed_lines': allowed})
        if did % 17 == 0:
            part.sample({'family': 'degenerate', 'comment': text})
    return part.result()


def _work_fields_we(chunk):
    """warn-error runs for family (i) strings (short ones)."""
    part = Part()
    good_views()
    for S in chunk:
        for pos in POSITIONS:
            for placement in ('inline', 'cont'):
                text, fl = build_field(S, pos, placement)
                o = observe(text, False)
                for kind, desc in judge_warn_error(text, o):
                    _report(part, kind, desc, text, {'family': 'field', 'S': S, 'pos': pos, 'placement': placement,
                                                     'id': 'field/%s/%s/%r' % (pos, placement, S)})
                part.add(evaluations=1, warn_error_runs=1)
    return part.result()


# ----------------------------------------------------------------- family (iv) ---
def display_cases():
    """Several blocks per run, one identifier documented twice (first / later in the file, same or another
    file), faulty blocks before / after; logger working directory in {source dir, its parent, an unrelated
    directory, the harness root}.  -> [(case id, comments, cwd)]"""
    d, _ = _scratch()
    src = os.path.join(d, 'src', 'widgets')
    other = os.path.join(d, 'elsewhere')
    for x in (src, other):
        os.makedirs(x, exist_ok=True)
    F = os.path.join(src, 'demo.c')
    G = os.path.join(d, 'src', 'util.c')

    def clean(name):
        return '/**\n * %s:\n * @x: a value\n */' % name

    def faulty(name):
        return '/**\n * %s: (skip\n * @x: (in) a value\n */' % name
    scen = {
        'dup-first': [(clean('dup'), F, 10), (clean('dup'), F, 50), (faulty('bad'), F, 90)],
        'dup-after-clean': [(clean('ok'), F, 5), (clean('dup'), F, 10), (clean('dup'), F, 50), (faulty('bad'), F, 90)],
        'dup-after-faulty': [(faulty('bad0'), F, 3), (clean('dup'), F, 10), (clean('dup'), F, 50), (faulty('bad'), F, 90)],
        'dup-across-files': [(clean('dup'), F, 10), (clean('dup'), G, 20), (faulty('bad'), G, 60), (faulty('bad2'), F, 90)],
        'dup-across-files-2': [(clean('dup'), G, 10), (clean('dup'), F, 50), (faulty('bad'), F, 90), (faulty('bad2'), G, 120)],
        'dup-three-times': [(clean('dup'), F, 10), (clean('dup'), F, 50), (clean('dup'), F, 70), (faulty('bad'), F, 90)],
        'dup-second-faulty': [(clean('dup'), F, 10), (faulty('dup'), F, 50), (clean('ok'), G, 5), (faulty('bad'), G, 30)],
        'two-dups': [(clean('a'), F, 10), (clean('b'), G, 10), (clean('a'), G, 40), (clean('b'), F, 40), (faulty('bad'), F, 90)],
        'no-dup': [(faulty('bad'), F, 10), (faulty('bad2'), G, 10)],
    }
    out = []
    for sid in sorted(scen):
        for cname, cwd in (('srcdir', src), ('parent', os.path.dirname(src)), ('unrelated', other), ('root', ROOT)):
            out.append(('%s/%s' % (sid, cname), scen[sid], cwd))
    return out


def judge_display_case(comments, cwd):
    P = []
    blocks, recs, count, output, exc = B.parse_many(comments, True, cwd=cwd)
    if exc is not None:
        return [('raise', 'exception left parse_comment_blocks: %s' % exc)], recs, output
    spans = [(f, ln, ln + len(B.split_lines(t)) - 1) for t, f, ln in comments]
    for r in recs:
        what = '%s %r' % ('Error' if r['type'] == message.ERROR else 'Warning', r['text'][:60])
        if len(r['positions']) != 1:
            P.append(('no-position', 'diagnostic without file/line: %s' % what))
            continue
        fn, line, col = r['positions'][0]
        if not any(fn == f and lo <= line <= hi for f, lo, hi in spans):
            P.append(('line', '%s:%s is not inside any block of the input: %s' % (fn, line, what)))
    if count != len(recs):
        P.append(('count', 'get_warning_count()=%d but %d diagnostics were logged' % (count, len(recs))))
    P += judge_display(output, recs, cwd)
    _, recs2, count2, _, exc2 = B.parse_many(comments, False, cwd=cwd)
    if exc2 is not None or count2 != count:
        P.append(('suppressed-count', 'count %r with display suppressed, %d with display' % (count2, count)))
    return P, recs, output


def _work_display(chunk):
    part = Part()
    for cid, comments, cwd in chunk:
        P, recs, output = judge_display_case(comments, cwd)
        part.add(states=1, transitions=1, evaluations=2, traces_validated_against_impl=1, distinct_nontrivial=1)
        part.outcome('disp/%s/%d' % (cid.split('/')[0], len(recs)))
        for kind, desc in P:
            part.violation('%s:display/%s' % (kind, cid), desc, {'family': 'display', 'id': cid})
        if cid.endswith('first/parent'):
            part.sample({'family': 'display', 'case': cid, 'printed': output[:400]})
    return part.result()


# ----------------------------------------------------- scanner_main --warn-error ---
class _FakeSourceScanner(object):
    comments = []
    symbols = []

    def set_compiler(self, c):
        pass

    def set_cpp_options(self, *a, **k):
        pass

    def parse_files(self, f):
        pass

    def parse_macros(self, f):
        pass

    def get_errors(self):
        return []

    def get_comments(self):
        return list(_FakeSourceScanner.comments)

    def get_symbols(self):
        return list(_FakeSourceScanner.symbols)


def _scratch():
    d = os.path.join(ROOT, '.build', 'c11')
    os.makedirs(d, exist_ok=True)
    h = os.path.join(d, 'empty.h')
    if not os.path.exists(h):
        with open(h, 'w'):
            pass
    return d, h


def scanner_main_run(comments, warn_error=True):
    """Run the real scanner_main with a stub C scanner feeding `comments`.
    -> (exit status or 'exit:<msg>', records)"""
    d, h = _scratch()
    _FakeSourceScanner.comments = comments
    decls = fake.number([fake.Func('foo_bar', 'char*', [('int', 'p')]), fake.Func('good_one', 'char*', [('int', 'x')]),
                         fake.Func('good_two', 'void', [('int', 'y')])], file='/src/foo.h')
    _FakeSourceScanner.symbols = [fake.wrap(s) for s in fake.symbols_of(decls)]
    saved = scannermain.SourceScanner
    scannermain.SourceScanner = _FakeSourceScanner
    message.MessageLogger._instance = None
    lg = RecLogger(output=io.StringIO())
    message.MessageLogger._instance = lg
    args = ['g-ir-scanner', '--namespace=Foo', '--nsversion=1.0', '--header-only', '--accept-unprefixed',
            '--output=%s' % os.path.join(d, 'out-%d.gir' % os.getpid()), h]
    if warn_error:
        args.append('--warn-error')
    err, out = io.StringIO(), io.StringIO()
    try:
        with contextlib.redirect_stderr(err), contextlib.redirect_stdout(out):
            rc = scannermain.scanner_main(args)
    except SystemExit as e:
        rc = 'exit:%s' % (str(e.code)[:60],)
    finally:
        scannermain.SourceScanner = saved
        message.MessageLogger._instance = None
    return rc, lg.records


def judge_warn_error(text, o):
    P = []
    comments = [GOOD1, (text, MUT_FILE, MUT_LINE), GOOD2]
    try:
        rc, recs = scanner_main_run(comments, True)
    except Exception as e:   # noqa
        return [('warn-error-raise', 'scanner_main raised %s: %s' % (type(e).__name__, e))]
    diagnosed = [r for r in recs if not (r['type'] == message.FATAL and r['text'] == 'warnings configured as fatal')]
    failed = rc != 0
    if failed != bool(diagnosed):
        P.append(('warn-error', '--warn-error run %s although %d diagnostics were logged (%r)' % (
            'failed' if failed else 'succeeded', len(diagnosed), [r['text'][:40] for r in diagnosed[:2]])))
    if o.exc is None and o.recs and not failed:
        P.append(('warn-error', '--warn-error run succeeded although the comment parser logged %d diagnostics' % len(o.recs)))
    return P


# ---------------------------------------------------------------- calibration ---
def calibrate():
    """Upstream's expected messages must satisfy the position rules of clause (c)."""
    res = {'corpus_cases': 0, 'expected_messages': 0, 'with_quoted_line': 0, 'satisfy_position_rules': 0,
           'carved_out_deprecated_tag_syntax': 0, 'carved_out_opening_not_alone': 0}
    bad = []
    for f, i, inp, exp, msgs, outp in B.corpus():
        res['corpus_cases'] += 1
        lines = B.split_lines(inp)
        standalone = bool(re.match(r'^\s*/\*\*\s*$', lines[0]))
        for m in msgs:
            res['expected_messages'] += 1
            parts = m.split('\n')
            mm = re.match(r'^(\d+): (Warning|Error): Test: ', parts[0])
            if not mm:
                bad.append('%s#%d: unparsable %r' % (f, i, parts[0]))
                continue
            line = int(mm.group(1))
            ok = 1 <= line <= len(lines)
            carets = [k for k, p in enumerate(parts) if p.strip() == '^']
            dep = False
            if ok and carets:
                res['with_quoted_line'] += 1
                k = carets[-1]
                quoted, caret = parts[k - 1], parts[k].index('^')
                src = lines[line - 1]
                dep = deprecated_tag_line(src)
                ok = quoted == src and 0 <= caret <= len(src)
            if ok:
                res['satisfy_position_rules'] += 1
            elif not standalone:
                res['carved_out_opening_not_alone'] += 1
            elif dep:
                res['carved_out_deprecated_tag_syntax'] += 1
            else:
                bad.append('%s#%d: %r' % (f, i, parts[0]))
    if bad:
        raise HarnessBroken('position rules disagree with upstream expected messages: %s' % bad[:4])
    if res['expected_messages'] < 100:
        raise HarnessBroken('calibration corpus too small: %r' % res)
    return res


# ------------------------------------------------------------------------ run ---
def field_chunks(maxlen_double, maxlen_single, cont_max):
    chunks = []
    for n in range(0, maxlen_single + 1):
        suppressed = n <= maxlen_double
        placements = ('inline', 'cont') if n <= cont_max else ('inline',)
        plen = min(n, 2)
        for pre in itertools.product(SIGMA, repeat=plen):
            chunks.append((n, ''.join(pre), suppressed, placements))
    return chunks


def run(ctx):
    thorough = ctx.tier == 'thorough'
    cal = calibrate()
    ctx.set(calibration=cal)
    good_views()
    if thorough:
        n_double, n_single, n_cont, n_bases, n_we = 6, 7, 6, 30, 3
    else:
        n_double, n_single, n_cont, n_bases, n_we = 4, 5, 4, 12, 2
    bases = base_blocks(n_bases)
    ctx.set(rule='(i) every string over %r up to the stated length as the annotation field of the identifier / '
                 'parameter / Returns line of a fixed skeleton (inline and on a continuation line); (ii) every single '
                 'edit (20 insertable characters x every position, every deletion, every truncation, every line '
                 'duplicated/deleted/swapped) of %d well-formed blocks from C10\'s generator; (iii) %d degenerate blocks and %d ordinary blocks with a deprecated or unusually spelled tag line. '
                 'Each input is parsed by the real parse_comment_blocks between two clean blocks with display on and '
                 'off and judged by clauses (a)-(d) of the module docstring. states = distinct inputs, transitions = '
                 'extension/edit steps, non-trivial = inputs with a decided annotation outcome or at least one judged '
                 'diagnostic' % (''.join(SIGMA), len(bases), len(degenerate()), len(deprecated_shapes())),
            bounds={'alphabet': ''.join(SIGMA), 'field_len_inline': n_single, 'field_len_continuation': n_cont,
                    'field_len_with_suppressed_rerun': n_double, 'field_positions': 3, 'edit_base_blocks': len(bases),
                    'insert_chars': len(INSERT_CHARS), 'degenerate_blocks': len(degenerate()), 'deprecated_tag_blocks': len(deprecated_shapes()),
                    'warn_error_runs': 'all degenerate blocks; all field strings up to length %d in 3 positions x 2 '
                                       'placements; every edit of %d base block(s)' % (n_we, 1 if not thorough else 3)})
    only = [f for f in os.environ.get('VERIF_FAMILIES', '').split(',') if f]
    if only:
        ctx.cap('family filter VERIF_FAMILIES=%s (debugging aid; default runs all families)' % ','.join(only))
    # (i)
    for r in pmap(_work_fields, rotate(field_chunks(n_double, n_single, n_cont) if not only or 'i' in only else [], ctx.seed)):
        ctx.merge(r)
    # (ii)
    chunks = []
    for bi, (bid, text) in enumerate(bases if not only or 'ii' in only else []):
        total = sum(1 for _ in edits(text))
        step = 600
        for lo in range(0, total, step):
            chunks.append((bid, text, lo, min(total, lo + step), bi < (3 if thorough else 1)))
    for r in pmap(_work_edits, rotate(chunks, ctx.seed)):
        ctx.merge(r)
    # (iii)
    D = list(enumerate(degenerate() + deprecated_shapes())) if not only or 'iii' in only else []
    for r in pmap(_work_texts, rotate([D[i::16] for i in range(16) if D[i::16]], ctx.seed)):
        ctx.merge(r)
    # (iv) printed locations under different working directories, duplicate identifiers
    DC = display_cases() if not only or 'iv' in only else []
    ctx.cov['bounds']['display_cases'] = len(DC)
    for r in pmap(_work_display, rotate([DC[i::8] for i in range(8) if DC[i::8]], ctx.seed)):
        ctx.merge(r)
    # warn-error over short field strings
    short = [''.join(t) for n in range(n_we + 1) for t in itertools.product(SIGMA, repeat=n)]
    if only and 'we' not in only:
        short = []
    for r in pmap(_work_fields_we, rotate([short[i::16] for i in range(16) if short[i::16]], ctx.seed)):
        ctx.merge(r)
    ctx.assumptions += [
        'line numbers are judged only for blocks whose /** stands alone on its line (statement)',
        'the quoted line is judged unless the source line at the reported number is a deprecated tag-style annotation '
        '(Attributes:, Rename to:, Type:, Transfer:, Value:, Virtual:, *func:) (statement)',
        'text sharing its line with the end token: the parser quotes that line without the token and surrounding blanks; '
        'UNSPECIFIED by the lead\'s ruling, MUST only: quoted text is a substring of that source line, caret inside it',
        'lines are separated by \\n, \\r\\n or \\r; other Unicode line separators are outside the alphabet',
        'family (i): nested but balanced parentheses, blank groups, duplicate names and the deprecated "<" token are '
        'UNSPECIFIED for clause (b)',
        'scanner_main runs with a stub C scanner (three function symbols, header-only); its own later passes may add '
        'diagnostics, which the iff-clause counts as diagnosed',
        'caret_in_field / caret_elsewhere in coverage are informational, not judged (statement only requires the caret '
        'inside the quoted line)',
    ]
    if not only and (len(ctx._outcomes) < 30 or ctx.cov.get('distinct_nontrivial', 0) < 1000):
        raise HarnessBroken('vacuous exploration: %d outcomes, %d non-trivial' % (
            len(ctx._outcomes), ctx.cov.get('distinct_nontrivial', 0)))


def replay(ctx, case):
    good_views()
    if case.get('family') == 'display':
        cid, comments, cwd = [c for c in display_cases() if c[0] == case['id']][0]
        P, recs, output = judge_display_case(comments, cwd)
        print('working directory:', cwd)
        for t, f, ln in comments:
            print('%s:%d\n%s' % (f, ln, t))
        print('displayed:\n' + output)
        for kind, desc in P:
            print('%s: %s' % (kind, desc))
        return not P
    if case.get('family') == 'field':
        text, fl = build_field(case['S'], case['pos'], case['placement'])
    else:
        text, fl = case['text'], None
    print(text)
    o = observe(text, True)
    if case.get('family') == 'field':
        P, cls, _ = judge_field(case['S'], case['pos'], case['placement'], text, fl, o)
        print('class:', cls)
    else:
        P = judge(text, o, allowed_lines=case.get('allowed_lines'))
        if case.get('allowed_lines') is not None and o.exc is None and 'foo_bar' not in o.blocks:
            P.append(('lost-block', 'syntactically ordinary block using a deprecated tag form was dropped'))
    P += judge_warn_error(text, o)
    print('exception:', o.exc)
    print('blocks:', json.dumps(dict((k, B.abstract(v)) for k, v in (o.blocks or {}).items())))
    for r in o.recs:
        print('diagnostic:', r)
    print('displayed:\n' + o.output)
    for kind, desc in P:
        print('%s: %s' % (kind, desc))
    return not P
