"""C17 - requiring a namespace loads the right typelib version and its dependencies.

Explicit-state search (E2) with replay in fresh processes.

Configuration = (search-path setup, placement of typelib files in the directories d1,d2,d3).
  setup 'env12': GI_TYPELIB_PATH=d1:d2 in the driver's environment, d3 reachable only through
                 g_irepository_prepend_search_path / g_irepository_require_private;
  setup 'pre12': GI_TYPELIB_PATH unset, every history starts with prepend(d1), prepend(d2)
                 (so "a later prepend wins" is decided by the very first operation).
  file = (directory, namespace, version in the file name, content); content is a typelib compiled
  by the rebuilt g-ir-compiler from a tiny GIR (vt/girgen.Doc) - normally <ns>-<ver> with a list
  of <include>s (the recorded dependencies); "mismatch" files carry the bytes of another
  namespace (Z) or another version (3.0) under the name; 'corrupt' is 64 bytes of garbage.

Operations (menu): require(ns, version|None, flags), require_private(dir, ns, version|None, flags),
prepend(dir), load_typelib(typelib built from memory, flags).  After EVERY operation the driver
vt/c/drv_repo.c prints the complete observation for every namespace of the alphabet (loaded
namespaces, version, typelib path, immediate and transitive dependencies, enumerate_versions,
is_registered for every version of the alphabet).  Each history runs in a freshly forked child of
the driver (search path and default repository are process globals).

Reference model: written from the property statement (see class Model).  It is three-valued:
whatever the statement does not fix is UNSPECIFIED (executed, must not crash, not compared) - see
the list in run().
  quick:    model BFS with state de-duplication to depth 2 over every placement of <= 3 files of
            the 24-file WIDE alphabet x 2 setups; every BFS edge is replayed (a history that is a
            strict prefix of another one is validated inside the longer one).
  thorough: (all) every operation sequence of length 3 WITHOUT state de-duplication over every
            placement of <= 4 files of the 12-file CORE alphabet (hidden implementation state such
            as the lazy table cannot hide behind an equal model state);
            (bfs) the de-duplicated BFS to depth 3 over <= 3 files of WIDE + 6 more files
            (non-numeric / corrupt / unsatisfiable-dependency variants);
            (bfs-asan) depth-2 BFS over <= 2 CORE files with the ASan+UBSan build.
The renamings of directories/namespaces that leave (setup, alphabet, menu) invariant are computed
(symmetry_group) and placements are canonicalised under them; with the asymmetric setups and the
A->B->C dependency roles that group is trivial, which the evidence records.

Violation keys name the class of the divergence (operation kind, model reason, expected/observed),
not the instance, so that a recorded finding covers all its instances; the replay case holds the
simplest instance found (fewest files, shortest history).  VERIF_C17_STRIDE=n (development aid)
runs only every n-th configuration and marks the evidence as not exhaustive.
"""
import collections
import hashlib
import itertools
import os
import re
import shutil
import subprocess
from concurrent.futures import ThreadPoolExecutor

from vt import girgen, typelib
from vt.c import build as cbuild, tools
from vt.core import Part, pmap, rotate, HarnessBroken, ROOT, NCPU

LEVEL = 'model_checking'

NSS = ('A', 'B', 'C')
VERS = ('1.9', '1.10', '2.0', '2', '1.x')
PROBE = VERS + ('3.0', '1.1', '1')      # is_registered(ns, v) probes; 1.1/1 are textual prefixes of 1.10/1.9/1.x
DIRS = ('d1', 'd2', 'd3')
DOMAIN = 'g-irepository-error-quark'
NOT_FOUND, MISMATCH, CONFLICT = 0, 1, 2
CODE_NAMES = {0: 'TYPELIB_NOT_FOUND', 1: 'NAMESPACE_MISMATCH', 2: 'NAMESPACE_VERSION_CONFLICT', 3: 'LIBRARY_NOT_FOUND'}
BUILTIN = '<builtin>'

SETUPS = {
    'env12': {'env': ('d1', 'd2'), 'pre': ()},
    'pre12': {'env': (), 'pre': ('d1', 'd2')},
}


# ------------------------------------------------------------------ alphabets ---
def F(d, ns, ver, deps='', inner=None):
    """file (dir, namespace in name, version in name, content key)"""
    return (d, ns, ver, inner or ('%s-%s' % (ns, ver) + ('>' + deps if deps else '')))


WIDE = (
    [F(d, 'A', v) for v in VERS for d in ('d1', 'd2') if (d, v) != ('d2', '1.x')] +
    [F('d3', 'A', '1.10'), F('d3', 'A', '2.0'), F('d2', 'A', '1.1')] +
    [F('d1', 'A', '2.0', 'B-1.9'), F('d2', 'A', '2.0', 'B-1.9'), F('d2', 'A', '2', 'B-1.9+C-2.0'),
     F('d1', 'B', '1.9', 'C-2.0'), F('d2', 'B', '1.9'), F('d3', 'B', '1.9', 'C-2.0'), F('d2', 'B', '2'),
     F('d1', 'C', '2.0'), F('d2', 'C', '2.0'),
     F('d1', 'A', '2.0', inner='Z-2.0'), F('d2', 'A', '2.0', inner='A-3.0'), F('d1', 'B', '1.9', inner='Z-1.9'),
     F('d3', 'A', '2.0', inner='A-3.0')]
)

CORE = [
    F('d1', 'A', '1.9'), F('d1', 'A', '1.10'), F('d2', 'A', '1.10'), F('d1', 'A', '2'), F('d3', 'A', '2.0'),
    F('d2', 'A', '2.0', 'B-1.9'),
    F('d1', 'B', '1.9', 'C-2.0'), F('d2', 'B', '1.9'), F('d2', 'B', '1.10'),
    F('d1', 'C', '2.0'),
    F('d1', 'A', '2.0', inner='A-3.0'), F('d2', 'A', '2.0', inner='Z-2.0'),
]

WIDE_THOROUGH_EXTRA = [F('d2', 'A', '1.x'), F('d2', 'C', '2'), F('d1', 'B', '1.10'), F('d1', 'A', '1.10', 'B-1.10'),
                       F('d1', 'A', '2.0', inner='corrupt'), F('d2', 'B', '1.9', inner='corrupt')]

MENU = [
    ('r', 'A', None, 0), ('r', 'A', '1.9', 0), ('r', 'A', '1.10', 0), ('r', 'A', '2.0', 0),
    ('r', 'B', None, 0), ('r', 'B', '1.9', 0), ('r', 'C', None, 0),
    ('p', 'd3'), ('p', 'd1'),
    ('q', 'd3', 'A', None, 0), ('q', 'd3', 'B', '1.9', 0),
    ('m', 'A-2.0>B-1.9', 0), ('m', 'A-1.9', 0),
    ('r', 'B', None, 1),
]
# BFS explorations also request 1.1, a textual prefix of 1.10 (both load orders with the file d2/A-1.1)
MENU_BFS = MENU + [('r', 'A', '1.1', 0)]

# Substring-related namespace names (own namespace alphabet and menu): T includes Ab-1.0 and CAb-1.0, in both
# <include> orders; every include must be recorded in the typelib, loaded with T and listed as a dependency.
SUBSTR_NSS = ('T', 'Ab', 'CAb')
SUBSTR = [F('d1', 'T', '1.0', 'Ab-1.0+CAb-1.0'), F('d1', 'T', '1.0', 'CAb-1.0+Ab-1.0'),
          F('d1', 'Ab', '1.0'), F('d2', 'Ab', '1.0'), F('d1', 'CAb', '1.0')]
SUBSTR_MENU = [('r', 'T', None, 0), ('r', 'T', '1.0', 0), ('r', 'Ab', None, 0), ('r', 'CAb', '1.0', 0),
               ('m', 'T-1.0>Ab-1.0+CAb-1.0', 0), ('m', 'T-1.0>CAb-1.0+Ab-1.0', 0)]


# Election family: one namespace, versions whose minor has two to four digits and majors 0, 1, 2, 10 (numeric
# comparison of major, then minor: 1.150 < 2.0 < 10.0, 1.99 < 1.100 < 1.150 < 1.1000), in one and two directories.
ELECT_VERS = ('0.100', '1.99', '1.100', '1.150', '2.0', '10.0', '1.1000')
ELECT = ([F(d, 'A', v) for v in ELECT_VERS for d in ('d1', 'd2')] +
         # unmappable entries named A-2.0.typelib in the first environment directory
         [F('d1', 'A', '2.0', inner='dangling'), F('d1', 'A', '2.0', inner='dir'),
          # another namespace whose name has A as a proper prefix, with a higher version, next to the A files
          F('d1', 'AExtras', '20.0')])
ELECT_MENU = [('r', 'A', None, 0), ('q', 'd2', 'A', None, 0), ('p', 'd1'), ('r', 'A', '2.0', 0)]


# Diamond family: A includes B, C and D (both <include> orders, i.e. both recorded dependency-string orders) and
# B includes C; get_dependencies(A) must be the closure of the immediate dependencies over the loaded namespaces.
DIAMOND_NSS = ('A', 'B', 'C', 'D')
DIAMOND = [F('d1', 'A', '1.0', 'B-1.0+C-1.0+D-1.0'), F('d1', 'A', '1.0', 'D-1.0+C-1.0+B-1.0'),
           F('d1', 'B', '1.0', 'C-1.0'), F('d1', 'C', '1.0'), F('d1', 'D', '1.0')]
DIAMOND_MENU = [('r', 'A', None, 0), ('r', 'B', None, 0), ('r', 'D', None, 0), ('r', 'C', '1.0', 0)]


def use_names(nss):
    """namespace alphabet observed by the driver and the model (module global, set per job)"""
    global NSS
    NSS = tuple(nss)



# Configurations that quick ALSO executes with one freshly forked process per history (and compares
# with the in-process-reset execution): one per election / dependency / mismatch / conflict mechanism.
XCHECK_QUICK = [
    ('env12', (F('d1', 'A', '1.9'), F('d2', 'A', '1.10'), F('d1', 'A', '1.x'))),            # 1.9 < 1.10, non-numeric ignored
    ('env12', (F('d1', 'A', '2'), F('d2', 'A', '2.0'), F('d2', 'A', '1.9'))),               # 2 == 2.0: earliest directory
    ('env12', (F('d1', 'A', '2.0', inner='Z-2.0'), F('d2', 'A', '1.10'))),                  # inner namespace mismatch
    ('env12', (F('d1', 'A', '2.0', 'B-1.9'), F('d1', 'B', '1.9', 'C-2.0'))),                # dependency of a dependency missing
    ('env12', (F('d1', 'B', '1.9', 'C-2.0'), F('d2', 'B', '1.9'), F('d1', 'C', '2.0'))),    # exact version: first directory
    ('pre12', (F('d1', 'A', '1.10'), F('d2', 'A', '1.10'), F('d3', 'A', '1.10'))),          # later prepend wins
    ('env12', (F('d1', 'A', '1.10'), F('d2', 'A', '1.10'), F('d3', 'A', '1.10'))),          # environment order
    ('env12', (F('d1', 'A', '2.0', 'B-1.9'), F('d2', 'B', '1.9'), F('d2', 'B', '2'))),      # dependency at recorded version, conflicts
    ('env12', (F('d1', 'A', '2.0', 'B-1.9'), F('d1', 'B', '1.9', 'C-2.0'), F('d2', 'C', '2.0'))),   # transitive closure
    ('pre12', (F('d1', 'A', '2'), F('d2', 'A', '2.0'), F('d3', 'A', '2.0', inner='A-3.0'))),        # inner version mismatch
    ('env12', (F('d2', 'A', '2', 'B-1.9+C-2.0'), F('d2', 'B', '2'), F('d2', 'C', '2.0'))),  # one of two dependencies fails
    ('pre12', (F('d2', 'A', '2.0', 'B-1.9'), F('d2', 'B', '1.9'), F('d3', 'B', '1.9', 'C-2.0'))),   # private require with deps
]


def op_text(op):
    k = op[0]
    if k == 'p':
        return 'prepend(%s)' % op[1]
    if k == 'r':
        return 'require(%s,%s%s)' % (op[1], op[2] or '-', ',LAZY' if op[3] else '')
    if k == 'q':
        return 'require_private(%s,%s,%s%s)' % (op[1], op[2], op[3] or '-', ',LAZY' if op[4] else '')
    if k == 'm':
        return 'load_typelib(mem:%s%s)' % (op[1], ',LAZY' if op[2] else '')
    return repr(op)


def op_class(op):
    """operation with the namespace / directory / version values abstracted (violation keys)"""
    k = op[0]
    if k == 'p':
        return 'prepend'
    if k == 'r':
        return 'require(%s%s)' % ('version' if op[2] else 'no version', ',LAZY' if op[3] else '')
    if k == 'q':
        return 'require_private(%s%s)' % ('version' if op[3] else 'no version', ',LAZY' if op[4] else '')
    return 'load_typelib(memory%s)' % (',LAZY' if op[2] else '')


_INST = re.compile(r'(d[123]/)?\b[A-Z][A-Za-z]*-[0-9]+(\.[0-9x]+)?(\.typelib)?')


def reason_class(reason):
    return _INST.sub('<file>', reason.split(' (')[0])[:80]


_CLEAN = re.compile(r'^[A-Za-z0-9._<>/+ (),-]*$')


def clean(x):
    """strings read back from freed memory are not stable: keep keys printable and deterministic"""
    if isinstance(x, (list, tuple, set, frozenset)):
        return [clean(y) for y in (sorted(x) if isinstance(x, (set, frozenset)) else x)]
    x = str(x)
    return x if _CLEAN.match(x) else '<garbage>'


# ------------------------------------------------------------------- contents ---
Content = collections.namedtuple('Content', 'ns ver deps corrupt')
_CONTENT = {}


# entries that cannot be mapped at all: a dangling symbolic link, a directory named like the file.  The model
# treats them as absent: they are skipped and never hide a loadable file of the same version later in the path.
UNMAPPABLE = ('dangling', 'dir')


def content(key):
    c = _CONTENT.get(key)
    if c is None:
        if key == 'corrupt' or key in UNMAPPABLE:
            c = Content(None, None, (), True)
        else:
            head, _, deps = key.partition('>')
            ns, _, ver = head.partition('-')
            dl = tuple(tuple(d.split('-', 1)) for d in deps.split('+')) if deps else ()
            c = Content(ns, ver, dl, False)
        _CONTENT[key] = c
    return c


def all_content_keys():
    keys = set(f[3] for f in WIDE + CORE + WIDE_THOROUGH_EXTRA + SUBSTR + ELECT + DIAMOND)
    keys.update(op[1] for op in MENU_BFS + SUBSTR_MENU if op[0] == 'm')
    keys.difference_update(UNMAPPABLE)
    return sorted(keys)


def build_pool(b):
    """Compile every content key once per build: <builddir>/c17pool-<hash>/<key>.typelib"""
    keys = all_content_keys()
    tag = hashlib.sha1(('v7|' + '|'.join(keys)).encode()).hexdigest()[:10]
    pool = os.path.join(b.dir, 'c17pool-' + tag)
    if os.path.exists(os.path.join(pool, 'OK')):
        return pool
    tmp = pool + '.tmp%d' % os.getpid()
    shutil.rmtree(tmp, ignore_errors=True)
    girdir = os.path.join(tmp, 'gir')
    os.makedirs(girdir)
    # stub GIRs (no includes of their own) for everything that is included
    for key in keys:
        if key == 'corrupt':
            continue
        for dns, dver in content(key).deps:
            doc = girgen.Doc(dns, dver, [], c_prefix=dns, symbol_prefix=dns.lower())
            with open(os.path.join(girdir, '%s-%s.gir' % (dns, dver)), 'w') as f:
                f.write(doc.xml())

    def one(i_key):
        i, key = i_key
        out = os.path.join(tmp, key + '.typelib')
        if key == 'corrupt':
            with open(out, 'wb') as f:
                f.write(b'not a typelib at all ' * 3 + b'\0')
            return None
        c = content(key)
        wd = os.path.join(tmp, 'w%d' % i)
        os.makedirs(wd)
        doc = girgen.Doc(c.ns, c.ver, [], includes=list(c.deps), c_prefix=c.ns, symbol_prefix=c.ns.lower())
        rc, err, data = tools.compile_gir(b, doc.xml(), wd, name='%s-%s' % (c.ns, c.ver), includedirs=[girdir])
        if rc != 0 or not data:
            return 'g-ir-compiler failed on %s: %s' % (key, err.strip()[-300:])
        model, probs = typelib.decode(data)
        # (the recorded dependencies are NOT checked here: that every <include> is recorded, loaded and
        # listed is part of what the model comparison decides)
        if model is None or model.get('namespace') != c.ns or model.get('nsversion') != c.ver:
            return 'typelib for %s does not carry the expected header: %r %r' % (key, model and {
                k: model.get(k) for k in ('namespace', 'nsversion', 'dependencies')}, probs)
        with open(out, 'wb') as f:
            f.write(data)
        shutil.rmtree(wd, ignore_errors=True)
        return None

    with ThreadPoolExecutor(NCPU) as ex:
        errs = [e for e in ex.map(one, list(enumerate(keys))) if e]
    if errs:
        shutil.rmtree(tmp, ignore_errors=True)
        raise HarnessBroken('cannot build the typelib pool: ' + errs[0])
    shutil.rmtree(girdir, ignore_errors=True)
    open(os.path.join(tmp, 'OK'), 'w').close()
    try:
        os.rename(tmp, pool)
    except OSError:
        shutil.rmtree(tmp, ignore_errors=True)
    return pool


# ---------------------------------------------------------------------- model ---
_NUM = re.compile(r'^(\d+)(?:\.(\d+))?$')


def numeric(v):
    """'numeric major.minor order': (major, minor) or None for strings that are not numbers"""
    m = _NUM.match(v)
    if not m:
        return None
    return (int(m.group(1)), int(m.group(2) or 0))


def agree(requested, loaded):
    """'yes' / 'no': versions are strings (they name files <ns>-<version>.typelib); a different string of an
    already loaded namespace does not agree, also when it is a prefix (1.1 / 1.10) or numerically equal (2 / 2.0)"""
    if requested is None or requested == loaded:
        return 'yes'
    return 'no'


Entry = collections.namedtuple('Entry', 'ver where lazy deps')       # where = (dir, filename) | BUILTIN
State = collections.namedtuple('State', 'prepends loaded')           # loaded: sorted tuple of (ns, Entry)
Outcome = collections.namedtuple('Outcome', 'kind codes reason')     # kind: ok | err | unspec
Step = collections.namedtuple('Step', 'outcome state stop mask ret lazy')


def OK(reason=''):
    return Outcome('ok', None, reason)


def ERR(codes, reason):
    return Outcome('err', codes, reason)


def UNSPEC(reason):
    return Outcome('unspec', None, reason)


AMBIG = 'ambiguous'


class Config(object):
    def __init__(self, setup, files):
        self.setup = setup
        self.env = SETUPS[setup]['env']
        self.pre = SETUPS[setup]['pre']
        self.files = tuple(files)
        self.at = {}
        self.bydir = {d: [] for d in DIRS}
        slots = set()
        for d, ns, ver, key in files:
            if (d, ns, ver) in slots:
                raise ValueError('two files in one slot')
            slots.add((d, ns, ver))
            if key in UNMAPPABLE:
                continue
            self.at[(d, ns, ver)] = key
            self.bydir[d].append((ns, ver, key))

    def as_json(self):
        return {'setup': self.setup, 'files': [list(f) for f in self.files]}

    def initial(self):
        return State(norm_prepends(self.pre), ())


def norm_prepends(pp):
    """a later prepend of the same directory shadows the earlier one"""
    out = []
    for d in pp:
        if d in out:
            out.remove(d)
        out.append(d)
    return tuple(out)


class Model(object):
    """One operation on one state under one reading of 'prepended vs environment' precedence.

    Rules, each taken from the property statement:
      * explicit version: the file <ns>-<version>.typelib of the FIRST search-path directory having it;
        none -> TYPELIB_NOT_FOUND.
      * no version: among the files <ns>-<v>.typelib with numeric v on the search path the highest
        (major, minor); among numerically equal ones the earliest directory (two such files in the
        SAME directory, '2' and '2.0': UNSPECIFIED).
      * search path: prepended directories most recent first; environment directories in order.
      * contents naming another namespace / another version than the file name: refused.
      * every recorded dependency is required at its recorded version (ordinary search path) before
        the namespace counts as loaded; a failing dependency fails the operation.
      * already loaded: same or unspecified version -> ok, nothing changes; other version ->
        NAMESPACE_VERSION_CONFLICT, nothing changes.
      * load_typelib (memory): same rules with the namespace/version found inside; path '<builtin>'.
    """

    def __init__(self, cfg, state, order):
        self.cfg = cfg
        self.loaded = dict(state.loaded)
        self.before = dict(state.loaded)
        self.saw_lazy = False       # the operation met a namespace that is only lazily loaded
        pp = tuple(reversed(state.prepends))
        self.gpath = pp + cfg.env if order == 0 else cfg.env + pp

    # -- election -----------------------------------------------------------
    def elect(self, ns, ver, path):
        cfg = self.cfg
        if ver is not None:
            for d in path:
                key = cfg.at.get((d, ns, ver))
                if key is not None:
                    return (d, ver, key)
            return None
        cands = []
        seen = set()
        for i, d in enumerate(path):
            for fns, fver, key in cfg.bydir.get(d, ()):
                if fns != ns or fver in seen:
                    continue
                n = numeric(fver)
                if n is None:
                    continue
                seen.add(fver)
                cands.append((n, i, d, fver, key))
        if not cands:
            return None
        best = max(c[0] for c in cands)
        top = [c for c in cands if c[0] == best]
        first = min(c[1] for c in top)
        top = [c for c in top if c[1] == first]
        if len(top) > 1:
            return AMBIG
        return top[0][2:]

    # -- require ------------------------------------------------------------
    def require(self, ns, ver, lazy, path, priv=None):
        e = self.loaded.get(ns)
        if e is not None:
            ag = agree(ver, e.ver)
            self.saw_lazy = self.saw_lazy or e.lazy
            if e.lazy and not lazy:
                # statement: an already loaded namespace is returned when the versions agree
                if ag == 'no':
                    return ERR({CONFLICT}, 'namespace lazily loaded at another version')
                if ag == 'unspec':
                    return UNSPEC('2 vs 2.0')
                f = self.elect(ns, ver, path)
                if f is None or f is AMBIG or e.where == BUILTIN or (f[0], '%s-%s.typelib' % (ns, f[1])) != e.where:
                    return UNSPEC('lazily loaded namespace required again: keeping it or electing afresh differ')
                o = self.load_deps(e.deps, priv)
                if o.kind != 'ok':
                    return o
                self.loaded[ns] = e._replace(lazy=False)
                return OK('lazily loaded namespace required again, versions agree')
            if ag == 'yes':
                return OK('already loaded, versions agree')
            if ag == 'unspec':
                return UNSPEC('2 vs 2.0')
            return ERR({CONFLICT}, 'namespace already loaded at another version')
        f = self.elect(ns, ver, path)
        if f is None:
            return ERR({NOT_FOUND}, 'no %s on the search path' % ('file %s-%s.typelib' % (ns, ver) if ver else 'numerically versioned file of the namespace'))
        if f is AMBIG:
            return UNSPEC('two numerically equal versions in the same directory')
        d, fver, key = f
        c = content(key)
        if c.corrupt:
            return UNSPEC('elected file is not a typelib')
        if c.ns != ns:
            return ERR({MISMATCH}, 'elected file contains another namespace than its file name')
        if c.ver != fver:
            return ERR({MISMATCH, CONFLICT}, 'elected file contains another version than its file name')
        if not lazy:
            o = self.load_deps(c.deps, priv)
            if o.kind != 'ok':
                return o
        self.loaded[ns] = Entry(c.ver, (d, '%s-%s.typelib' % (ns, fver)), bool(lazy), c.deps)
        return OK('loaded %s/%s-%s.typelib' % (d, ns, fver))

    def load_deps(self, deps, priv):
        # the order in which the dependencies are tried is not fixed (it only matters when one of
        # them fails, see apply); the canonical choice is the reverse of the <include> order
        for dns, dver in reversed(deps):
            de = self.loaded.get(dns)
            if priv is not None and (de is None or de.lazy) and any(f[0] == dns for f in self.cfg.bydir.get(priv, ())):
                return UNSPEC('dependency of a privately required typelib also present in the private directory')
            o = self.require(dns, dver, False, self.gpath)
            if o.kind == 'unspec':
                return o
            if o.kind == 'err':
                return ERR(None, 'dependency %s-%s cannot be loaded (%s)' % (dns, dver, o.reason))
        return OK()

    def load_memory(self, key, lazy):
        c = content(key)
        e = self.loaded.get(c.ns)
        if e is not None:
            self.saw_lazy = self.saw_lazy or e.lazy
            if e.lazy and not lazy:
                return UNSPEC('lazily loaded namespace loaded again from memory')
            ag = agree(c.ver, e.ver)
            if ag == 'yes':
                return OK('already loaded, versions agree')
            if ag == 'unspec':
                return UNSPEC('2 vs 2.0')
            return ERR({CONFLICT}, 'namespace already loaded at another version')
        if not lazy:
            o = self.load_deps(c.deps, None)
            if o.kind != 'ok':
                return o
        self.loaded[c.ns] = Entry(c.ver, BUILTIN, bool(lazy), c.deps)
        return OK('loaded from memory')

    def apply(self, state, op):
        k = op[0]
        ret = None
        if k == 'p':
            return Step(OK('prepend'), State(norm_prepends(state.prepends + (op[1],)), state.loaded), False, frozenset(), None, False)
        if k == 'r':
            o = self.require(op[1], op[2], op[3], self.gpath)
            ret = op[1]
        elif k == 'q':
            o = self.require(op[2], op[3], op[4], (op[1],), priv=op[1])
            ret = op[2]
        elif k == 'm':
            o = self.load_memory(op[1], op[2])
            ret = content(op[1]).ns
        else:
            raise ValueError(op)
        if o.kind == 'unspec':
            return Step(o, None, True, frozenset(), ret, self.saw_lazy)
        if o.kind == 'err':
            # what a failed dependency load leaves behind is not fixed: canonical choice = the
            # dependencies loaded so far stay; the requested namespace itself is not loaded
            mask = frozenset()
            if o.codes is None:
                mask = frozenset(ns for ns in NSS if ns != ret and (ns not in self.before or self.before[ns].lazy))
            return Step(o, State(state.prepends, tuple(sorted(self.loaded.items()))), False, mask, ret, self.saw_lazy)
        return Step(o, State(state.prepends, tuple(sorted(self.loaded.items()))), False, frozenset(), ret, self.saw_lazy)


_STEP_CACHE = {}


def step(cfg, state, op):
    """Both readings of the relative precedence of GI_TYPELIB_PATH and prepended directories; the
    statement fixes only 'later prepends before earlier ones' and 'environment directories in order'."""
    ck = (id(cfg), state, op)
    r = _STEP_CACHE.get(ck)
    if r is not None:
        return r
    r0 = Model(cfg, state, 0).apply(state, op)
    if cfg.env and state.prepends and op[0] != 'p':
        r1 = Model(cfg, state, 1).apply(state, op)
        if r0 != r1:
            r0 = Step(UNSPEC('outcome depends on the relative precedence of GI_TYPELIB_PATH and prepended directories'),
                      None, True, frozenset(), r0.ret, r0.lazy)
    _STEP_CACHE[ck] = r0
    return r0


def expected_obs(cfg, state, root):
    """-> (loaded list, {ns: dict}) ; values None = UNSPECIFIED"""
    loaded = dict(state.loaded)
    dirs = []
    for d in tuple(state.prepends) + cfg.env:
        if d not in dirs:
            dirs.append(d)
    out = {}
    for ns in NSS:
        e = loaded.get(ns)
        avail, nonnum = set(), set()
        for d in dirs:
            for fns, fver, key in cfg.bydir.get(d, ()):
                if fns == ns:
                    (avail if numeric(fver) is not None else nonnum).add(fver)
        o = {'reg': 1 if e else 0}
        if e:
            o['ver'] = e.ver
            o['path'] = BUILTIN if e.where == BUILTIN else '%s/%s/%s' % (root, e.where[0], e.where[1])
            o['imm'] = sorted('%s-%s' % d for d in e.deps)
            trans, ok, todo, seen = set(), True, [ns], set()
            while todo:
                x = todo.pop()
                if x in seen:
                    continue
                seen.add(x)
                xe = loaded.get(x)
                if xe is None:
                    ok = False
                    continue
                for dns, dver in xe.deps:
                    trans.add('%s-%s' % (dns, dver))
                    todo.append(dns)
            o['trans'] = sorted(trans) if ok else None
            avail.add(e.ver)
            nonnum.discard(e.ver)
        else:
            o['ver'] = '-'
            o['path'] = '-'
            o['imm'] = '-'
            o['trans'] = '-'
        o['enum'] = sorted(avail)
        o['enum_opt'] = nonnum
        isreg, dont = [], set()
        if e:
            for v in PROBE:
                a = agree(v, e.ver)
                if a == 'yes':
                    isreg.append(v)
                elif a == 'unspec':
                    dont.add(v)
        o['isreg'] = isreg
        o['isreg_opt'] = dont
        out[ns] = o
    return sorted(loaded), out


def render_obs(exp):
    """expected observation in the driver's text format (only when nothing in it is UNSPECIFIED)"""
    loaded, per = exp
    lines = ['L loaded=%s dup=0' % ','.join(loaded)]
    for ns in NSS:
        o = per[ns]
        if o['trans'] is None or o['enum_opt'] or o['isreg_opt']:
            return None

        def lst(x):
            return x if isinstance(x, str) else ','.join(x)
        lines.append('N %s reg=%d ver=%s path=%s imm=%s trans=%s enum=%s edup=0 isreg=%s crit=0' % (
            ns, o['reg'], o['ver'], o['path'], lst(o['imm']), lst(o['trans']), lst(o['enum']), lst(o['isreg'])))
    return '\n'.join(lines)


_N_RE = re.compile(r'^N (\S+) reg=(\d) ver=(.*?) path=(.*?) imm=(.*?) trans=(.*?) enum=(.*?) edup=(\d+) isreg=(.*?) crit=(\d+)$')


def parse_obs(text):
    lines = text.split('\n')
    m = re.match(r'^L loaded=(.*) dup=(\d+)$', lines[0]) if lines and lines[0].startswith('L ') else None
    if not m:
        return None
    loaded = [x for x in m.group(1).split(',') if x]
    per = {}
    for l in lines[1:]:
        mm = _N_RE.match(l)
        if not mm:
            return None
        ns, reg, ver, path, imm, trans, enum, edup, isreg, crit = mm.groups()

        def lst(x):
            return '-' if x == '-' else [y for y in x.split(',') if y]
        per[ns] = {'reg': int(reg), 'ver': ver, 'path': path, 'imm': lst(imm), 'trans': lst(trans), 'enum': lst(enum),
                   'isreg': lst(isreg), 'crit': int(crit)}
    return loaded, int(m.group(2)), per


def diff_obs(exp, got_text, mask):
    """-> (list of (field, expected, observed, class) MUST differences, masked_deviates).  `class` is a
    short description without instance values (used in violation keys)."""
    got = parse_obs(got_text)
    if got is None:
        return [('observation', 'parsable observation', got_text[:200], 'unparsable observation')], False
    eloaded, eper = exp
    gloaded, gdup, gper = got
    diffs = []
    dev = False
    el, gl = [x for x in eloaded if x not in mask], [x for x in gloaded if x not in mask]
    if el != gl:
        miss, extra = [x for x in el if x not in gl], clean([x for x in gl if x not in el])
        diffs.append(('loaded namespaces', ','.join(eloaded), ','.join(clean(gloaded)),
                      'loaded namespaces: %s%s' % ('a loaded namespace is not reported' if miss else '',
                                                   (' unexpected ' + ','.join(sorted(set(extra)))) if extra else '')))
    if gdup:
        diffs.append(('loaded namespaces', 'each namespace once', '%d duplicates' % gdup, 'loaded namespaces: duplicates'))
    if [x for x in eloaded if x in mask] != [x for x in gloaded if x in mask]:
        dev = True
    for ns in NSS:
        e, g = eper[ns], gper.get(ns)
        if g is None:
            diffs.append((ns, 'observation', 'missing', 'namespace observation missing'))
            continue
        d = []
        for f, what in (('reg', 'is_registered(ns,NULL)'), ('ver', 'version'), ('path', 'typelib path'),
                        ('imm', 'immediate dependencies'), ('trans', 'transitive dependencies')):
            if e[f] is None:
                continue
            if e[f] != g[f]:
                d.append(('%s.%s' % (ns, what), e[f], clean(g[f]), 'wrong ' + what))
        ge = set(g['enum']) if g['enum'] != '-' else set()
        if not (set(e['enum']) <= ge <= set(e['enum']) | e['enum_opt']):
            if e['reg'] and e['ver'] not in ge:
                cls = 'enumerate_versions lacks the loaded version'
            elif set(e['enum']) - ge:
                cls = 'enumerate_versions lacks an available version'
            else:
                cls = 'enumerate_versions reports a version that is neither loaded nor available'
            d.append(('%s.enumerate_versions' % ns, e['enum'], clean(g['enum']), cls))
        gi = set(g['isreg']) - e['isreg_opt']
        if gi != set(e['isreg']):
            d.append(('%s.is_registered(ns,version)' % ns, e['isreg'], clean(g['isreg']), 'wrong is_registered(ns,version)'))
        if g['crit'] and e['trans'] is not None:
            d.append(('%s.queries' % ns, 'no critical', '%d criticals' % g['crit'], 'query logged a critical'))
        if ns in mask:
            if d:
                dev = True
        else:
            diffs.extend(d)
    return diffs, dev


def result_text(o, ret):
    if o.kind == 'ok':
        return 'ok'
    if o.kind == 'err':
        if o.codes is None:
            return 'error (any code)'
        return 'error ' + '/'.join(CODE_NAMES[c] for c in sorted(o.codes))
    return 'unspecified'


def got_result_text(line):
    p = line.split()
    if len(p) >= 4 and p[1] == 'err':
        try:
            return 'error %s' % CODE_NAMES.get(int(p[3]), p[3]) if p[2] == DOMAIN else 'error %s %s' % (p[2], p[3])
        except ValueError:
            return line
    if len(p) >= 2 and p[1] == 'ok':
        return 'ok' + (' (returned %s)' % p[2] if len(p) > 2 else '')
    return line


def result_matches(o, ret, line):
    p = line.split()
    if o.kind == 'ok':
        if len(p) < 2 or p[1] != 'ok':
            return False
        if ret is None:
            return len(p) == 2
        return len(p) == 3 and p[2] == ret
    if o.kind == 'err':
        if len(p) != 4 or p[1] != 'err':
            return False
        if o.codes is None:
            return True
        return p[2] == DOMAIN and p[3].isdigit() and int(p[3]) in o.codes
    return True


# ----------------------------------------------------------------- execution ---
class Runner(object):
    """Materialises configurations under a work directory and runs histories on the driver."""

    def __init__(self, b, pool, tag):
        self.b = b
        self.drv = b.driver('drv_repo')
        self.pool = pool
        self.wd = tools.workdir(tag)
        self.n = 0
        self.blobs = {}
        self.fallbacks = 0
        self.last_mode = None
        self.last_stderr = ''

    def blob(self, key):
        d = self.blobs.get(key)
        if d is None:
            with open(os.path.join(self.pool, key + '.typelib'), 'rb') as f:
                d = self.blobs[key] = f.read()
        return d

    def materialise(self, cfg):
        self.n += 1
        root = os.path.join(self.wd, 'c%d' % self.n)
        for d in DIRS:
            os.makedirs(os.path.join(root, d))
        for d, ns, ver, key in cfg.files:
            path = os.path.join(root, d, '%s-%s.typelib' % (ns, ver))
            if key == 'dangling':
                os.symlink('/nonexistent/c17-dangling.typelib', path)
            elif key == 'dir':
                os.mkdir(path)
            else:
                with open(path, 'wb') as f:
                    f.write(self.blob(key))
        return root

    def script(self, cfg, root, histories):
        out = ['ns ' + ' '.join(NSS), 'vers ' + ' '.join(PROBE)]
        mems = sorted(set(op[1] for h in histories for op in h if op[0] == 'm'))
        for k in mems:
            out.append('mem %s %s' % (k, os.path.join(self.pool, k + '.typelib')))
        pre = ['p %s/%s' % (root, d) for d in cfg.pre]
        for i, h in enumerate(histories):
            out.append('H %d' % i)
            out.extend(pre)
            # the observation is requested after the last operation (every edge / sequence prefix is the
            # last step of its own history) and after interior steps whose outcome leaves part of the
            # state open in the model (failed dependency load), where it is needed to go on comparing
            st = cfg.initial()
            for j, op in enumerate(h):
                k = op[0]
                if k == 'p':
                    out.append('p %s/%s' % (root, op[1]))
                elif k == 'r':
                    out.append('r %s %s %d' % (op[1], op[2] or '-', op[3]))
                elif k == 'q':
                    out.append('q %s/%s %s %s %d' % (root, op[1], op[2], op[3] or '-', op[4]))
                elif k == 'm':
                    out.append('m %s %d' % (op[1], op[2]))
                if j == len(h) - 1:
                    out.append('O')
                elif st is not None:
                    r = step(cfg, st, op)
                    if r.mask:
                        out.append('O')
                    st = None if r.stop else r.state
            out.append('E')
        return '\n'.join(out) + '\n'

    def run(self, cfg, root, histories, mode='reset'):
        """-> list (one per history) of (steps, status) with steps = [(result line, crit, obs text)],
        setup steps removed.  mode 'fork': one freshly forked child per history; mode 'reset': all
        histories in one driver process that re-creates the default repository and cuts the search
        path back before each history (see drv_repo.c).  A reset-mode batch in which the driver
        dies (a crash takes the whole batch down) is re-run in fork mode, which isolates the history."""
        env = self.b.env()
        env.pop('G_DEBUG', None)
        env['DRV_REPO_JOBS'] = '2'
        if cfg.env:
            env['GI_TYPELIB_PATH'] = ':'.join('%s/%s' % (root, d) for d in cfg.env)
        body = self.script(cfg, root, histories)
        p = subprocess.run([self.drv], input=('mode %s\n' % mode + body).encode(), env=env,
                           stdout=subprocess.PIPE, stderr=subprocess.PIPE)
        self.last_mode = mode
        if p.returncode != 0 and mode == 'reset':
            self.fallbacks += 1
            self.last_mode = 'fork'
            p = subprocess.run([self.drv], input=('mode fork\n' + body).encode(), env=env,
                               stdout=subprocess.PIPE, stderr=subprocess.PIPE)
        if p.returncode != 0:
            raise HarnessBroken('drv_repo exit %d: %s' % (p.returncode, p.stderr.decode('utf-8', 'replace')[-300:]))
        text = p.stdout.decode('utf-8', 'replace')
        self.last_stderr = p.stderr.decode('utf-8', 'replace')
        res = []
        npre = len(cfg.pre)
        for block in ('\n' + text).split('\nH ')[1:]:
            head, _, rest = block.partition('\n')
            body, sep, tail = ('\n' + rest).rpartition('\nX ')
            if not sep:
                raise HarnessBroken('driver output truncated: %r' % block[-200:])
            status = tail.strip().split(' ', 1)[1]
            steps = []
            for chunk in body.split('\n> ')[1:]:
                lines = chunk.rstrip('\n').split('\n')
                resline = lines[1] if len(lines) > 1 else '= (none)'
                crit = lines[2] if len(lines) > 2 else 'C ?'
                steps.append((resline, crit, '\n'.join(lines[3:])))
            res.append((steps[npre:], status))
        if len(res) != len(histories):
            raise HarnessBroken('driver returned %d transcripts for %d histories' % (len(res), len(histories)))
        return res

    def cleanup_cfg(self, root):
        shutil.rmtree(root, ignore_errors=True)

    def close(self):
        tools.cleanup(self.wd)


def short(root, x):
    if isinstance(x, (list, tuple, set)):
        return ','.join(short(root, y) for y in x) or '(none)'
    return str(x).replace(root + '/', '')


def _printable(step_text):
    """namespace keys read back from freed memory differ from run to run; such transcripts are
    reported through the model comparison, not through the determinism check"""
    return all(31 < ord(ch) < 127 or ch == '\n' for part in step_text for ch in part)


class Checker(object):
    """Compares transcripts of one configuration with the model."""

    def __init__(self, cfg, root, part):
        self.cfg = cfg
        self.root = root
        self.part = part
        self.obs_cache = {}       # state -> (exp, rendered)
        self.cmp_cache = {}       # (state, mask, obs text) -> (diffs, dev)
        self.prefix = {}          # ops prefix -> (transcript of its last step, verdict)
        self.asan = False
        self.mode = 'fork'
        self.stderr = ''          # driver stderr of the whole batch (sanitizer reports, assertion messages)

    def exp_obs(self, state):
        r = self.obs_cache.get(state)
        if r is None:
            exp = expected_obs(self.cfg, state, self.root)
            r = self.obs_cache[state] = (exp, render_obs(exp))
        return r

    def violation(self, hist, i, key, desc, expected, observed):
        cfg = self.cfg
        seen = self.part.__dict__.setdefault('_c17_keys', set())
        if key in seen:            # one replayable case per key and worker is enough (core keeps one per key)
            return
        seen.add(key)
        hist = hist[:i + 1]
        case = {'config': cfg.as_json(), 'ops': [list(o) for o in hist], 'step': i, 'asan': self.asan, 'mode': self.mode, 'nss': list(NSS),
                'expected': expected, 'observed': observed}
        self.part.violation(key, '%s | setup=%s files=%s ops=%s' % (
            desc, cfg.setup, ' '.join('%s/%s-%s[%s]' % f for f in cfg.files) or '(none)',
            ' ; '.join(op_text(o) for o in hist)), case)

    def judge(self, hist, i, op, state, resline, crit, obs):
        """Compare step i (first time this prefix is seen).  -> ('ok', state') | ('stop',) | ('viol',)"""
        part, cfg = self.part, self.cfg
        st = step(cfg, state, op)
        o = st.outcome
        if o.kind == 'unspec':
            if obs:            # counted once, in the history that ends with this step
                part.add(unspecified=1)
                part.outcome(('unspec', o.reason[:40]))
            return ('stop',)
        oc, rc = op_class(op), reason_class(o.reason)
        # divergences while some namespace is only lazily loaded share a few keys (one defect family)
        lazy = st.lazy
        if not result_matches(o, st.ret, resline):
            exp_t, got_t = result_text(o, st.ret), clean(got_result_text(resline))
            got_c = got_t.split(' (')[0]
            self.violation(hist, i, ('lazy|expected %s|observed %s' % (exp_t, got_c)) if lazy else
                           'result|%s|%s|expected %s|observed %s' % (oc, rc, exp_t, got_c),
                           '%s: expected %s (%s), observed %s' % (op_text(op), exp_t, o.reason, got_t), exp_t, got_t)
            return ('viol',)
        if crit != 'C 0':
            self.violation(hist, i, 'critical|%s|%s' % (oc, rc), '%s logged a critical/warning (%s)' % (op_text(op), crit),
                           'no critical', crit)
            return ('viol',)
        if not obs:
            # interior step, not observed here (it is the observed last step of its own history)
            return ('stop',) if st.mask else ('ok', st.state)
        exp, rendered = self.exp_obs(st.state)
        if not (rendered is not None and rendered == obs):
            ck = (st.state, st.mask, obs)
            r = self.cmp_cache.get(ck)
            if r is None:
                r = self.cmp_cache[ck] = diff_obs(exp, obs, st.mask)
            diffs, dev = r
            if diffs:
                only_enum = all(d[0].endswith('.enumerate_versions') for d in diffs)
                f, e, g, cls = diffs[0] if only_enum else [d for d in diffs if not d[0].endswith('.enumerate_versions')][0]
                es, gs = short(self.root, e), short(self.root, g)
                self.violation(hist, i, 'query|%s' % cls if only_enum else
                               'lazy|reported state is not that of the loaded files' if lazy else
                               'state|%s|%s|%s' % (oc, rc, cls),
                               'after %s (%s): %s expected %s, observed %s' % (op_text(op), o.reason, f, es, gs), es, gs)
                # a divergence confined to enumerate_versions leaves model and implementation in
                # the same state: keep comparing the rest of the history
                if not only_enum:
                    return ('viol',)
            elif dev:
                part.add(unspecified=1)
                return ('stop',)
        part.add(traces_validated_against_impl=1)
        part.add(distinct_nontrivial=1)       # (configuration, history prefix) pairs are distinct by construction
        part.outcome((op[0], o.kind, tuple(sorted(o.codes)) if o.codes else None, len(st.state.loaded),
                      resline.split()[-1] if o.kind == 'err' else ''))
        return ('ok', st.state)

    def check(self, hist, transcript):
        """Compare one transcript with the model; reports at most one violation (the first divergence).
        Verdicts are remembered per history prefix: a prefix seen again must have produced the
        identical transcript (determinism, independence from what follows) and is not re-judged."""
        steps, status = transcript
        state = self.cfg.initial()
        live = True
        for i, op in enumerate(hist):
            if i >= len(steps):
                break
            pre = (hist[:i + 1], bool(steps[i][2]))
            rec = self.prefix.get(pre)
            if rec is not None:
                if rec[1][0] == 'viol':
                    return
                if rec[0] != steps[i] and _printable(rec[0]) and _printable(steps[i]):
                    self.violation(hist, i, 'nondeterministic|%s' % op_text(op),
                                   'the same history prefix produced two different transcripts',
                                   short(self.root, ' / '.join(rec[0])), short(self.root, ' / '.join(steps[i])))
                    return
                verdict = rec[1]
            else:
                verdict = self.judge(hist, i, op, state, *steps[i]) if live else ('stop',)
                self.prefix[pre] = (steps[i], verdict)
            if verdict[0] == 'viol':
                return
            if verdict[0] == 'stop':
                live = False
            else:
                state = verdict[1]
        if status != 'exit 0' or len(steps) < len(hist):
            i = min(len(steps), len(hist) - 1)
            lazy = any((op[0] in ('r', 'm') and op[-1]) or (op[0] == 'q' and op[4]) for op in hist[:i + 1])
            hint = [l.strip() for l in self.stderr.split('\n') if 'ERROR: AddressSanitizer' in l or 'runtime error' in l
                    or 'assertion failed' in l or 'ERROR:' in l]
            self.violation(hist, i, ('lazy|crash %s' % status) if lazy else 'crash|%s|%s' % (op_class(hist[i]), status),
                           'driver child died (%s) while executing %s%s' % (
                               status, op_text(hist[i]), (' [stderr of the batch: %s]' % hint[0][:160]) if hint else ''),
                           'exit 0', status)


# --------------------------------------------------------------- exploration ---
def placements(alphabet, maxfiles, minfiles=0):
    out = []
    for k in range(minfiles, maxfiles + 1):
        for combo in itertools.combinations(alphabet, k):
            slots = set((f[0], f[1], f[2]) for f in combo)
            if len(slots) == len(combo):
                out.append(combo)
    return out


def _perm_key(key, nperm):
    c = content(key)
    if c.corrupt:
        return key
    nkey = '%s-%s' % (nperm.get(c.ns, c.ns), c.ver)
    if c.deps:
        nkey += '>' + '+'.join('%s-%s' % (nperm.get(a, a), b) for a, b in c.deps)
    return nkey


def _perm_file(f, dperm, nperm):
    d, ns, ver, key = f
    return (dperm[d], nperm.get(ns, ns), ver, _perm_key(key, nperm))


def _perm_op(op, dperm, nperm):
    k = op[0]
    if k == 'p':
        return ('p', dperm[op[1]])
    if k == 'r':
        return ('r', nperm[op[1]], op[2], op[3])
    if k == 'q':
        return ('q', dperm[op[1]], nperm[op[2]], op[3], op[4])
    if k == 'm':
        return ('m', _perm_key(op[1], nperm), op[2])
    return op


def symmetry_group(setup, alphabet, menu):
    """Directory x namespace renamings that leave the setup, the file alphabet and the menu invariant.
    Configurations are canonicalised under this group (the model and the implementation treat
    names opaquely, so the images are the same experiment)."""
    s = SETUPS[setup]
    A, M = set(alphabet), set(menu)
    group = []
    for dp in itertools.permutations(DIRS):
        dperm = dict(zip(DIRS, dp))
        if tuple(dperm[d] for d in s['env']) != s['env'] or tuple(dperm[d] for d in s['pre']) != s['pre']:
            continue
        for np_ in itertools.permutations(NSS):
            nperm = dict(zip(NSS, np_))
            if set(_perm_file(f, dperm, nperm) for f in A) != A:
                continue
            if set(_perm_op(o, dperm, nperm) for o in M) != M:
                continue
            group.append((dperm, nperm))
    return group


def canonical_configs(setup, alphabet, menu, maxfiles, minfiles=0):
    group = symmetry_group(setup, alphabet, menu)
    index = {f: i for i, f in enumerate(alphabet)}
    seen = set()
    out = []
    total = 0
    for combo in placements(alphabet, maxfiles, minfiles):
        total += 1
        best = None
        for dperm, nperm in group:
            img = tuple(sorted(index[_perm_file(f, dperm, nperm)] for f in combo))
            if best is None or img < best:
                best = img
        if best in seen:
            continue
        seen.add(best)
        out.append(tuple(alphabet[i] for i in best))
    return out, total, len(group)


def bfs_histories(cfg, menu, depth):
    """Model BFS with state de-duplication.  -> (histories to run, #states, #edges).  Every edge
    (state, op) is the last step of exactly one history (the canonical path to the state, then
    the operation); the full observation is taken after that last step."""
    s0 = cfg.initial()
    seen = {s0}
    frontier = [(s0, ())]
    edges = []
    for _ in range(depth):
        nxt = []
        for s, h in frontier:
            for op in menu:
                st = step(cfg, s, op)
                edges.append(h + (op,))
                if st.stop or st.state is None:
                    continue
                if st.state not in seen:
                    seen.add(st.state)
                    nxt.append((st.state, h + (op,)))
        frontier = nxt
    return edges, len(seen), len(edges)


def _keep_alive(b):
    """vt/c/build.py removes build directories of other source trees that are older than two hours;
    a concurrent run against a scratch tree (VERIF_REPO=...) would delete ours mid-run."""
    try:
        os.utime(b.dir, None)
    except OSError:
        pass


def _work(chunk):
    part = Part()
    mode, asan, xmode, menu, depth, nss, cfgs = chunk
    use_names(nss)
    pool = build_pool(cbuild.build(False))
    b = cbuild.build(asan)
    rn = Runner(b, pool, 'c17')
    try:
        for setup, files in cfgs:
            _STEP_CACHE.clear()
            _keep_alive(b)
            cfg = Config(setup, files)
            root = rn.materialise(cfg)
            if mode == 'bfs':
                hists, nstates, nedges = bfs_histories(cfg, menu, depth)
            else:
                hists = [h for k in range(1, depth + 1) for h in itertools.product(menu, repeat=k)]
                nedges = len(hists)
                nstates = nedges + 1      # no de-duplication: every history is its own state
            ck = Checker(cfg, root, part)
            ck.asan = asan
            if xmode == 'both':
                # fresh forked process per history (authoritative) ...
                res = rn.run(cfg, root, hists, 'fork')
                ck.stderr, ck.mode = rn.last_stderr, 'fork'
                part.add(fork_histories=len(hists))
                # ... and the in-process reset used for the bulk of the exploration must agree with it
                res2 = rn.run(cfg, root, hists, 'reset')
                part.add(reset_histories=len(hists), evaluations=len(hists))
                if rn.last_mode == 'reset':
                    for h, t, t2 in zip(hists, res, res2):
                        if t != t2 and all(_printable(x) for x in t[0] + t2[0]):
                            ck.violation(h, len(h) - 1, 'mode|fresh process and in-process reset give different transcripts',
                                         'history executed in a freshly forked process and after an in-process reset of the '
                                         'default repository / search path produced different transcripts',
                                         short(root, repr(t))[:400], short(root, repr(t2))[:400])
                            break
                    part.add(crosschecked_histories=len(hists))
            else:
                res = rn.run(cfg, root, hists, 'reset')
                ck.stderr, ck.mode = rn.last_stderr, rn.last_mode
                part.add(**{('reset_histories' if rn.last_mode == 'reset' else 'fork_histories'): len(hists)})
            for h, t in zip(hists, res):
                ck.check(h, t)
            part.add(evaluations=len(hists), states=nstates, transitions=nedges)
            if len(part.samples) < 3 and cfg.files and hists:
                h = hists[(len(hists) * 2) // 3]
                part.sample({'setup': setup, 'files': ['%s/%s-%s.typelib[%s]' % f for f in files],
                             'ops': [op_text(o) for o in h],
                             'model': [step_trace(cfg, h)]})
            rn.cleanup_cfg(root)
        if rn.fallbacks:
            part.add(reset_batches_rerun_in_fork_mode=rn.fallbacks)
    finally:
        rn.close()
    return part.result()


def step_trace(cfg, hist):
    s = cfg.initial()
    out = []
    for op in hist:
        st = step(cfg, s, op)
        out.append('%s -> %s' % (op_text(op), result_text(st.outcome, st.ret)))
        if st.stop:
            break
        s = st.state
    return ' ; '.join(out)


def run(ctx):
    thorough = ctx.tier == 'thorough'
    b = cbuild.build(False)
    build_pool(b)
    b.driver('drv_repo')
    jobs = []
    bounds = {'namespaces': list(NSS), 'versions': list(VERS), 'directories': list(DIRS), 'setups': sorted(SETUPS),
              'menu': [op_text(o) for o in MENU]}
    # (label, exploration, asan, execution, alphabet | explicit configurations, (min files, max files), depth)
    # sized for the measured rate of this VM (about 5000 histories/s over all 16 cores, it saturates at ~8 workers)
    ABC = ('A', 'B', 'C')
    if not thorough:
        plan = [('bfs-wide2', 'bfs', False, 'reset', WIDE, (0, 2), 2, MENU_BFS, ABC),
                ('bfs-core3', 'bfs', False, 'reset', CORE, (3, 3), 2, MENU_BFS, ABC),
                ('bfs-substr', 'bfs', False, 'reset', SUBSTR, (0, 3), 2, SUBSTR_MENU, SUBSTR_NSS),
                ('bfs-elect', 'bfs', False, 'reset', ELECT, (0, 3), 2, ELECT_MENU, ('A',)),
                ('bfs-diamond', 'bfs', False, 'reset', DIAMOND, (0, 4), 2, DIAMOND_MENU, DIAMOND_NSS),
                ('xcheck', 'bfs', False, 'both', XCHECK_QUICK, None, 2, MENU_BFS, ABC)]
    else:
        cbuild.build(True).driver('drv_repo')
        plan = [('all-core3', 'all', False, 'reset', CORE, (0, 3), 3, MENU, ABC),
                ('bfs-wide3', 'bfs', False, 'reset', WIDE + WIDE_THOROUGH_EXTRA, (0, 3), 2, MENU_BFS, ABC),
                ('bfs-substr', 'bfs', False, 'reset', SUBSTR, (0, 4), 3, SUBSTR_MENU, SUBSTR_NSS),
                ('bfs-elect', 'bfs', False, 'reset', ELECT, (0, 4), 2, ELECT_MENU, ('A',)),
                ('bfs-diamond', 'bfs', False, 'reset', DIAMOND, (0, 4), 3, DIAMOND_MENU, DIAMOND_NSS),
                ('bfs-asan', 'bfs', True, 'reset', CORE, (0, 2), 2, MENU_BFS, ABC),
                ('xcheck', 'bfs', False, 'both', CORE, (0, 1), 2, MENU_BFS, ABC),
                ('xcheck-family', 'bfs', False, 'both', XCHECK_QUICK, None, 2, MENU_BFS, ABC)]
    stride = int(os.environ.get('VERIF_C17_STRIDE', '0') or 0)      # development aid only
    for label, mode, asan, xmode, alphabet, nfiles, depth, menu, nss in plan:
        use_names(nss)
        for setup in sorted(SETUPS):
            if nfiles is None:
                cfgs = [c for st, c in alphabet if st == setup]
                bounds['%s/%s' % (label, setup)] = {'configurations': len(cfgs), 'max_ops': depth, 'execution': xmode,
                                                    'state_dedup': True, 'menu_ops': len(menu)}
            else:
                cfgs, total, gsize = canonical_configs(setup, alphabet, menu, nfiles[1], nfiles[0])
                bounds['%s/%s' % (label, setup)] = {'file_alphabet': len(alphabet), 'files': '%d..%d' % nfiles, 'max_ops': depth,
                                                    'placements': total, 'canonical_configurations': len(cfgs),
                                                    'symmetry_group': gsize, 'state_dedup': mode == 'bfs',
                                                    'execution': xmode, 'menu_ops': len(menu), 'namespaces': list(nss)}
                if stride > 1:
                    cfgs = cfgs[::stride]
                    ctx.cap('VERIF_C17_STRIDE=%d: only every %d-th configuration' % (stride, stride))
            per = 2 if mode == 'all' else 1 if xmode == 'both' else 24
            for i in range(0, len(cfgs), per):
                jobs.append((mode, asan, xmode, menu, depth, nss, [(setup, c) for c in cfgs[i:i + per]]))
    use_names(ABC)
    bounds['menu_bfs'] = [op_text(o) for o in MENU_BFS]
    bounds['menu_substr'] = [op_text(o) for o in SUBSTR_MENU]
    bounds['menu_elect'] = [op_text(o) for o in ELECT_MENU]
    ctx.set(rule='configuration = setup x placement of files from a file alphabet (canonicalised under the renamings that '
                 'leave setup, alphabet and menu invariant; that group is trivial here). quick: model BFS with state '
                 'de-duplication to depth 2 over the %d-operation menu (+ require(A,1.1) in the BFS explorations), every edge replayed as the last step '
                 'of its own history, over (bfs-wide2) every placement of <= 2 files of the 25-file WIDE alphabet, (bfs-core3) '
                 'every placement of exactly 3 files of the 12-file CORE alphabet and (bfs-substr) every placement of <= 3 of 5 '
                 'files over the namespaces T, Ab, CAb (T includes Ab and CAb, both include orders; own 6-op menu) and (bfs-elect) '
                 'every placement of <= 3 (thorough <= 4) of the 14 files A-{0.100,1.99,1.100,1.150,2.0,10.0,1.1000} x {d1,d2} '
                 'plus d1/A-2.0 as dangling symlink / as directory and d1/AExtras-20.0, with a 4-op menu (version election with '
                 'multi-digit minors, unmappable entries, prefix-related namespace names) and (bfs-diamond) every placement of <= 4 '
                 'of 5 files over A,B,C,D where A includes B,C,D (both include orders) and B includes C (4-op menu). thorough: (all-core3) every operation sequence of '
                 'length 1..3 WITHOUT de-duplication over every placement of <= 3 CORE files (<= 4 files does not fit 10 minutes '
                 'at the measured ~5000 histories/s), (bfs-wide3) depth-2 BFS over every placement of <= 3 files of WIDE + 6 '
                 'more files, (bfs-asan) depth-2 BFS over <= 2 CORE files with the ASan+UBSan build. '
                 'Execution "reset": all histories of a configuration run in one drv_repo process that, before each history, '
                 'replaces the default repository by a new GIRepository object and cuts the search path back to what '
                 'init_globals produced (fork costs 1.3-4 ms on this VM and does not scale over cores). Execution "both" '
                 '(xcheck: the stated XCHECK_QUICK family of 12 configurations; in thorough also every placement of <= 1 CORE '
                 'file): every history ALSO runs in a freshly forked child (fork without exec); the fresh-process transcript is '
                 'the one compared with the model and the reset transcript must be identical to it. A reset batch whose driver '
                 'dies is re-run in fork mode. The full observation of all namespaces is taken after the last operation of '
                 'every history (and after interior steps whose model outcome leaves state open) and compared with the '
                 'reference model; interior steps are compared on result and criticals. transitions = model edges, '
                 'traces_validated = edges whose result and observation were compared as MUST, unspecified = edges the '
                 'statement does not fix (executed, crash-checked only). non-trivial = every MUST edge' % len(MENU),
            bounds=bounds)
    found = []
    # the fork-heavy cross-check jobs first (long poles); the seed rotates the rest
    jobs = [j for j in jobs if j[2] == 'both'] + rotate([j for j in jobs if j[2] != 'both'], ctx.seed)
    for r in pmap(_work, jobs):
        found.extend(r.pop('violations'))
        ctx.merge(r)
    # simplest first, independent of the dispatch order: fewest files, shortest history
    found.sort(key=lambda v: (len(v[2]['config']['files']), len(v[2]['ops']), v[0], repr(v[2])))
    for v in found:
        ctx.violation(*v)
    ctx.assumptions += [
        'glibshim headers declare the GLib ABI correctly; GOBJECT_INTROSPECTION_LIBDIR=/nonexistent/lib so only d1,d2,d3 matter',
        'dependency graphs are DAGs over A->B, A->C, B->C (the compiler cannot produce cycles from GIRs it can compile)',
        'UNSPECIFIED: relative precedence of GI_TYPELIB_PATH directories and prepended directories (the section '
        'documentation says the environment wins, g_irepository_prepend_search_path says "prepends"; the statement fixes '
        'neither) - an operation whose outcome differs between the two readings is not compared',
        'UNSPECIFIED: order and multiplicity of returned string lists (compared as sets); error code when a dependency '
        'fails; which dependencies stay loaded after a failed dependency load; NAMESPACE_MISMATCH vs '
        'NAMESPACE_VERSION_CONFLICT for an inner-version mismatch; election between 2 and 2.0 in one directory; corrupt files; non-numeric versions in enumerate_versions; transitive '
        'dependencies of a lazily loaded namespace; dependencies of a privately required typelib that also exist in the '
        'private directory; re-requiring a lazily loaded namespace when a fresh election would pick another file',
    ]
    if ctx.cov['traces_validated_against_impl'] < 1000 or len(ctx._outcomes) < 12:
        raise HarnessBroken('vacuous exploration: %d MUST edges, %d outcomes' % (
            ctx.cov['traces_validated_against_impl'], len(ctx._outcomes)))


def replay(ctx, case):
    use_names(case.get('nss') or ('A', 'B', 'C'))
    pool = build_pool(cbuild.build(False))
    b = cbuild.build(bool(case.get('asan')))
    rn = Runner(b, pool, 'c17r')
    part = Part()
    try:
        cfg = Config(case['config']['setup'], [tuple(f) for f in case['config']['files']])
        hist = tuple(tuple(o) for o in case['ops'])
        root = rn.materialise(cfg)
        res = rn.run(cfg, root, [hist], case.get('mode') or 'fork')
        print('execution: %s' % rn.last_mode)
        print('setup %s (GI_TYPELIB_PATH=%s; initial prepends %s)' % (cfg.setup, ':'.join(cfg.env) or '(unset)', list(cfg.pre)))
        for f in cfg.files:
            print('  file %s/%s-%s.typelib  contents: %s' % f)
        steps, status = res[0]
        s = cfg.initial()
        for i, op in enumerate(hist):
            print('op %d: %s' % (i, op_text(op)))
            if i < len(steps):
                print('   observed: %s %s' % (steps[i][0], steps[i][1]))
                for l in steps[i][2].split('\n'):
                    print('      ' + l.replace(root + '/', ''))
            if s is not None:
                st = step(cfg, s, op)
                print('   model:    %s   [%s]' % (result_text(st.outcome, st.ret), st.outcome.reason))
                s = None if st.stop else st.state
                if s is not None:
                    r = render_obs(expected_obs(cfg, s, root))
                    if r:
                        for l in r.split('\n'):
                            print('      ' + l.replace(root + '/', ''))
        print('child status:', status)
        ck = Checker(cfg, root, part)
        ck.stderr = rn.last_stderr
        ck.check(hist, res[0])
        if rn.last_stderr.strip():
            print('driver stderr:', rn.last_stderr.strip()[-600:])
        for key, desc, _ in part.violations:
            print('DIVERGENCE %s\n   %s' % (key, desc))
        return not part.violations
    finally:
        rn.close()
