"""C14 - every typelib entry can be found by name, GType name and error domain.

Generation-tree search (E1) over KEY SETS, on the C side.  Three explorers, all of them running code
rebuilt from /repo and all of them compared with the same reference model (set membership):

 (H) in-process: every non-empty subset of a 14-name alphabet is turned into a perfect-hash directory
     index by the real _gi_typelib_hash_builder_* functions, packed, and every probe string of the probe
     menu is looked up with _gi_typelib_hash_search followed by the caller's final strcmp exactly as
     g_typelib_get_dir_entry_by_name does (vt/c/drv_hash.c, mode `subsets`), for several srand seeds
     (cmph's BDZ chooses one of 15 hash functions with rand() % 15; thorough covers all 15 first draws).
 (T) real typelibs: subsets are rendered as GIR (constants, enumerations and bitfields with/without GType and error
     domain, records with/without GType), compiled by the rebuilt g-ir-compiler, and probed through
     g_typelib_get_dir_entry_by_name WITH the directory index and with the index section id patched to
     GI_SECTION_END (linear fallback), g_irepository_find_by_name, g_typelib_get_dir_entry_by_gtype_name
     / g_irepository_find_by_gtype (real GTypes registered under the probe names),
     g_typelib_get_dir_entry_by_error_domain / g_irepository_find_by_error_domain, with a second namespace
     holding the complementary key set loaded next to it.  Two of three paired cases make Test refer to types
     of Other whose (alphabet) names are absent from Test, so that non-local directory entries with those bare
     names follow the local ones (MUST stay absent on every path; includes 2-entry namespaces, which get no
     index).  Load sequences rotate: eager / G_IREPOSITORY_LOAD_FLAG_LAZY / lazy then eager, each preceded by
     repository-level probes of every key while nothing is loaded (disagreements seen while a namespace is only
     lazily registered are keyed typelib-lazy-*).
 (L) size ladder N in {1,2,3,255,256,257,4096[,16384,32768,65535]} with generated names: in-process
     (32-bit size arithmetic) and through the compiler + typelib prober.

Oracle (MUST): a probe is found iff it is in the key set; the entry found carries exactly that name
(GType name / error domain) and is the directory entry an independent reader finds under that name;
index, fallback and repository-level functions agree; a GIR with 1..65535 entries compiles.
UNSPECIFIED: the answer of g_typelib_matches_gtype_name_prefix (only an accelerator: find_by_gtype has a
prefix-blind second pass), whether cmph manages to build a hash at all (the compiler documents the
punt), layout details of the index section beyond "lies inside its buffer".
"""
import os
import struct

from vt import girgen
from vt.c import build as cbuild, tools
from vt.core import Part, pmap, chunked, rotate, HarnessBroken

LEVEL = 'model_checking'

# ------------------------------------------------------------------ alphabets ---
LONG = b'L' * 199
# a, b, ab, ba, aa, A, a_, a1, a 200-character name and its sibling differing in the last character, two
# names differing in the first character, one name that extends another (abc / ab), one non-ASCII name
HASH_ALPHA = [b'a', b'b', b'ab', b'ba', b'aa', b'A', b'a_', b'a1', LONG + b'x', LONG + b'y', b'xq', b'yq', b'abc',
              'né'.encode('utf-8')]
# typelib validation restricts directory names to [A-Za-z0-9_-]: the non-ASCII name is only a probe there
TL_ALPHA = HASH_ALPHA[:13] + [b'a-']
NONASCII = 'né'.encode('utf-8')
# GType names (registrable with GLib: >= 3 characters from [A-Za-z0-9_+-], first a letter or '_')
TLONG = b'T' + b'L' * 198
GTN = [b'TAa', b'TAb', b'TBa', b'TaA', b'TAA', b'tAa', b'TAa_', b'TAa1', TLONG + b'x', TLONG + b'y', b'XQq', b'YQq',
       b'TAbC', b'TA-']
# error domain strings
DOM = [b'a', b'b', b'ab', b'ba', b'aa', b'A', b'a-', b'a1', LONG + b'x', LONG + b'y', b'xq', b'yq', b'abc',
       'né-quark'.encode('utf-8')]
# every kind of registered type (RegisteredTypeBlob header: struct/boxed, union, enum, flags, object, interface) with a
# GType name, the kinds that may lack one also without, and a constant
KINDS = ['const', 'enum+gtype+domain', 'record+gtype', 'union+gtype', 'enum+domain', 'flags+gtype', 'object+gtype',
         'enum+gtype', 'record', 'interface+gtype', 'union', 'flags']
PREFIXES = ['T', 'TA', 'X,T', 'Zz']
NA = len(HASH_ALPHA)
assert len(TL_ALPHA) == len(GTN) == len(DOM) == NA == 14

BLOB = {'const': (9,), 'enum': (5,), 'flags': (6,), 'record': (3, 4), 'union': (11,), 'object': (7,), 'interface': (8,)}
LADDER_QUICK = [1, 2, 3, 255, 256, 257, 4096]
LADDER_THOROUGH = LADDER_QUICK + [16384, 32768, 65535]


def probes_for(alpha, extra=()):
    """every member; its proper prefixes (incl. the empty string); one-character extensions; one-character
    substitutions at every position.  Deterministic order (length, bytes)."""
    out = set()
    for m in alpha:
        out.add(m)
        for i in range(len(m)):
            out.add(m[:i])
            c = m[i:i + 1]
            out.add(m[:i] + (b'b' if c == b'a' else b'a') + m[i + 1:])
        for c in (b'a', b'_', b'Z'):
            out.add(m + c)
    out.update(extra)
    return sorted(out, key=lambda s: (len(s), s))


def gtype_registrable(s):
    if len(s) < 3:
        return False
    first = b'ABCDEFGHIJKLMNOPQRSTUVWXYZabcdefghijklmnopqrstuvwxyz_'
    rest = first + b'0123456789-+'
    return s[0] in first and all(c in rest for c in s[1:])


def hx(b):
    return b.hex()


def unhx(s):
    return b'' if s == '.' else bytes.fromhex(s)


def show(b):
    t = b.decode('utf-8', 'replace')
    return t if len(t) <= 24 else '%s..%s(%d)' % (t[:6], t[-3:], len(t))


def sh(x):
    """driver result tuple with its byte strings shortened for messages"""
    if isinstance(x, tuple):
        return tuple(show(v) if isinstance(v, bytes) else v for v in x)
    return x


def bits(mask):
    return [k for k in range(NA) if mask >> k & 1]


# ------------------------------------------------------------ (H) in-process ---
def write_spec(path, names, probes):
    with open(path, 'w') as f:
        for n in names:
            f.write('A:%s\n' % hx(n))
        for p in probes:
            f.write('P:%s\n' % hx(p))


def parse_S(line):
    t = line.split()
    r = {'tag': t[1], 'seed': int(t[2]), 'found': {}, 'oob': {}}
    for x in t[3:]:
        if ':' in x:
            p, i = x[1:].split(':')
            r['found' if x[0] == 'f' else 'oob'][int(p)] = int(i)
        else:
            k, v = x.split('=')
            r[k] = int(v)
    return r


def judge_set(r, sel, probes, pindex):
    """-> list of (kind, text, probe bytes or None) for one packed key set; sel in directory order"""
    if not r.get('b'):
        return None
    out = []
    if not r.get('fit'):
        out.append(('layout', 'index table [dirmap_offset=%d, +2*%d) does not fit the %d bytes reported by '
                    '_gi_typelib_hash_builder_get_buffer_size' % (r.get('dm', -1), len(sel), r.get('size', -1)), None))
    for p, i in sorted(r['oob'].items()):
        out.append(('oob', '_gi_typelib_hash_search(%r) returned %d >= n_entries=%d: g_typelib_get_dir_entry would '
                    'address beyond the directory' % (show(probes[p]), i, len(sel)), probes[p]))
    exp = {}
    for i, m in enumerate(sel):
        exp[pindex[m]] = i
    for p in sorted(set(exp) | set(r['found'])):
        if p in r['oob']:
            continue
        e, g = exp.get(p), r['found'].get(p)
        if e != g:
            out.append(('miss' if g is None else 'wrong',
                        'probe %r: expected directory index %r, indexed lookup gave %r' % (show(probes[p]), e, g),
                        probes[p]))
    if r.get('np') != len(probes):
        raise HarnessBroken('driver executed %r probes, expected %d' % (r.get('np'), len(probes)))
    return out


def covering_seeds():
    """cmph's BDZ picks its hash function with rand() % 15: srand values whose first draw covers all 15
    (glibc rand(); computed, not assumed).  Simplest-first: srand(1) is what g-ir-compiler runs with."""
    try:
        import ctypes
        libc = ctypes.CDLL('libc.so.6')
        first = {}
        for sd in range(1, 2000):
            libc.srand(sd)
            first.setdefault(libc.rand() % 15, sd)
        if len(first) == 15:
            return [1] + sorted(v for v in first.values() if v != 1)
    except Exception:
        pass
    return list(range(1, 16))


def _run_subsets(b, drv, spec, lo, hi, seeds):
    rc, out, err = tools.run(b, [drv, 'subsets', spec, str(lo), str(hi), ','.join(map(str, seeds))], timeout=900)
    return rc, out.decode('ascii', 'replace').splitlines(), err


def _work_hash(chunk):
    tier, asan, seeds, ranges = chunk
    part = Part()
    b = cbuild.build(asan)
    drv = b.driver('drv_hash')
    probes = probes_for(HASH_ALPHA)
    pindex = {p: i for i, p in enumerate(probes)}
    wd = tools.workdir('c14h')
    try:
        spec = os.path.join(wd, 'spec')
        write_spec(spec, HASH_ALPHA, probes)
        for lo, hi in ranges:
            rc, lines, err = _run_subsets(b, drv, spec, lo, hi, seeds)
            todo = [(lo, hi, rc, lines, err)]
            if rc != 0:
                # locate the crashing key set: one process per mask
                todo = []
                crashes = 0
                for m in range(lo, hi):
                    rc1, l1, e1 = _run_subsets(b, drv, spec, m, m + 1, seeds)
                    todo.append((m, m + 1, rc1, l1, e1))
                    if rc1 != 0:
                        crashes += 1
                        if crashes >= 3:
                            part.cap('in-process enumeration of range [%d,%d) stopped after 3 crashing key sets' % (lo, hi))
                            break
            for lo1, hi1, rc1, lines, err in todo:
                if rc1 != 0:
                    sel = [HASH_ALPHA[k] for k in bits(lo1)]
                    part.violation('hash-crash|names=%s' % ','.join(show(s) for s in sel),
                                   'building/searching the index of this key set terminated the process (exit %d): %s'
                                   % (rc1, err.strip()[-300:]),
                                   {'kind': 'hash', 'names': [hx(s) for s in sel], 'seeds': seeds})
                    part.outcome('crash')
                    continue
                for line in lines:
                    if not line.startswith('S '):
                        continue
                    r = parse_S(line)
                    mask = int(r['tag'])
                    sel = [HASH_ALPHA[k] for k in bits(mask)]
                    part.add(evaluations=1 + (len(probes) if r.get('b') else 0))
                    if r['seed'] == seeds[0]:
                        part.add(states=1, transitions=1)
                        sigs = set()
                    probs = judge_set(r, sel, probes, pindex)
                    if probs is None:
                        part.add(unspecified=1, unbuildable_key_set_builds=1)
                        part.outcome('unbuildable n=%d' % len(sel))
                        continue
                    sigs.add(r.get('sig'))
                    if r['seed'] == seeds[-1] and len(sigs) > 1:
                        part.add(key_sets_where_the_seed_changed_the_slots=1)
                    part.add(traces_validated_against_impl=1, lookups_inprocess=len(probes))
                    part.nontrivial('H%d' % mask)
                    part.outcome(('H', len(sel), r['size'], r['dm'] % 4, r['perm']))
                    if mask % 1499 == 7 and r['seed'] == seeds[0]:
                        part.sample({'explorer': 'in-process', 'names': [show(s) for s in sel], 'packed_size': r['size'],
                                     'probes': len(probes), 'found': len(r['found'])})
                    for kind, text, probe in probs[:1]:
                        part.violation('hash-%s|names=%s|seed=%d' % (kind, ','.join(show(s) for s in sel), r['seed']),
                                       text, {'kind': 'hash', 'names': [hx(s) for s in sel], 'seeds': r['seed'],
                                              'probe': hx(probe) if probe is not None else None})
    finally:
        tools.cleanup(wd)
    return part.result()


# -------------------------------------------------------------- (T) typelibs ---
def entry_for(k, mask):
    kind = KINDS[(k + mask) % len(KINDS)]
    name = TL_ALPHA[k].decode()
    gt = (GTN[k].decode(), 't_%d_get_type' % k) if 'gtype' in kind else None
    dom = DOM[k].decode('utf-8') if 'domain' in kind else None
    if kind == 'const':
        return kind, girgen.ConstN(name, girgen.B('gint'), str(k)), None, None
    if kind.startswith(('enum', 'flags')):
        return kind, girgen.EnumN(name, [girgen.Member('m', str(k))], flags=kind.startswith('flags'), gtype=gt,
                                  error_domain=dom), gt, dom
    if kind.startswith(('object', 'interface')):
        return kind, girgen.ClassN(name, gtype=gt, interface=kind.startswith('interface')), gt, None
    return kind, girgen.RecordN(name, gtype=gt, union=kind.startswith('union')), gt, None


XR_NAME = b'xr'        # local record that carries the cross-namespace references (not an alphabet name)


def xref_targets(comp):
    """alphabet names that are TYPES (enum/record kinds) of the companion namespace with key set `comp`:
    up to four of them, spread over the set"""
    cand = [k for k in bits(comp) if KINDS[(k + comp) % len(KINDS)] != 'const']
    if len(cand) > 4:
        cand = [cand[0], cand[len(cand) // 3], cand[2 * len(cand) // 3], cand[-1]]
    return cand


def make_doc(mask, ns='Test', c_prefix=None, xrefs=()):
    """-> (Doc, info) where info lists per entry (name bytes, kind, gtype name bytes|None, domain bytes|None).
    xrefs: alphabet indices of types of namespace Other that a local record `xr` refers to; each creates a
    NON-LOCAL directory entry carrying that bare name behind the local entries."""
    ents, info = [], []
    for k in bits(mask):
        kind, e, gt, dom = entry_for(k, mask)
        ents.append(e)
        info.append((TL_ALPHA[k], kind.split('+')[0], GTN[k] if gt else None, DOM[k] if dom else None))
    includes = []
    if xrefs:
        fields = [girgen.FieldN('f%d' % k, girgen.I('Other.' + TL_ALPHA[k].decode(), 'C' + TL_ALPHA[k].decode()))
                  for k in xrefs]
        ents.append(girgen.RecordN(XR_NAME.decode(), fields=fields))
        info.append((XR_NAME, 'record', None, None))
        includes = [('Other', '1.0')]
    if c_prefix is None:
        c_prefix = PREFIXES[mask % len(PREFIXES)]
    return girgen.Doc(ns, '1.0', ents, includes=includes, c_prefix=c_prefix, symbol_prefix='t'), info


def read_directory(data):
    """Independent reader of the parts of the format this property talks about (gitypelib-internal.h:
    Header, DirEntry, Section, RegisteredTypeBlob, EnumBlob).  -> dict"""
    if len(data) < 112 or data[:16] != b'GOBJ\nMETADATA\r\n\x1a':
        raise HarnessBroken('not a typelib')
    n_entries, n_local, directory = struct.unpack_from('<HHI', data, 20)
    entry_size, = struct.unpack_from('<H', data, 60)
    sections, = struct.unpack_from('<I', data, 96)

    def cstr(off):
        if not off:
            return None
        end = data.index(b'\0', off)
        return data[off:end]

    ents = []
    for i in range(n_local):
        bt, flags, name, off = struct.unpack_from('<HHII', data, directory + i * entry_size)
        e = {'index': i + 1, 'blob_type': bt, 'local': flags & 1, 'name': cstr(name), 'offset': off, 'gtype': None,
             'domain': None}
        if bt in (3, 4, 5, 6, 7, 8, 11):           # RegisteredTypeBlob prefix
            e['gtype'] = cstr(struct.unpack_from('<I', data, off + 8)[0])
        if bt == 5:
            e['domain'] = cstr(struct.unpack_from('<I', data, off + 20)[0])
        ents.append(e)
    secs = []
    p = sections
    while p and p + 8 <= len(data):
        sid, soff = struct.unpack_from('<II', data, p)
        if sid == 0:
            break
        secs.append((sid, soff))
        p += 8
    xrefs = []
    for i in range(n_local, n_entries):
        bt, flags, name, off = struct.unpack_from('<HHII', data, directory + i * entry_size)
        xrefs.append((cstr(name), cstr(off), flags & 1))
    return {'n_entries': n_entries, 'n_local': n_local, 'entries': ents, 'sections': secs, 'xrefs': xrefs,
            'c_prefix': cstr(struct.unpack_from('<I', data, 56)[0])}


def parse_entry(tok):
    if tok == '-':
        return None
    if tok in ('BAD', 'na'):
        return tok
    a = tok.split(',')
    if len(a) == 4 and len(a[0]) and a[0].isdigit():
        return tuple(int(x) for x in a[:3]) + (unhx(a[3]),)
    raise HarnessBroken('bad driver token %r' % tok)


def parse_info(tok):
    if tok in ('-',):
        return None
    if tok == 'na':
        return 'na'
    a = tok.split(',')
    if len(a) != 4:
        raise HarnessBroken('bad driver token %r' % tok)
    return (int(a[0]), int(a[1]), unhx(a[2]), unhx(a[3]))


class TLCase(object):
    """One typelib experiment: slot 0 = namespace Test with key set `mask`; optionally slot 1 = namespace
    Other with the complementary key set."""

    LOADS = ('eager', 'lazy', 'lazy-then-eager', 'mixed')

    def __init__(self, mask, pair):
        self.mask, self.pair = mask, pair
        comp = ((1 << NA) - 1) & ~mask
        # two of three paired cases: Test refers to types of Other whose names are alphabet names ABSENT from
        # Test (non-local directory entries with those bare names follow the local ones)
        self.xrefs = xref_targets(comp) if (pair and comp and mask % 3 != 0) else []
        self.docs = [make_doc(mask, 'Test', xrefs=self.xrefs)]
        if pair and comp:
            self.docs.append(make_doc(comp, 'Other', c_prefix='T'))
        self.ns = [b'Test', b'Other']
        self.load = self.LOADS[(mask // 3) % 4]
        if self.load == 'mixed' and len(self.docs) < 2:
            self.load = 'eager'
        self.data = []
        self.dirs = []

    def key(self):
        return 'mask=0x%04x%s' % (self.mask, '+pair' if len(self.docs) > 1 else '')

    def describe(self):
        return {'case': self.key(), 'load_sequence': self.load, 'c_prefix': self.docs[0][0].c_prefix,
                'entries': [(show(n), k, show(g) if g else None, show(e) if e else None) for n, k, g, e in self.docs[0][1]],
                'xrefs_to_Other': [show(TL_ALPHA[k]) for k in self.xrefs]}

    def case(self):
        return {'kind': 'typelib', 'mask': self.mask, 'pair': self.pair}


def tl_probes():
    return (probes_for(TL_ALPHA, extra=[NONASCII]), probes_for(GTN), [p for p in probes_for(DOM)])


_BLOCKS = {}


def _block(kind, s, nprobes, gprobes, eprobes, phase='after'):
    """cached (command text, plan template) of the probe menu: the same for every case of a worker"""
    key = (kind, s, phase)
    if key not in _BLOCKS:
        lines, tmpl = [], []
        if kind == 'Y':
            for g in gprobes:
                if gtype_registrable(g):
                    lines.append('Y %s' % hx(g))
                    tmpl.append(('Y', g))
        else:
            for p in nprobes:
                lines.append('N %d %s' % (s, hx(p)))
                tmpl.append(('N', s, p, phase))
            for g in gprobes:
                lines.append('G %d %s' % (s, hx(g)))
                tmpl.append(('G', s, g, phase))
                if len(g) <= 8:      # the prefix accelerator only looks at the head of the name; unjudged anyway
                    lines.append('P %d %s' % (s, hx(g)))
                    tmpl.append(('P', s, g))
            for e in eprobes:
                lines.append('E %d %s' % (s, hx(e)))
                tmpl.append(('E', s, e, phase))
        _BLOCKS[key] = ('\n'.join(lines), tmpl)
    return _BLOCKS[key]


def build_commands(cases, paths, nprobes, gprobes, eprobes):
    """-> (command text chunks, plan) where plan[i] describes what output line i answers.
    Load sequences (case.load):
      eager            probe keys (nothing loaded) . load . full probe menu
      lazy             probe keys . load with G_IREPOSITORY_LOAD_FLAG_LAZY . full probe menu
      lazy-then-eager  probe keys . lazy load . probe every member key . load again without the flag . full menu
      mixed            probe keys . one namespace loaded eagerly, the other only lazily . full menu (every key's first
                       repository-level lookup after the load happens with both tables populated; the eager one is
                       Test unless Test depends on Other through cross references)"""
    cmds, plan = [], []

    def add(c, what):
        cmds.append(c)
        plan.append(what)

    for ci, case in enumerate(cases):
        add('R', ('R',))
        text, tmpl = _block('Y', 0, nprobes, gprobes, eprobes)
        cmds.append(text)
        plan.extend(tmpl)
        nslots = len(case.docs)
        for s in range(nslots):
            add('T %d %s %s' % (s, case.ns[s].decode(), paths[ci][s]), ('T', ci, s))

        def member_probes(phase, names):
            for s in range(nslots):
                for (n, _k, gt, dom) in case.docs[s][1]:
                    if names:
                        add('N %d %s' % (s, hx(n)), ('N', ci, s, n, phase))
                    if gt:
                        add('G %d %s' % (s, hx(gt)), ('G', ci, s, gt, phase))
                    if dom:
                        add('E %d %s' % (s, hx(dom)), ('E', ci, s, dom, phase))

        # before anything is loaded nothing can be found at repository level (and the negative
        # cache this fills must not survive the load, lazy or not)
        member_probes('before', False)
        final = 'after'
        if case.load == 'mixed':
            lazy_slot = 0 if case.xrefs else 1
            add('L %d 1' % lazy_slot, ('L', ci, lazy_slot))
            add('L %d' % (1 - lazy_slot), ('L', ci, 1 - lazy_slot))
            final = 'lazy'
        elif case.load != 'eager':
            for s in reversed(range(nslots)):
                add('L %d 1' % s, ('L', ci, s))
            final = 'lazy'
        if case.load == 'lazy-then-eager':
            member_probes('lazy', True)
            final = 'after'
        if case.load not in ('lazy', 'mixed'):
            for s in reversed(range(nslots)):     # Other first: Test may depend on it
                add('L %d' % s, ('L', ci, s))
        for s in range(nslots):
            text, tmpl = _block('probes', s, nprobes, gprobes, eprobes, final)
            cmds.append(text)
            plan.extend([(e[0], ci) + e[1:] for e in tmpl])
    return cmds, plan


def judge_typelib_output(cases, lines, plan, part, counts):
    """Compares every answer with the model.  -> {case index: [(kind, text)]}"""
    if len(lines) != len(plan) + 1 or lines[-1] != 'END':
        raise HarnessBroken('typelib driver: %d answers for %d commands' % (len(lines), len(plan)))
    bad = {}
    lazy = [False]

    def flag(ci, kind, text):
        # disagreements that show while a namespace is only lazily registered get their own key family
        bad.setdefault(ci, []).append((('lazy-' if lazy[0] else '') + kind, ('[lazily loaded] ' if lazy[0] else '') + text))

    for line, what in zip(lines, plan):
        t = line.split()
        if t[0] != what[0]:
            raise HarnessBroken('typelib driver out of step: %r for %r' % (line, what))
        op = what[0]
        lazy[0] = len(what) > 4 and what[4] == 'lazy'
        if op == 'Y':
            if t[1] != '1':
                raise HarnessBroken('could not register GType %r' % what[1])
            continue
        if op == 'R':
            continue
        ci = what[1]
        case = cases[ci]
        s = what[2]
        d = case.dirs[s]
        if op == 'T':
            hasidx = int(t[2].split('=')[1])
            case.has_index = getattr(case, 'has_index', []) + [hasidx]
            if hasidx != int(any(sid == 1 for sid, _ in d['sections'])):
                raise HarnessBroken('driver and reader disagree about the index section')
            continue
        if op == 'L':
            if unhx(t[1]) != case.ns[s] or unhx(t[2]) != case.ns[s]:
                flag(ci, 'load', 'g_irepository_load_typelib returned %r/%r for namespace %r' % (t[1], t[2], case.ns[s]))
            continue
        probe = what[3]
        if op == 'P':
            part.outcome(('P', d['c_prefix'], t[1]) if len(probe) < 6 else ('P', 'long', t[1]))
            counts['unspecified'] += 1
            continue
        phase = what[4]
        field = {'N': 'name', 'G': 'gtype', 'E': 'domain'}[op]
        # ---- reference model: membership in the key set of the GIR -----------------------------------
        info = case.docs[s][1]
        col = {'N': 0, 'G': 2, 'E': 3}[op]
        member = [x for x in info if x[col] is not None and x[col] == probe]
        # the directory entry an independent reader finds under that key
        dent = [e for e in d['entries'] if e[field] is not None and e[field] == probe and (op != 'E' or e['blob_type'] == 5)]
        exp = None
        if member:
            if len(dent) != 1:
                flag(ci, 'directory', 'GIR entry %r (%s=%r) is not exactly once in the compiled directory'
                     % (show(member[0][0]), field, show(probe)))
                continue
            exp = dent[0]
            if exp['name'] != member[0][0] or exp['blob_type'] not in BLOB[member[0][1]]:
                flag(ci, 'directory', 'directory entry for %s=%r is %r blob_type %d, GIR says %r %s'
                     % (field, show(probe), show(exp['name']), exp['blob_type'], show(member[0][0]), member[0][1]))
                continue
        elif dent:
            flag(ci, 'directory', 'compiled directory has an entry with %s=%r that the GIR does not have' % (field, show(probe)))
            continue
        # ---- typelib level: index flavour, fallback flavour -------------------------------------------
        res = [('typelib(index)', parse_entry(t[1])), ('typelib(index-section-patched-away)', parse_entry(t[2]))]
        for label, got in res:
            counts['lookups'] += 1
            if exp is None:
                if got is not None:
                    flag(ci, 'false-hit', '%s by %s: absent probe %r returned entry %r' % (label, field, show(probe), sh(got)))
            elif got is None:
                flag(ci, 'miss', '%s by %s: member %r not found' % (label, field, show(probe)))
            elif got == 'BAD' or got[:3] != (exp['index'], exp['blob_type'], exp['offset']) or got[3] != exp['name']:
                flag(ci, 'wrong-entry', '%s by %s: probe %r returned %r, expected entry #%d %r'
                     % (label, field, show(probe), sh(got), exp['index'], show(exp['name'])))
        # ---- repository level ---------------------------------------------------------------------------
        # find_by_name searches namespace s; find_by_gtype / find_by_error_domain search every loaded namespace
        rexp, rns = exp, case.ns[s]
        if op != 'N':
            rexp = None
            for s2 in range(len(case.docs)):
                hit = [e for e in case.dirs[s2]['entries'] if e[field] is not None and e[field] == probe
                       and (op != 'E' or e['blob_type'] == 5)]
                inm = [x for x in case.docs[s2][1] if x[col] is not None and x[col] == probe]
                if inm and len(hit) == 1:
                    rexp, rns = hit[0], case.ns[s2]
        if phase == 'before':
            rexp = None
        for label, tok in (('repository', t[3]), ('repository(fallback typelib)', t[4])):
            got = parse_info(tok)
            if got == 'na':
                counts['na'] += 1
                continue
            counts['lookups'] += 1
            fn = {'N': 'g_irepository_find_by_name', 'G': 'g_irepository_find_by_gtype',
                  'E': 'g_irepository_find_by_error_domain'}[op]
            if rexp is None:
                if got is not None:
                    flag(ci, 'false-hit', '%s %s(%r)%s returned %r' % (label, fn, show(probe),
                         ' before any namespace was loaded' if phase == 'before' else '', sh(got)))
            elif got is None:
                flag(ci, 'miss', '%s %s(%r) found nothing; typelib-level lookup finds entry #%d %r in %s'
                     % (label, fn, show(probe), rexp['index'], show(rexp['name']), rns.decode()))
            elif got != (rexp['blob_type'], rexp['offset'], rexp['name'], rns):
                flag(ci, 'wrong-entry', '%s %s(%r) returned %r, expected (%d, %d, %r, %r)'
                     % (label, fn, show(probe), sh(got), rexp['blob_type'], rexp['offset'], show(rexp['name']), rns.decode()))
        if exp is not None or rexp is not None:
            counts['must_found'] += 1
        if op == 'N' and s == 0 and case.xrefs and any(probe == TL_ALPHA[k] for k in case.xrefs):
            counts['xref'] += 1
        part.outcome((op, phase, exp is not None, rexp is not None, t[1] != '-', t[3] not in ('-', 'na')))
    return bad


def compile_case(b, case, wd, tag):
    """-> (paths or None, problem)"""
    paths = []
    case.data, case.dirs = [], []
    sub = os.path.join(wd, tag)          # the compiler insists on <namespace>-<version>.gir
    os.makedirs(sub, exist_ok=True)
    case.data, case.dirs, paths = [None] * len(case.docs), [None] * len(case.docs), [None] * len(case.docs)
    for s in reversed(range(len(case.docs))):        # Other first: Test may <include> it
        doc, info = case.docs[s]
        name = '%s-1.0' % doc.ns
        rc, err, data = tools.compile_gir(b, doc.xml(), sub, name=name, includedirs=[sub])
        if rc != 0 or data is None:
            return None, 'g-ir-compiler exit %d on a GIR with entries %s: %s' % (
                rc, [show(x[0]) for x in info], err.strip()[-300:])
        d = read_directory(data)
        names = [e['name'] for e in d['entries']]
        if sorted(names) != sorted(x[0] for x in info):
            return None, 'directory names %r differ from the GIR entries %r' % (
                [show(n) for n in names], [show(x[0]) for x in info])
        want = sorted((TL_ALPHA[k], b'Other', 0) for k in case.xrefs) if s == 0 else []
        if sorted(d['xrefs']) != want:
            return None, 'non-local directory entries %r, the GIR refers to %r' % (d['xrefs'], want)
        case.data[s] = data
        case.dirs[s] = d
        paths[s] = os.path.join(sub, name + '.typelib')
    return paths, None


def run_cases(b, drv, cases, wd, part, probes3, bc=None):
    """b: build whose prober runs the lookups; bc: build whose g-ir-compiler produces the typelibs"""
    nprobes, gprobes, eprobes = probes3
    bc = bc or b
    ok_cases, paths = [], []
    for i, case in enumerate(cases):
        p, prob = compile_case(bc, case, wd, 'c%d' % i)
        part.add(evaluations=len(case.docs))
        if p is None:
            part.violation('typelib-compile|%s' % case.key(), prob, case.case())
            part.outcome('compile-failed')
            continue
        ok_cases.append(case)
        paths.append(p)
    if not ok_cases:
        return
    cmds, plan = build_commands(ok_cases, paths, nprobes, gprobes, eprobes)
    job = os.path.join(wd, 'job')
    with open(job, 'w') as f:
        f.write('\n'.join(cmds) + '\n')
    rc, out, err = tools.run(b, [drv, 'typelib', job], timeout=900)
    if rc != 0:
        if len(ok_cases) == 1:
            part.violation('typelib-crash|%s' % ok_cases[0].key(),
                           'lookup prober terminated (exit %d): %s' % (rc, err.strip()[-300:]), ok_cases[0].case())
            part.outcome('crash')
            return
        for c in ok_cases:
            run_cases(b, drv, [TLCase(c.mask, c.pair)], wd, part, probes3, bc)
        return
    counts = {'lookups': 0, 'unspecified': 0, 'na': 0, 'must_found': 0, 'xref': 0}
    bad = judge_typelib_output(ok_cases, out.decode('ascii', 'replace').splitlines(), plan, part, counts)
    part.add(evaluations=counts['lookups'] + counts['unspecified'], lookups_typelib=counts['lookups'],
             unspecified=counts['unspecified'], prefix_probes_unjudged=counts['unspecified'],
             find_by_gtype_skipped_no_registrable_name=counts['na'],
             probes_of_names_present_only_as_nonlocal_xref=counts['xref'])
    for ci, case in enumerate(ok_cases):
        part.add(states=1, transitions=1, traces_validated_against_impl=1, typelibs_compiled_and_probed=len(case.docs))
        part.nontrivial('T' + case.key())
        part.outcome(('index-present', tuple(getattr(case, 'has_index', ()))))
        if not all(getattr(case, 'has_index', [0])):
            part.add(typelibs_without_index=1)
        hi = tuple(getattr(case, 'has_index', ()))
        part.outcome(('load', case.load, bool(case.xrefs), hi))
        part.add(**{'typelib_cases_load_' + case.load.replace('-', '_'): 1})
        if case.xrefs:
            part.add(typelib_cases_with_xrefs=1)
            if hi and not hi[0]:
                part.add(typelib_cases_with_xrefs_and_no_index=1)
        if case.mask % 397 == 3:
            d = case.describe()
            d.update(explorer='typelib', has_index=list(hi))
            part.sample(d)
        seen = set()
        for kind, text in bad.get(ci, ()):
            if kind in seen:
                continue
            seen.add(kind)
            part.violation('typelib-%s|%s' % (kind, case.key()), text, case.case())


def _work_typelib(chunk):
    tier, asan, groups = chunk
    part = Part()
    b = bc = cbuild.build(asan)
    drv = b.driver('drv_hash')
    wd = tools.workdir('c14t')
    probes3 = tl_probes()
    try:
        for group in groups:
            run_cases(b, drv, [TLCase(m, pair) for m, pair in group], wd, part, probes3, bc)
            part.add(**{'typelib_cases_run_with_asan' if asan else 'typelib_cases_run_plain': len(group)})
    finally:
        tools.cleanup(wd)
    return part.result()


# ---------------------------------------------------------------- (L) ladder ---
def ladder_names(n):
    return [('k%d' % i).encode() for i in range(n)]


def ladder_probes(names, per_member=10):
    """all members + per_member generated probes for each (absent unless they happen to be members)"""
    n = len(names)
    out, seen = [], set()
    for i, m in enumerate(names):
        cands = [m, m + b'_', m + b'0', b'K' + m[1:], ('k%d' % (i + n)).encode(), b'x' + m, m[:-1] + b'z', m[1:],
                 m + b'-', b'k0' + m[1:], m + m[1:]]
        for c in cands[:per_member + 1]:
            if c not in seen:
                seen.add(c)
                out.append(c)
    return out


def ladder_doc(n):
    names = ladder_names(n)
    ents = [girgen.ConstN(m.decode(), girgen.B('gint'), str(i)) for i, m in enumerate(names)]
    return girgen.Doc('Test', '1.0', ents, c_prefix='T', symbol_prefix='t')


def _work_ladder_hash(chunk):
    """in-process: builder + search with 32-bit size arithmetic (as gthash.c itself does)"""
    tier, asan, n = chunk
    part = Part()
    b = cbuild.build(asan)
    drv = b.driver('drv_hash')
    wd = tools.workdir('c14lh%d' % n)
    try:
        names = ladder_names(n)
        probes = ladder_probes(names)
        pindex = {p: i for i, p in enumerate(probes)}
        spec = os.path.join(wd, 'spec')
        write_spec(spec, names, probes)
        rc, out, err = tools.run(b, [drv, 'full', spec, '1'], timeout=900)
        part.add(states=1, transitions=1)
        if rc != 0:
            part.violation('ladder-hash-crash:N=%d' % n, 'in-process index build/search of %d generated names terminated '
                           'the process (exit %d): %s' % (n, rc, err.strip()[-300:]), {'kind': 'ladder-hash', 'N': n})
            return part.result()
        r = parse_S(out.decode('ascii').splitlines()[0])
        part.add(evaluations=1 + len(probes))
        probs = judge_set(r, names, probes, pindex)
        if probs is None:
            part.add(unspecified=1)
            part.outcome('ladder unbuildable n=%d' % n)
            return part.result()
        part.add(traces_validated_against_impl=1, lookups_inprocess=len(probes))
        part.nontrivial('LH%d' % n)
        part.outcome(('LH', n, r['size']))
        part.sample({'explorer': 'ladder in-process', 'N': n, 'packed_size': r['size'], 'probes': len(probes),
                     'fits_guint16': r['size'] <= 65535})
        part.add(**{'ladder_packed_size_N%d' % n: r['size']})
        for kind, text, probe in probs[:1]:
            part.violation('ladder-hash-%s:N=%d' % (kind, n), text, {'kind': 'ladder-hash', 'N': n})
    finally:
        tools.cleanup(wd)
    return part.result()


def _work_ladder_compile(chunk):
    tier, asan, n, outdir = chunk
    part = Part()
    b = cbuild.build(asan)
    sub = os.path.join(outdir, 'L%d' % n)
    os.makedirs(sub, exist_ok=True)
    rc, err, data = tools.compile_gir(b, ladder_doc(n).xml(), sub, name='Test-1.0')
    try:
        os.unlink(os.path.join(sub, 'Test-1.0.gir'))
    except OSError:
        pass
    part.add(evaluations=1, states=1, transitions=1)
    if rc != 0 or data is None:
        tail = err.strip()[-300:]
        if 'gthash.c' in err or 'packed_size' in err:
            key = 'index-build-abort:N=%d' % n
        else:
            key = 'ladder-compile-failed:N=%d' % n
        part.violation(key, 'g-ir-compiler exit %d on a GIR with %d constants k0..k%d (the format allows 65535 '
                       'directory entries): %s' % (rc, n, n - 1, tail), {'kind': 'ladder', 'N': n})
        part.outcome(('ladder-compile-failed', n))
        part.nontrivial('LC%d' % n)
        return part.result()
    d = read_directory(data)
    if [e['name'] for e in d['entries']] != ladder_names(n):
        part.violation('ladder-directory:N=%d' % n, 'directory names differ from the GIR', {'kind': 'ladder', 'N': n})
    part.outcome(('ladder-compiled', n, any(s == 1 for s, _ in d['sections'])))
    return part.result()


def _work_try_compile(chunk):
    """bisection step: does a GIR with n constants compile?  (the typelib is kept for the boundary rung)"""
    asan, n, outdir = chunk
    part = Part()
    b = cbuild.build(asan)
    sub = os.path.join(outdir, 'B%d' % n)
    os.makedirs(sub, exist_ok=True)
    rc, err, data = tools.compile_gir(b, ladder_doc(n).xml(), sub, name='Test-1.0')
    ok = rc == 0 and data is not None
    if ok and [e['name'] for e in read_directory(data)['entries']] != ladder_names(n):
        ok = False
    import shutil
    if ok:
        os.unlink(os.path.join(sub, 'Test-1.0.gir'))
    else:
        shutil.rmtree(sub, ignore_errors=True)
    part.add(evaluations=1, ladder_bisection_compiles=1)
    part.outcome(('bisect', ok))
    r = part.result()
    r['n'], r['ok'] = n, ok
    return r


def _work_ladder_probe(chunk):
    tier, asan, n, outdir, lo, hi, nslices = chunk
    part = Part()
    path = os.path.join(outdir, 'L%d' % n, 'Test-1.0.typelib')
    if not os.path.exists(path):
        return part.result()
    b = cbuild.build(asan)
    drv = b.driver('drv_hash')
    with open(path, 'rb') as f:
        d = read_directory(f.read())
    names = ladder_names(n)
    members = set(names)
    probes = ladder_probes(names)[lo:hi]
    # the linear fallback is O(N) per probe: for the big rungs it gets every member and one generated probe per member
    full = n <= 4096
    job = os.path.join(outdir, 'job-%d-%d' % (n, lo))
    flav = []
    with open(job, 'w') as f:
        f.write('R\nT 0 Test %s\nL 0\n' % path)
        for p in probes:
            lin = full or p in members or p.endswith(b'_')
            flav.append(lin)
            f.write('%s 0 %s\n' % ('N' if lin else 'n', hx(p)))
    rc, out, err = tools.run(b, [drv, 'typelib', job], timeout=1800)
    os.unlink(job)
    if rc != 0:
        part.violation('ladder-crash:N=%d' % n, 'lookup prober terminated (exit %d) on probes [%d,%d): %s'
                       % (rc, lo, hi, err.strip()[-300:]), {'kind': 'ladder', 'N': n})
        return part.result()
    lines = out.decode('ascii').splitlines()
    if len(lines) != len(probes) + 4 or lines[-1] != 'END':
        raise HarnessBroken('ladder driver output out of step')
    hasidx = int(lines[1].split()[2].split('=')[1])
    byname = {e['name']: e for e in d['entries']}
    nlook = 0
    first = None
    for p, lin, line in zip(probes, flav, lines[3:-1]):
        t = line.split()
        exp = byname.get(p) if p in members else None
        if lin:
            ents, infos = [t[1], t[2]], [t[3], t[4]]
        else:
            ents, infos = [t[1]], [t[2]]
        for tok in ents:
            got = parse_entry(tok)
            nlook += 1
            ok = (got is None) if exp is None else (got is not None and got != 'BAD' and
                                                    got == (exp['index'], exp['blob_type'], exp['offset'], exp['name']))
            if not ok and first is None:
                first = 'probe %r: typelib-level lookup returned %r, expected %s' % (
                    show(p), sh(got), 'absent' if exp is None else 'entry #%d' % exp['index'])
        for tok in infos:
            got = parse_info(tok)
            nlook += 1
            ok = (got is None) if exp is None else (got == (exp['blob_type'], exp['offset'], exp['name'], b'Test'))
            if not ok and first is None:
                first = 'probe %r: g_irepository_find_by_name returned %r, expected %s' % (
                    show(p), sh(got), 'absent' if exp is None else 'entry #%d' % exp['index'])
    part.add(evaluations=nlook, lookups_typelib=nlook, traces_validated_against_impl=1 if lo == 0 else 0)
    part.nontrivial('LT%d' % n)
    part.outcome(('ladder-probed', n, hasidx, first is None))
    if lo == 0:
        part.sample({'explorer': 'ladder typelib', 'N': n, 'has_index': hasidx, 'probe_slices': nslices})
    if first is not None:
        part.violation('ladder-lookup:N=%d' % n, first, {'kind': 'ladder', 'N': n})
    return part.result()


# ------------------------------------------------------------------- driver ---
def typelib_masks(tier):
    """quick: every subset of size 1, 2, 13, 14 plus an evenly strided selection of the others (200 in all);
    thorough: all 16383 subsets."""
    allm = sorted(range(1, 1 << NA), key=lambda m: (bin(m).count('1'), m))
    if tier == 'thorough':
        return allm, None
    small = [m for m in allm if bin(m).count('1') in (1, 2, NA - 1, NA)]
    rest = [m for m in allm if bin(m).count('1') not in (1, 2, NA - 1, NA)]
    want = 200 - len(small)
    step = len(rest) // want
    picked = [rest[i * step + step // 2] for i in range(want)]
    return sorted(small + picked, key=lambda m: (bin(m).count('1'), m)), '200 of 16383 subsets through real typelibs'


def run(ctx):
    thorough = ctx.tier == 'thorough'
    asan = thorough
    b = cbuild.build(asan)
    b.driver('drv_hash')
    if asan:
        cbuild.build(False)
    allseeds = covering_seeds()
    seeds = allseeds if thorough else allseeds[:3]
    ladder = LADDER_THOROUGH if thorough else LADDER_QUICK
    masks, note = typelib_masks(ctx.tier)
    nprobes, gprobes, eprobes = tl_probes()
    hprobes = probes_for(HASH_ALPHA)
    ctx.set(rule='(H) all %d non-empty subsets of the 14-name alphabet, srand seeds %r (cmph picks one of 15 hash functions with rand()), built and packed in-process by '
                 '_gi_typelib_hash_builder_*, %d probes each (members, proper prefixes, 1-char extensions, 1-char '
                 'substitutions, empty) through _gi_typelib_hash_search + final strcmp; (T) %d subsets compiled to real '
                 'typelibs (12 entry kinds rotating over the names: every registered-type kind - record, union, enum, flags, object, interface - with a GType name, record/union/enum/flags also without, constant, 4 c:identifier-prefixes), each also next to a second '
                 'namespace holding the complementary key set (2 of 3 with cross-namespace references to alphabet names absent '
                 'locally; load sequences eager / lazy / lazy-then-eager / mixed (one namespace eager, the other lazy)): %d name / %d GType-name / %d error-domain probes through '
                 'index, patched-away index (linear fallback), find_by_name / find_by_gtype (real GTypes) / '
                 'find_by_error_domain on two repositories, and repository probes before the load; (L) size ladder %r '
                 'in-process and through g-ir-compiler + prober (all members + 10 generated probes per member). '
                 'non-trivial = every key set (each has at least one member that MUST be found)%s'
                 % ((1 << NA) - 1, seeds, len(hprobes), len(masks), len(nprobes), len(gprobes), len(eprobes), ladder,
                    ('; the in-process explorer, the ladder (compiles, bisection, prober) and the typelib explorer for the '
                     'quick tier\'s 200 key sets run as ASan+UBSan builds, the other typelib cases with the plain build'
                     if asan else '')),
            bounds={'alphabet': NA, 'subsets_inprocess': (1 << NA) - 1, 'seeds': seeds, 'subsets_typelib': len(masks),
                    'probes_inprocess': len(hprobes), 'probes_name': len(nprobes), 'probes_gtype': len(gprobes),
                    'probes_domain': len(eprobes), 'ladder': ladder, 'asan': asan})
    if note:
        ctx.set(typelib_subset_selection=note + ' (sizes 1, 2, 13, 14 complete; the in-process explorer covers all subsets)')
    outdir = tools.workdir('c14L')
    try:
        # phase 1: ladder compiles + ladder in-process (big first), typelib groups, in-process ranges
        jobs = []
        for n in sorted(ladder, reverse=True):
            jobs.append((_work_ladder_compile, (ctx.tier, asan, n, outdir)))
            jobs.append((_work_ladder_hash, (ctx.tier, asan, n)))
        # thorough: the sanitized g-ir-compiler and prober (whose start-up and interceptors dominate the cost)
        # handle the quick tier's selection of key sets, the plain binaries the others
        group = 6
        sel = set(typelib_masks('quick')[0]) if thorough else set()
        for flag, ms in ((asan, [m for m in masks if m in sel]), (False, [m for m in masks if m not in sel])):
            groups = [[(m, True) for m in ms[i:i + group]] for i in range(0, len(ms), group)]
            for c in chunked(rotate(groups, ctx.seed), 64 if len(groups) > 256 else 32):
                jobs.append((_work_typelib, (ctx.tier, flag, c)))
        total = 1 << NA
        nr = 128 if thorough else 48
        ranges = [(max(1, i * total // nr), (i + 1) * total // nr) for i in range(nr)]
        for c in chunked(rotate(ranges, ctx.seed), nr // 2):
            jobs.append((_work_hash, (ctx.tier, asan, seeds, c)))
        held = []
        for job, r in zip(jobs, pmap(_dispatch, jobs)):
            if job[0] is _work_ladder_compile:
                held.append((job[1][2], r))
            else:
                ctx.merge(r)
        # a rung that does not compile: locate the smallest failing entry count below it by k-ary bisection
        # with the compiler, so that the report names the boundary; the last compiling count becomes a rung
        extra_rungs = []
        failed = sorted(n for n, r in held if r['violations'])
        if failed:
            okr = [n for n, r in held if not r['violations'] and n < failed[0]]
            lo, hi = (max(okr) if okr else 0), failed[0]
            while hi - lo > 1:
                k = min(15, hi - lo - 1)
                pts = sorted(set(lo + (hi - lo) * (i + 1) // (k + 1) for i in range(k)) - {lo, hi})
                res = list(pmap(_dispatch, [(_work_try_compile, (asan, n, outdir)) for n in pts]))
                for r in res:
                    ctx.merge(r)
                bad = [r['n'] for r in res if not r['ok']]
                if bad:
                    hi = min(bad)
                good = [r['n'] for r in res if r['ok'] and r['n'] < hi]
                if good:
                    lo = max(lo, max(good))
                elif not bad:
                    break
            ctx.set(ladder_first_failing_N=hi, ladder_last_compiling_N=lo)
            note = ('; bisection with the compiler: the smallest failing entry count is %d, %d entries still compile'
                    % (hi, lo))
            for n, r in held:
                r['violations'] = [(k, d + note, c) for k, d, c in r['violations']]
            if lo >= 1 and lo not in ladder and os.path.exists(os.path.join(outdir, 'B%d' % lo, 'Test-1.0.typelib')):
                os.rename(os.path.join(outdir, 'B%d' % lo), os.path.join(outdir, 'L%d' % lo))
                extra_rungs.append(lo)
        for n, r in held:
            ctx.merge(r)
        # phase 2: probe the ladder typelibs that were produced
        jobs = []
        for n in sorted(ladder + extra_rungs, reverse=True):
            np_ = len(ladder_probes(ladder_names(n)))
            nsl = 1 if n <= 4096 else (16 if n <= 16384 else 48)
            for i in range(nsl):
                jobs.append((_work_ladder_probe, (ctx.tier, asan, n, outdir, i * np_ // nsl, (i + 1) * np_ // nsl, nsl)))
        for r in pmap(_dispatch, jobs):
            ctx.merge(r)
    finally:
        tools.cleanup(outdir)
    ctx.assumptions += [
        'glibshim headers declare the GLib ABI correctly (trusted base); system GLib 2.74 runtime',
        'cmph picks one of 15 hash functions with rand() %% 15; the in-process explorer calls srand(s) before each build '
        'for %s (thorough: values of s whose first draw covers all 15); a fresh g-ir-compiler process always starts '
        'from the C default srand(1)' % ('a covering list' if thorough else 'the first three of a covering list'),
        'directory names are restricted to [A-Za-z0-9_-] by typelib validation, so the non-ASCII name is a member only '
        'in the in-process explorer and a probe everywhere',
        'find_by_gtype needs a live GType: the prober registers a boxed GType under every probe string that GLib accepts '
        'as a type name (>= 3 characters); shorter probes are exercised at typelib level only',
        'g_typelib_matches_gtype_name_prefix answers are recorded but not judged (UNSPECIFIED by the statement)',
        'the in-process explorer passes a 32-bit buffer size to _gi_typelib_hash_builder_pack; the 16-bit size kept by '
        'add_directory_index_section is exercised only through g-ir-compiler (explorers T and L)',
        'x86-64 little-endian only',
    ]
    if ctx.violations:
        return          # crashes of the code under test thin the exploration out; they are the verdict, not vacuity
    if ctx.cov['traces_validated_against_impl'] < 100 or len(ctx._outcomes) < 20:
        raise HarnessBroken('vacuous exploration: %d traces, %d outcomes'
                            % (ctx.cov['traces_validated_against_impl'], len(ctx._outcomes)))
    if ctx.cov.get('lookups_typelib', 0) < 1000 or ctx.cov.get('lookups_inprocess', 0) < 1000:
        raise HarnessBroken('too few lookups executed')


def _dispatch(job):
    func, chunk = job
    return func(chunk)


# ------------------------------------------------------------------- replay ---
def replay(ctx, case):
    kind = case.get('kind')
    part = Part()
    if kind == 'hash':
        b = cbuild.build(False)
        drv = b.driver('drv_hash')
        names = [bytes.fromhex(h) for h in case['names']]
        probes = probes_for(HASH_ALPHA)
        pindex = {p: i for i, p in enumerate(probes)}
        for n in names:
            if n not in pindex:
                probes.append(n)
                pindex[n] = len(probes) - 1
        wd = tools.workdir('c14r')
        try:
            spec = os.path.join(wd, 'spec')
            write_spec(spec, names, probes)
            seeds = case.get('seeds') or [1]
            if isinstance(seeds, int):
                seeds = [seeds]
            rc, out, err = tools.run(b, [drv, 'full', spec, ','.join(map(str, seeds))])
            print('key set:', [show(n) for n in names], 'srand seeds %r' % seeds, 'driver exit', rc, err.strip()[-300:])
            if rc != 0:
                return False
            ok = True
            for line in out.decode('ascii').splitlines():
                r = parse_S(line)
                probs = judge_set(r, names, probes, pindex)
                print('  seed %d: buildable=%s size=%s -> %s' % (r['seed'], r.get('b'), r.get('size'),
                                                                  'ok' if not probs else probs[:3]))
                ok = ok and not probs
            return ok
        finally:
            tools.cleanup(wd)
    if kind == 'typelib':
        b = cbuild.build(False)
        drv = b.driver('drv_hash')
        wd = tools.workdir('c14r')
        try:
            c = TLCase(case['mask'], case.get('pair', True))
            print('namespace Test:', c.describe())
            run_cases(b, drv, [c], wd, part, tl_probes())
        finally:
            tools.cleanup(wd)
        for key, desc, _ in part.violations:
            print('  %s: %s' % (key, desc))
        return not part.violations
    if kind == 'ladder-hash':
        r = _work_ladder_hash(('quick', False, case['N']))
        for key, desc, _ in r['violations']:
            print('  %s: %s' % (key, desc))
        print('  samples:', r['samples'])
        return not r['violations']
    if kind == 'ladder':
        n = case['N']
        outdir = tools.workdir('c14r')
        try:
            r = _work_ladder_compile(('quick', False, n, outdir))
            viol = list(r['violations'])
            print('N=%d: compile %s' % (n, 'failed' if viol else 'ok'))
            if not viol:
                np_ = len(ladder_probes(ladder_names(n)))
                nsl = 1 if n <= 4096 else 16
                rs = list(pmap(_dispatch, [(_work_ladder_probe, ('quick', False, n, outdir, i * np_ // nsl,
                                                                 (i + 1) * np_ // nsl, nsl)) for i in range(nsl)]))
                for r2 in rs:
                    viol += r2['violations']
            for key, desc, _ in viol:
                print('  %s: %s' % (key, desc))
            return not viol
        finally:
            tools.cleanup(outdir)
    raise HarnessBroken('unknown replay case kind %r' % kind)
